"""Audit of property C14: the global grid stays consistent over any call history;
devices / codecs / DSP functions are pure, seedable and never alias their inputs.

Prints one line per violated (clause, input), exits 1 if any clause is violated,
prints PASS and exits 0 otherwise.
"""
import sys, os
if sys.path and os.path.abspath(sys.path[0] or '.') == os.path.dirname(os.path.abspath(__file__)):
    del sys.path[0]

import io, copy, time, itertools, warnings, contextlib, signal as _sig
import numpy as np
from numpy.fft import fftshift, fftfreq
from scipy.constants import c as C_LIGHT, pi

warnings.simplefilter('ignore')

import opticomlib
from opticomlib import gv, binary_sequence, electrical_signal, optical_signal
from opticomlib.typing import eye as eye_cls
from opticomlib import devices as dv, ook, ppm, utils as ut
try:
    from opticomlib import lab
except Exception:           # pyvisa missing: the lab functions are skipped
    lab = None

T_START = time.time()
BUDGET = float(os.environ.get('AUDIT_BUDGET', 780.0))   # seconds; the sampled parts stop when the budget is used up

VIOL = {}                   # clause -> list of inputs
EXC = {}                    # (function, exception) -> count, first input  (information only)
NCALL = [0]


def violation(clause, inp):
    lst = VIOL.setdefault(clause, [])
    lst.append(inp)
    if len(lst) <= 12:
        print(f'VIOLATION [{clause}] {inp}', flush=True)
    elif len(lst) == 13:
        print(f'VIOLATION [{clause}] ... (further inputs counted only)', flush=True)


class Timeout(Exception):
    pass


def _alarm(signum, frame):
    raise Timeout()


_sig.signal(_sig.SIGALRM, _alarm)


def guarded(f, args, kw, tmo=20):
    """run f(*args, **kw) silently; returns ('ok', value) or ('exc', name)"""
    NCALL[0] += 1
    _sig.alarm(tmo)
    try:
        with contextlib.redirect_stdout(io.StringIO()):
            return 'ok', f(*args, **kw)
    except Timeout:
        return 'exc', 'Timeout'
    except Exception as e:
        return 'exc', type(e).__name__
    finally:
        _sig.alarm(0)


# ---------------------------------------------------------------------------------------
# freezing: a bit-exact, comparable image of any value the library takes or returns
# ---------------------------------------------------------------------------------------
def freeze(o, _depth=0):
    if _depth > 6:
        return ('deep',)
    if o is None or isinstance(o, (str, bytes, bool)):
        return (type(o).__name__, o)
    if isinstance(o, (int, np.integer)):
        return (type(o).__name__, int(o))
    if isinstance(o, (float, np.floating)):
        return (type(o).__name__, np.float64(o).tobytes())
    if isinstance(o, (complex, np.complexfloating)):
        return (type(o).__name__, np.complex128(o).tobytes())
    if isinstance(o, np.ndarray):
        if o.dtype == object:
            return ('ndobj', o.shape, tuple(freeze(x, _depth + 1) for x in o.ravel()))
        return ('nd', o.dtype.str, o.shape, np.ascontiguousarray(o).tobytes())
    if isinstance(o, binary_sequence):
        return ('bits', freeze(o.data, _depth + 1))
    if isinstance(o, optical_signal):
        return ('opt', o.n_pol, freeze(o.signal, _depth + 1), freeze(o.noise, _depth + 1))
    if isinstance(o, electrical_signal):
        return ('el', freeze(o.signal, _depth + 1), freeze(o.noise, _depth + 1))
    if isinstance(o, eye_cls):
        return ('eye', tuple((k, freeze(v, _depth + 1)) for k, v in sorted(vars(o).items()) if k != 'execution_time'))
    if isinstance(o, (list, tuple)):
        return (type(o).__name__, tuple(freeze(x, _depth + 1) for x in o))
    if isinstance(o, dict):
        return ('dict', tuple((k, freeze(v, _depth + 1)) for k, v in sorted(o.items())))
    if callable(o):
        return ('callable', id(o))
    return ('obj', type(o).__name__, id(o))


def arrays_of(o, out=None, _depth=0):
    if out is None:
        out = []
    if _depth > 6:
        return out
    if isinstance(o, np.ndarray):
        out.append(o)
    elif isinstance(o, binary_sequence):
        out.append(o.data)
    elif isinstance(o, electrical_signal):
        out.append(o.signal)
        if o.noise is not None:
            out.append(o.noise)
    elif isinstance(o, eye_cls):
        for v in vars(o).values():
            arrays_of(v, out, _depth + 1)
    elif isinstance(o, (list, tuple)):
        for v in o:
            arrays_of(v, out, _depth + 1)
    elif isinstance(o, dict):
        for v in o.values():
            arrays_of(v, out, _depth + 1)
    return out


def freeze_gv():
    return tuple((k, freeze(v)) for k, v in sorted(vars(gv).items()))


def describe(o):
    if isinstance(o, np.ndarray):
        return f'nd{o.dtype.str}{list(o.shape)}'
    if isinstance(o, binary_sequence):
        return f'bits[{o.len()}]'
    if isinstance(o, optical_signal):
        return f'opt(pol={o.n_pol},len={o.len()},{o.signal.dtype.str},noise={"y" if o.noise is not None else "n"})'
    if isinstance(o, electrical_signal):
        return f'el(len={o.len()},{o.signal.dtype.str},noise={"y" if o.noise is not None else "n"})'
    if isinstance(o, (list, tuple)) and len(o) > 6:
        return f'{type(o).__name__}[{len(o)}]'
    if isinstance(o, str) and len(o) > 24:
        return repr(o[:21] + '...')
    return repr(o)


def describe_call(name, args, kw):
    gvs = f'gv(sps={gv.sps},R={gv.R:g}' + (f',N={gv.N}' if gv.N is not None else '') + ')'
    a = ', '.join([describe(x) for x in args] + [f'{k}={describe(v)}' for k, v in kw.items()])
    return f'{gvs} {name}({a})'


# ---------------------------------------------------------------------------------------
# a "history": other library calls with other data, leaving the random state somewhere else
# ---------------------------------------------------------------------------------------
CURRENT_CFG = [None]


def history(k):
    np.random.seed(1000 + k)
    with contextlib.redirect_stdout(io.StringIO()):
        try:
            sps = gv.sps
            b = dv.PRBS(7, 24 + k)
            x = dv.DAC(b, Vout=1.5, pulse_shape='nrz' if k % 2 else 'rz')
            o = optical_signal(np.random.randn(x.len()) + 1j, np.random.randn(x.len()) * 0.1)
            m = dv.MZM(o, x, bias=1.0)
            e_ = dv.EDFA(m, 10, 4)
            if x.len() > 8:
                p = dv.PD(e_, BW=gv.fs / 4)
                dv.LPF(p, gv.fs / 5)
                dv.ADC(p, n=4)
            ppm.HDD(np.random.randint(0, 2, 16), 4)
            ut.db([1.0, 2.0])
            dv.DM(o, 17.0)
            np.random.rand(k + 3)
        except Exception:
            pass
    # the grid goes somewhere else and comes back: the values in force are the same again
    if CURRENT_CFG[0] is not None and k == 0:
        gv.clean(); gv(sps=3, fs=30e9, N=5, wavelength=1310e-9, foo=1); gv.clean(); gv(**CURRENT_CFG[0])


# ---------------------------------------------------------------------------------------
# the purity / seed / alias check of one call
# ---------------------------------------------------------------------------------------
def check_call(name, f, args=(), kw=None, deterministic=False, seeds=(0, 7), tmo=20, hist=True):
    kw = kw or {}
    label = None
    gsave = {k: (v.copy() if isinstance(v, np.ndarray) else v) for k, v in vars(gv).items()}
    g0 = freeze_gv()
    a0 = freeze((args, kw))
    in_arrays = arrays_of((list(args), kw))
    first = None
    for si_, s in enumerate(seeds):
        np.random.seed(s)
        st1, o1 = guarded(f, args, kw, tmo)
        if label is None and (freeze_gv() != g0 or freeze((args, kw)) != a0 or True):
            label = describe_call(name, args, kw)
        if freeze_gv() != g0:
            violation('pure: gv modified', label)
            gv.__dict__.clear(); gv.__dict__.update(gsave)
            return
        if freeze((args, kw)) != a0:
            violation('pure: argument data modified', label + (f' [{o1}]' if st1 == 'exc' else ''))
            return
        if st1 == 'exc':
            key = (name, o1)
            if key not in EXC:
                EXC[key] = [0, label]
            EXC[key][0] += 1
            if o1 == 'Timeout':
                return
            # an exception must be reproducible too
            np.random.seed(s)
            st2, o2 = guarded(f, args, kw, tmo)
            if (st2, o2) != (st1, o1):
                violation('seed: exception not reproduced', f'{label} seed={s}: {o1} then {st2}:{o2 if st2 == "exc" else "value"}')
            continue
        # aliasing
        for oa in arrays_of(o1):
            for ia in in_arrays:
                if oa.size and ia.size and np.shares_memory(oa, ia):
                    violation('alias: output shares memory with an input', label)
                    break
        f1 = freeze(o1)
        # same seed, same output
        np.random.seed(s)
        st2, o2 = guarded(f, args, kw, tmo)
        if st2 != 'ok' or freeze(o2) != f1:
            violation('seed: repeated call after np.random.seed differs', f'{label} seed={s}')
            continue
        # other history, then the same seed
        if hist:
            history(si_)
            if freeze_gv() != g0:   # history itself is pure by the other checks; be safe
                violation('pure: gv modified', 'history()')
            np.random.seed(s)
            st3, o3 = guarded(f, args, kw, tmo)
            if st3 != 'ok' or freeze(o3) != f1:
                violation('history: output depends on what was called before', f'{label} seed={s}')
                continue
        if deterministic:
            if first is None:
                first = f1
                # no reseeding at all: a deterministic block does not look at the random state
                st4, o4 = guarded(f, args, kw, tmo)
                if st4 != 'ok' or freeze(o4) != f1:
                    violation('deterministic: output depends on the random state', label)
            elif f1 != first:
                violation('deterministic: output depends on the seed', f'{label} seed={s}')
        # writing into the output must not reach the inputs
        for oa in arrays_of(o1):
            if oa.flags.writeable and oa.size:
                try:
                    oa[...] = 0
                except Exception:
                    pass
        if freeze((args, kw)) != a0:
            violation('alias: writing the output changed an input', label)
            return


DEADLINE = [None]            # deadline of the running section (every gv configuration gets its share of the budget)


def out_of_time():
    now = time.time()
    return now - T_START > BUDGET or (DEADLINE[0] is not None and now > DEADLINE[0])


# ---------------------------------------------------------------------------------------
# clause group A: the global grid
# ---------------------------------------------------------------------------------------
DEFAULTS = dict(sps=16, R=1e9, fs=16e9, dt=1 / 16e9, wavelength=1550e-9, f0=C_LIGHT / 1550e-9, N=None, t=None, dw=None, w=None)
OWN = set(DEFAULTS)


def close(a, b, rel=4e-16):
    return abs(a - b) <= rel * max(abs(a), abs(b))


def check_grid(tag, model):
    """model: dict with the values that must be in force (sps, R or fs as far as known, wavelength, N, customs)"""
    v = vars(gv)
    if not isinstance(gv.sps, (int, np.integer)) or isinstance(gv.sps, bool):
        violation('grid: sps is not an integer', f'{tag}: sps={gv.sps!r}')
    if model.get('sps') is not None and gv.sps != model['sps']:
        violation('grid: sps is not the value in force', f'{tag}: sps={gv.sps} expected {model["sps"]}')
    if model.get('R') is not None and not close(gv.R, model['R']):
        violation('grid: R is not the value in force', f'{tag}: R={gv.R!r} expected {model["R"]!r}')
    if model.get('fs') is not None and not close(gv.fs, model['fs']):
        violation('grid: fs is not the value in force', f'{tag}: fs={gv.fs!r} expected {model["fs"]!r}')
    if not close(gv.fs, gv.R * gv.sps):
        violation('grid: fs != R*sps', f'{tag}: fs={gv.fs!r} R={gv.R!r} sps={gv.sps}')
    if gv.dt != 1 / gv.fs:
        violation('grid: dt != 1/fs', f'{tag}: dt={gv.dt!r} fs={gv.fs!r}')
    if gv.wavelength != model['wavelength']:
        violation('grid: wavelength is not the value in force', f'{tag}: {gv.wavelength!r} expected {model["wavelength"]!r}')
    if gv.f0 != C_LIGHT / gv.wavelength:
        violation('grid: f0 != c/wavelength', f'{tag}: f0={gv.f0!r} wavelength={gv.wavelength!r}')
    if gv.N != model['N']:
        violation('grid: N is not the value in force', f'{tag}: N={gv.N!r} expected {model["N"]!r}')
    if gv.N is None:
        if not (gv.t is None and gv.w is None and gv.dw is None):
            violation('grid: t/w/dw set without a slot count', tag)
    else:
        n = gv.N * gv.sps
        if not isinstance(gv.t, np.ndarray) or gv.t.shape != (n,):
            violation('grid: t does not have N*sps points', f'{tag}: shape {getattr(gv.t, "shape", None)} expected {n}')
        elif n:
            # the library's own convention (tests/typing_test.py): linspace(0, N*sps*dt, N*sps, endpoint=True) on the CURRENT dt
            if gv.t[0] != 0 or not close(gv.t[-1], n * gv.dt if n > 1 else 0.0, 1e-14) or (n > 2 and not np.allclose(np.diff(gv.t), gv.t[1] - gv.t[0], rtol=1e-9, atol=0)):
                violation('grid: t is not on the current fs', f'{tag}: t[-1]={gv.t[-1]!r} N*sps*dt={n * gv.dt!r}')
        if not isinstance(gv.w, np.ndarray) or gv.w.shape != (n,):
            violation('grid: w does not have N*sps points', f'{tag}: shape {getattr(gv.w, "shape", None)} expected {n}')
        elif n:
            ref = 2 * pi * fftshift(fftfreq(n)) * gv.fs
            if not np.allclose(gv.w, ref, rtol=1e-14, atol=0):
                violation('grid: w is not on the current fs', tag)
        if n and not close(gv.dw, 2 * pi * gv.fs / n):
            violation('grid: dw != 2*pi*fs/(N*sps)', f'{tag}: dw={gv.dw!r}')
        if n > 1 and isinstance(gv.w, np.ndarray) and gv.w.shape == (n,) and not np.allclose(np.diff(gv.w), gv.dw, rtol=1e-9, atol=0):
            violation('grid: w spacing != dw', tag)
    customs = {k: o for k, o in v.items() if k not in OWN}
    if set(customs) != set(model['custom']):
        violation('grid: custom attributes do not persist / leak', f'{tag}: have {sorted(customs)} expected {sorted(model["custom"])}')
    else:
        for k, o in model['custom'].items():
            if customs[k] is not o:
                violation('grid: custom attribute value changed', f'{tag}: {k}')


def check_defaults(tag):
    v = vars(gv)
    if set(v) != OWN:
        violation('grid: clean() leaves/loses attributes', f'{tag}: {sorted(set(v) ^ OWN)}')
    for k, d in DEFAULTS.items():
        if k in v and not (v[k] is None and d is None) and not (v[k] == d and type(v[k]) == type(d)):
            violation('grid: clean() does not restore a default', f'{tag}: {k}={v[k]!r} expected {d!r}')


def apply_model(model, kw):
    """documented rules of gv(...) -> the values that must be in force afterwards"""
    sps, R, fs = kw.get('sps'), kw.get('R'), kw.get('fs')
    m = dict(model)
    m['custom'] = dict(model['custom'])
    if sps is not None:
        m['sps'] = int(round(sps))
        if R is not None:
            m['R'] = R; m['fs'] = R * m['sps']
        elif fs is not None:
            m['fs'] = fs; m['R'] = fs / m['sps']
        else:
            m['fs'] = m['R'] * m['sps']
    elif R is not None:
        m['R'] = R
        if fs is not None:
            m['fs'] = fs; m['sps'] = int(round(fs / R))
        else:
            m['fs'] = R * m['sps']
    elif fs is not None:
        m['fs'] = fs; m['sps'] = int(round(fs / m['R']))
    m['wavelength'] = kw.get('wavelength', 1550e-9)     # documented: "Default is 1550e-9" on every call
    if kw.get('N') is not None:
        m['N'] = kw['N']
    for k, o in kw.items():
        if k not in ('sps', 'R', 'fs', 'wavelength', 'N'):
            m['custom'][k] = o
    return m


def fresh_model():
    return dict(sps=16, R=1e9, fs=16e9, wavelength=1550e-9, N=None, custom={})


def run_gv_sequence(seq, tag):
    gv.clean()
    check_defaults(tag + ' start')
    model = fresh_model()
    for i, step in enumerate(seq):
        if callable(step):
            step = step()
        t = f'{tag} step {i}: {step!r}'
        if step == 'clean':
            gv.clean()
            check_defaults(t)
            model = fresh_model()
            continue
        try:
            r = gv(**step)
        except Exception as e:
            violation('grid: gv(...) raises inside the domain', f'{t}: {type(e).__name__}: {e}')
            gv.clean()
            return
        if r is not gv:
            violation('grid: gv(...) does not return gv', t)
        model = apply_model(model, step)
        check_grid(t, model)
        if i == 0:
            g = freeze_gv()
            with contextlib.redirect_stdout(io.StringIO()):
                str(gv); gv.print()
            if freeze_gv() != g:
                violation('grid: printing gv changes it', t)
    gv.clean()
    check_defaults(tag + ' end')


def rate_steps(rng=None):
    """all subsets of {sps, R, fs} with commensurate values, python and numpy scalars, int and float"""
    out = []
    spss = [1, 2, 3, 5, 7, 8, 16, 17, 64, 8.0, np.int64(4), np.int32(6), np.float64(32)]
    Rs = [1e9, 10e9, 2.5e9, 1.25e9, 155.52e6, 10, 1, 10 ** 9, np.float64(40e9), 1e12 / 3]
    for sps in spss:
        out.append(dict(sps=sps))
        for R in Rs:
            out.append(dict(sps=sps, R=R))
            out.append(dict(sps=sps, fs=R * int(sps)))
            out.append(dict(R=R, fs=R * int(sps)))
            out.append(dict(sps=sps, R=R, fs=R * int(sps)))
    for R in Rs:
        out.append(dict(R=R))
    return out


def audit_grid():
    steps = rate_steps()
    custom_vals = [0, None, 'x', 3.5, np.arange(3), len, int, electrical_signal([1, 2]), lambda: 1, [], {}, False]
    # 1. every single step from the defaults, with and without N / wavelength / custom
    for st in steps:
        for N in (None, 1, 2, 3, 7, 10, np.int64(5)):
            for wl in (None, 1310e-9, 1550e-9, 850e-9):
                kw = dict(st)
                if N is not None:
                    kw['N'] = N
                if wl is not None:
                    kw['wavelength'] = wl
                run_gv_sequence([kw], 'single')
        if out_of_time():
            return
    # only fs: commensurate with the R in force
    for R in (1e9, 10e9, 2.5e9):
        for sps in (1, 2, 3, 8, 17, 128):
            run_gv_sequence([dict(R=R, sps=4, N=3), dict(fs=R * sps)], 'fs-only')
            run_gv_sequence([dict(R=R, sps=4), dict(fs=R * sps, N=2), dict(fs=R * 2 * sps), dict()], 'fs-only')
    run_gv_sequence([dict(fs=32e9)], 'fs-only-default-R')
    run_gv_sequence([dict(fs=1e9, N=1)], 'fs-only-default-R')     # sps = 1, one sample
    run_gv_sequence([dict(sps=1, R=1e9, N=1)], 'one sample')
    run_gv_sequence([dict(sps=1, R=1e9, N=2)], 'two samples')
    # 2. N first, then every later call omitting N; customs persist; clean in between
    for a, b in itertools.product(steps[::7], steps[::11]):
        k1 = dict(a); k1['N'] = 4; k1['alpha'] = custom_vals[4]
        k2 = dict(b); k2['beta'] = custom_vals[7]
        run_gv_sequence([k1, k2, dict(), dict(gamma=None), 'clean', k2, dict(N=3), k1], 'pair')
        if out_of_time():
            return
    # 3. custom keywords of every kind
    for i, val in enumerate(custom_vals):
        run_gv_sequence([dict(sps=8, R=1e9, N=2, **{f'c{i}': val}), dict(sps=4), dict(**{f'd{i}': val}), 'clean', dict(x=val), 'clean', 'clean'], 'custom')
    # 4. random long sequences
    rng = np.random.RandomState(2024)
    for it in range(400):
        seq = []
        for _ in range(rng.randint(1, 9)):
            r = rng.rand()
            if r < 0.15:
                seq.append('clean')
                continue
            kw = dict(steps[rng.randint(len(steps))]) if rng.rand() < 0.85 else {}
            if rng.rand() < 0.15:       # only fs, commensurate with the R in force at that moment
                kk = int(rng.choice([1, 2, 3, 4, 7, 16, 33]))
                extra_kw = {k_: v_ for k_, v_ in kw.items() if k_ not in ('sps', 'R', 'fs')}
                if rng.rand() < 0.35:
                    extra_kw['N'] = int(rng.choice([1, 2, 3, 8]))
                seq.append(lambda kk=kk, e=extra_kw: dict(fs=gv.R * kk, **e))
                continue
            if rng.rand() < 0.35:
                kw['N'] = int(rng.choice([1, 2, 3, 4, 5, 8, 9, 16, 31]))
            if rng.rand() < 0.3:
                kw['wavelength'] = float(rng.choice([1310e-9, 1550e-9, 1064e-9]))
            if rng.rand() < 0.4:
                kw[f'k{rng.randint(4)}'] = custom_vals[rng.randint(len(custom_vals))]
            seq.append(kw)
        run_gv_sequence(seq, f'random#{it}')
        if out_of_time():
            return
    gv.clean()


# ---------------------------------------------------------------------------------------
# clause group B: purity of every public function
# ---------------------------------------------------------------------------------------
def bits_variants(b):
    b = np.asarray(b, dtype=int)
    s = ' '.join(map(str, b))
    return [('str', s), ('strc', ','.join(map(str, b))), ('list', b.tolist()), ('tuple', tuple(b.tolist())),
            ('nd', b.copy()), ('ndbool', b.astype(bool)), ('ndu8', b.astype(np.uint8)), ('ndf', b.astype(float)), ('bits', binary_sequence(b))]


def bit_patterns(n):
    pats = {'zeros': np.zeros(n, int), 'ones': np.ones(n, int)}
    if n >= 2:
        a = np.zeros(n, int); a[n // 2] = 1; pats['single1'] = a
        a = np.ones(n, int); a[n // 2] = 0; pats['single0'] = a
        pats['alt'] = np.arange(n) % 2
        pats['0011'] = (np.arange(n) // 2) % 2
    r = np.random.RandomState(n)
    pats['rand'] = r.randint(0, 2, n)
    return pats


def el_variants(x, rs):
    """electrical inputs built on the waveform x (1-D real)"""
    n = len(x)
    out = [('el', electrical_signal(x.copy())),
           ('el+n', electrical_signal(x.copy(), 0.05 * rs.randn(n))),
           ('el+0n', electrical_signal(x.copy(), np.zeros(n)))]
    return out


def opt_variants(n, rs, kinds=('1', '1n', '2', '2n')):
    out = []
    base = np.exp(1j * rs.rand(n)) * (0.5 + rs.rand(n)) * 1e-2
    if '1' in kinds:
        out.append(('opt1', optical_signal(base.copy())))
    if '1n' in kinds:
        out.append(('opt1n', optical_signal(base.copy(), 1e-4 * (rs.randn(n) + 1j * rs.randn(n)))))
    if '2' in kinds:
        out.append(('opt2', optical_signal(np.array([base, base[::-1] * 0.5]))))
    if '2n' in kinds:
        out.append(('opt2n', optical_signal(np.array([base, base[::-1] * 0.5]), 1e-4 * (rs.randn(2, n) + 1j * rs.randn(2, n)))))
    if 'r' in kinds:
        out.append(('opt1real', optical_signal(np.abs(base))))
        out.append(('opt1int', optical_signal(np.arange(n) % 3)))
    return out


GV_CONFIGS = [dict(sps=16, R=1e9), dict(sps=8, R=10e9), dict(sps=4, R=1e9), dict(sps=5, R=1e9), dict(sps=2, R=1e9),
              dict(sps=1, R=1e9), dict(sps=17, R=2.5e9), dict(sps=3, R=1e9, N=4), dict(sps=32, R=1e9, N=2, wavelength=1310e-9, Vpi=5.0)]


def audit_sources():
    for order in (7, 9, 11, 15, 20, 23, 31):
        for ln in (1, 2, 3, order, order + 1, 127, 128, 129):
            for seed in (None, 0, 1, 2 ** order, 2 ** order - 1, 124, 2 ** order + 5):
                check_call('PRBS', dv.PRBS, (order, ln), dict(seed=seed), deterministic=True, seeds=(0,))
                check_call('PRBS', dv.PRBS, (order,), dict(len=ln, seed=seed, return_seed=True), deterministic=True, seeds=(0,), hist=False)
    check_call('PRBS', dv.PRBS, (7,), {}, deterministic=True, seeds=(0, 3))
    check_call('PRBS', dv.PRBS, (9,), {}, deterministic=True, seeds=(0,))
    # DAC
    for n in (1, 2, 3, 4, 9):
        for pname, pat in bit_patterns(n).items():
            for vname, v in bits_variants(pat)[:: (1 if n <= 2 else 4)]:
                for shape in ('nrz', 'rect', 'NRZ', 'rz', 'RZ', 'gaussian', 'GAUSSIAN'):
                    kws = [dict(pulse_shape=shape)]
                    if shape.lower() == 'gaussian':
                        kws += [dict(pulse_shape=shape, m=2, c=1.0), dict(pulse_shape=shape, T=1), dict(pulse_shape=shape, T=2 * gv.sps), dict(pulse_shape=shape, T=max(1, gv.sps // 2), m=3)]
                    if shape == 'nrz':
                        kws += [dict(pulse_shape=shape, Vout=-2, bias=0.5), dict(pulse_shape=shape, Vout=None, bias=None), dict(pulse_shape=shape, BW=gv.fs / 4), dict(pulse_shape=shape, Vout=47.9, bias=-47.9)]
                    for kw in kws:
                        check_call('DAC', dv.DAC, (v,), kw, deterministic=True, seeds=(0,), hist=(vname == 'bits'))
        if out_of_time():
            return
    # LASER
    for n in (1, 2, 3, 16, 17, 64):
        for t in (np.arange(n) * gv.dt, np.arange(n), np.linspace(0, n * gv.dt, n)):
            for kw in (dict(), dict(lw=1e6), dict(rin=-140), dict(df=1e9), dict(lw=10e6, rin=-150, df=-gv.fs / 2), dict(lw=0.0), dict(df=0.0), dict(df=gv.fs / 2)):
                det = not ('lw' in kw or 'rin' in kw)
                for p in (0, -30, 30.0):
                    check_call('LASER', dv.LASER, (t, p), kw, deterministic=det, seeds=(0, 5))
    if gv.N is not None:
        check_call('LASER', dv.LASER, (gv.t, 0), dict(lw=1e6, rin=-140, df=1e8), seeds=(0, 5))


def drives(n, rs):
    x = rs.randn(n) * 2
    return [('float', 2.5), ('int', 2), ('zero', 0), ('npf', np.float64(1.5)), ('npi', np.int64(3)), ('nd', x.copy()), ('ndint', np.arange(n) % 4),
            ('el', electrical_signal(x.copy())), ('el+n', electrical_signal(x.copy(), rs.randn(n) * 0.1))]


def audit_optical(sizes):
    rs = np.random.RandomState(5)
    for n in sizes:
        for oname, o in opt_variants(n, rs, kinds=('1', '1n', '2', '2n', 'r')):
            # modulators
            for dname, d in drives(n, rs):
                if n == 1 and dname in ('nd', 'ndint', 'el', 'el+n'):
                    continue        # known: length-1 drive arrays
                check_call('PM', dv.PM, (o, d), {}, deterministic=True, seeds=(0,))
                check_call('PM', dv.PM, (o, d), dict(Vpi=2.0), deterministic=True, seeds=(0,), hist=False)
                for kw in (dict(), dict(bias=2.5, Vpi=5.0, loss_dB=0.0, ER_dB=np.inf), dict(pol='y', loss_dB=3.0, ER_dB=0.0), dict(BW=gv.fs / 4), dict(ER_dB=26, pol='y', BW=gv.fs / 8, bias=-1)):
                    check_call('MZM', dv.MZM, (o, d), kw, deterministic=True, seeds=(0,), hist=('BW' in kw))
            if n > 1:
                mz_list = (np.arange(n) % 2 * 5.0).tolist()
                check_call('MZM', dv.MZM, (o, mz_list), {}, deterministic=True, seeds=(0,), hist=False)
                check_call('MZM', dv.MZM, (o, tuple(mz_list)), {}, deterministic=True, seeds=(0,), hist=False)
            # filters / amplifier / dispersion
            for BW in (gv.fs / 4, gv.fs / 2 * 0.999, gv.R):
                for order in (1, 4, 8):
                    if BW / 2 < gv.fs / 2:
                        check_call('BPF', dv.BPF, (o, BW), dict(n=order), deterministic=True, seeds=(0,), hist=(order == 4))
            for G, NF in ((0, 0), (0.0, 5.0), (20, 5), (30.5, 3), (-3, 4)):
                check_call('EDFA', dv.EDFA, (o, G, NF), {}, seeds=(0, 9))
                check_call('EDFA', dv.EDFA, (o, G, NF), dict(BW=gv.fs / 4), seeds=(0,), hist=False)
            for D in (0, 0.0, 17.0, -100, np.float64(50.0), np.array(17.0), np.array([17.0])):
                check_call('DM', dv.DM, (o, D), {}, deterministic=True, seeds=(0,))
                check_call('DM', dv.DM, (o, D), dict(retH=True), deterministic=True, seeds=(0,), hist=False)
            # photodetector
            if n >= 2:
                for mode in ('all', 'ALL', 'ase-only', 'Thermal-Only', 'shot-only', 'ase-shot', 'ase-thermal', 'THERMAL-shot'):
                    det = mode.lower() == 'ase-only'
                    for kw in (dict(), dict(r=0.5, T=0, R_load=1e3, i_dark=0.0, Fn=3)):
                        check_call('PD', dv.PD, (o, gv.fs / 4), dict(include_noise=mode, **kw), deterministic=det, seeds=(0, 3), hist=(mode == 'all'))
            # signal methods
            for meth, a, k in (('__getitem__', (slice(None),), {}), ('__getitem__', (0,), {}), ('__getitem__', (-1,), {}), ('__getitem__', (np.int64(0),), {}),
                               ('__getitem__', (slice(0, n, 2),), {}), ('__getitem__', (slice(None, None, -1),), {}), ('__getitem__', (slice(n - 1, n),), {}),
                               ('__call__', ('w',), {}), ('__call__', ('f',), dict(shift=True)), ('__call__', ('t',), {}), ('__call__', ('t',), dict(shift=True)),
                               ('abs', (), {}), ('abs', ('signal',), {}), ('abs', ('noise',), {}), ('abs', ('ALL',), {}),
                               ('power', (), {}), ('power', ('signal',), {}), ('power', ('noise',), {}),
                               ('phase', (), {}), ('copy', (), {}), ('copy', (1,), {}), ('t', (), {}), ('w', (), {}), ('w', (True,), {}),
                               ('apply', (np.conj,), {}), ('apply', (np.abs,), {}), ('apply', (np.multiply, 2), {}), ('len', (), {}), ('fs', (), {}), ('sps', (), {}), ('dt', (), {})):
                check_call(f'optical_signal.{meth}', getattr(type(o), meth), (o,) + a, k, deterministic=True, seeds=(0,), hist=False)
            for other in (2, 1j, np.float64(3), o, np.ones(n), (np.ones(n) * 2).tolist(), optical_signal(np.ones(1), np.ones(1) * 0.5)):
                if isinstance(other, (np.ndarray, list)) and o.n_pol == 2:
                    other = np.array([other, other])
                for op in ('__add__', '__radd__', '__sub__', '__rsub__', '__mul__', '__rmul__'):
                    check_call(f'optical_signal.{op}', getattr(type(o), op), (o, other), {}, deterministic=True, seeds=(0,), hist=False)
        if out_of_time():
            return


def audit_fiber():
    rs = np.random.RandomState(11)
    for n in (1, 2, 3, 16, 17):
        for oname, o in opt_variants(n, rs, kinds=('1', '1n', '2', '2n')):
            for kw in (dict(length=1.0), dict(length=10, alpha=0.2), dict(length=5.0, beta_2=-20.0), dict(length=5.0, beta_2=-20.0, beta_3=0.1, alpha=0.2),
                       dict(length=2.0, gamma=1.5), dict(length=2.0, alpha=0.2, gamma=1.5), dict(length=2.0, alpha=0.2, beta_2=-20, gamma=1.5),
                       dict(length=np.float64(3.0), alpha=np.float64(0.2), beta_2=np.float64(-20), gamma=np.float64(2.0)),
                       dict(length=np.array(3.0), alpha=np.array(0.2), beta_2=np.array(-20.0), gamma=np.array(2.0)),
                       dict(length=np.array(1e-3), alpha=np.array(0.0), beta_2=np.array(-20.0), gamma=np.array(2.0)),
                       dict(length=1.0, beta_2=-20, gamma=1.5, phi_max=0.5)):
                check_call('FIBER', dv.FIBER, (o,), kw, deterministic=True, seeds=(0,), tmo=10, hist=(n == 16))
        if out_of_time():
            return


def audit_fbg():
    rs = np.random.RandomState(13)
    for n in (2, 3, 16, 33):
        for oname, o in opt_variants(n, rs, kinds=('1', '2n')):
            for kw in (dict(fc=gv.f0, vdneff=1e-4, kL=2), dict(fc=gv.f0, dneff=1e-4, L=2e-3, apodization='gaussian'), dict(landa_D=gv.wavelength, kL=1.0, N=2000, apodization='rcos', retH=True),
                       dict(fc=gv.f0, vdneff=1e-4, kL=2, F=3.0, filtfilt=False, apodization='parabolic'), dict(fc=gv.f0, vdneff=1e-4, kL=2, apodization=lambda z: np.cos(np.pi * z) ** 2)):
                kw = dict(kw, print_params=False)
                check_call('FBG', dv.FBG, (o,), kw, deterministic=True, seeds=(0,), tmo=60, hist=(n == 16))
        if out_of_time():
            return


def waveforms(nslots, rs):
    """electrical records of nslots slots on the current sps (+ a few samples), with extreme composition"""
    sps = gv.sps
    out = []
    for pname, pat in bit_patterns(nslots).items():
        x = np.kron(pat, np.ones(sps)).astype(float)
        out.append((pname, x))
        out.append((pname + '+noise', x + 0.02 * rs.randn(x.size)))
    return out


def audit_electrical(slot_counts, extra=(0, 1)):
    rs = np.random.RandomState(17)
    sps = gv.sps
    for ns in slot_counts:
        for wname, x0 in waveforms(ns, rs):
            for ex in extra:
                x = np.concatenate([x0, x0[:ex]]) if ex else x0
                n = x.size
                evs = el_variants(x, rs) + [('nd', x.copy()), ('ndint', np.round(x).astype(int)), ('ndu8', np.round(np.abs(x)).astype(np.uint8))]
                for ename, e_ in evs:
                    is_el = isinstance(e_, electrical_signal)
                    # LPF
                    if n >= 2:
                        for BW in (gv.R * 0.75, gv.fs / 2 * 0.999):
                            for order in (1, 4, 8):
                                check_call('LPF', dv.LPF, (e_, BW), dict(n=order), deterministic=True, seeds=(0,), hist=(order == 4 and ex == 0))
                        check_call('LPF', dv.LPF, (e_, 1e9), dict(fs=8e9, retH=True), deterministic=True, seeds=(0,), hist=False)
                    # ADC
                    for kw in (dict(), dict(n=1), dict(n=2, otype='n'), dict(n=16, otype='v')) + ((dict(fs=gv.fs / 2), dict(fs=gv.fs * 2, n=4)) if is_el else ()):
                        check_call('ADC', dv.ADC, (e_,), kw, deterministic=True, seeds=(0,), hist=('fs' in kw))
                    # SAMPLER
                    if is_el:
                        for inst in (0, sps // 2, sps - 1, np.int64(0)):
                            check_call('SAMPLER', dv.SAMPLER, (e_, inst), {}, deterministic=True, seeds=(0,), hist=False)
                    # GET_EYE and the packaged receivers
                    if ns >= 2 and ename in ('el', 'el+n', 'nd'):
                        for kw in (dict(), dict(nslots=ns - 1), dict(nslots=3, sps_resamp=sps + 1)):
                            check_call('GET_EYE', dv.GET_EYE, (e_,), kw, seeds=(0, 1) if kw == {} else (1,), hist=(kw == {}))
                        if is_el:
                            check_call('ook.DSP', ook.DSP, (e_,), {}, seeds=(0,), hist=True)
                            check_call('ook.DSP', ook.DSP, (e_,), dict(BW=gv.R * 0.75), seeds=(0,), hist=False)
                    # ppm receivers
                    for M in (2, 4, 8):
                        if ns % M == 0 and ex == 0:
                            check_call('ppm.SDD', ppm.SDD, (e_, M), {}, deterministic=True, seeds=(0,), hist=False)
                            check_call('ppm.DSP', ppm.DSP, (e_, M), dict(decision='soft'), deterministic=True, seeds=(0,))
                            check_call('ppm.DSP', ppm.DSP, (e_, M), dict(decision='SOFT'), deterministic=True, seeds=(0,), hist=False)
                            check_call('ppm.DSP', ppm.DSP, (e_, M), dict(decision='hard', threshold=0.5), seeds=(0, 2))
                            if ns >= 2:
                                check_call('ppm.DSP', ppm.DSP, (e_, M), dict(decision='Hard'), seeds=(0, 2))
                    # SYNC
                    if lab is not None and ns >= 2:
                        tx = np.round(np.abs(x0[::sps])).astype(int)[: max(1, ns // 2)]
                        for txv in (tx.copy(), binary_sequence(tx)):
                            check_call('SYNC', lab.SYNC, (e_, txv), {} if is_el else dict(sps=sps), deterministic=True, seeds=(0,), hist=False)
                        if ns % 2 == 0 and ex == 0:
                            txs = np.round(np.abs(x0[::sps])).astype(int)
                            if 0 < txs.sum() < txs.size:
                                check_call('GET_EYE_v2', lab.GET_EYE_v2, (e_, txs), {}, deterministic=True, seeds=(0,), hist=False)
                                check_call('GET_EYE_v2', lab.GET_EYE_v2, (e_, binary_sequence(txs)), dict(nslots=ns), deterministic=True, seeds=(0,), hist=False)
                    # signal methods / operators
                    if is_el:
                        o = e_
                        for meth, a, k in (('__getitem__', (slice(None),), {}), ('__getitem__', (0,), {}), ('__getitem__', (-1,), {}), ('__getitem__', (slice(0, n, sps),), {}),
                                           ('__getitem__', (slice(None, None, -1),), {}), ('__call__', ('w',), {}), ('__call__', ('t',), dict(shift=True)),
                                           ('abs', (), {}), ('abs', ('noise',), {}), ('power', (), {}), ('phase', (), {}), ('copy', (), {}), ('copy', (1,), {}),
                                           ('t', (), {}), ('w', (True,), {}), ('apply', (np.abs,), {}), ('apply', (np.clip, 0, 0.5), {}),
                                           ('__gt__', (0.5,), {}), ('__lt__', (0.5,), {}), ('__gt__', (o,), {}), ('__lt__', (x.copy(),), {})):
                            check_call(f'electrical_signal.{meth}', getattr(electrical_signal, meth), (o,) + a, k, deterministic=True, seeds=(0,), hist=False)
                        for other in (2, o, x.copy(), x.tolist(), electrical_signal(1.0, 0.5)):
                            for op in ('__add__', '__radd__', '__sub__', '__rsub__', '__mul__', '__rmul__'):
                                check_call(f'electrical_signal.{op}', getattr(electrical_signal, op), (o, other), {}, deterministic=True, seeds=(0,), hist=False)
            if out_of_time():
                return


def audit_codecs():
    rs = np.random.RandomState(23)
    for M in (2, 4, 8, 16, 256):
        k = int(np.log2(M))
        for nb in (1, k - 1, k, k + 1, 2 * k, 3 * k + 1, 7 * k):
            if nb < 1:
                continue
            for pname, pat in bit_patterns(nb).items():
                for vname, v in bits_variants(pat):
                    check_call('PPM_ENCODER', ppm.PPM_ENCODER, (v, M), {}, deterministic=True, seeds=(0,), hist=(vname == 'bits'))
        for nsym in (1, 2, 3, 5):
            # valid PPM, and corrupted PPM (symbols with no / several ON slots)
            sym = rs.randint(0, M, nsym)
            good = np.zeros(nsym * M, int); good[np.arange(nsym) * M + sym] = 1
            cases = {'good': good, 'zeros': np.zeros(nsym * M, int), 'ones': np.ones(nsym * M, int), 'rand': rs.randint(0, 2, nsym * M)}
            for cname, arr in cases.items():
                for vname, v in bits_variants(arr):
                    det = cname == 'good'
                    check_call('HDD', ppm.HDD, (v, M), {}, deterministic=det, seeds=(0, 1, 2 ** 32 - 1), hist=(vname in ('bits', 'nd')))
                    if cname == 'good':
                        check_call('PPM_DECODER', ppm.PPM_DECODER, (v, M), {}, deterministic=True, seeds=(0,), hist=(vname == 'bits'))
        if out_of_time():
            return
    # binary_sequence operators
    for n in (1, 2, 5):
        for pname, pat in bit_patterns(n).items():
            b = binary_sequence(pat)
            for vname, v in bits_variants(pat[::-1]):
                for op in ('__add__', '__radd__', '__eq__'):
                    check_call(f'binary_sequence.{op}', getattr(binary_sequence, op), (b, v), {}, deterministic=True, seeds=(0,), hist=False)
            for meth, a in (('__invert__', ()), ('__getitem__', (0,)), ('__getitem__', (slice(None),)), ('__getitem__', (slice(None, None, -1),)), ('ones', ()), ('zeros', ()), ('len', ())):
                check_call(f'binary_sequence.{meth}', getattr(binary_sequence, meth), (b,) + a, {}, deterministic=True, seeds=(0,), hist=False)
            # numpy on the left
            check_call('ndarray+binary_sequence', lambda a_, b_: a_ + b_, (pat.copy(), b), {}, deterministic=True, seeds=(0,), hist=False)


def audit_estimators():
    # eye-based estimators and the closed forms: pure functions of their arguments
    eyes = []
    for mu0, mu1, s0, s1 in ((0.0, 1.0, 0.1, 0.1), (0.1, 1.0, 0.05, 0.2), (0.0, 1.0, 0.0, 0.0), (0.0, 1.0, 1e-9, 0.1), (0.2, 0.2001, 0.1, 0.1), (1.0, 2.0, 0.3, 0.3)):
        eyes.append(eye_cls(mu0=mu0, mu1=mu1, s0=s0, s1=s1, threshold=None, execution_time=0))
    for ey in eyes:
        check_call('ook.THRESHOLD_EST', ook.THRESHOLD_EST, (ey,), {}, deterministic=True, seeds=(0,), hist=False)
        check_call('ook.BER_analizer', ook.BER_analizer, ('estimator',), dict(eye_obj=ey), deterministic=True, seeds=(0,), hist=False)
        for M in (2, 4, 256):
            check_call('ppm.THRESHOLD_EST', ppm.THRESHOLD_EST, (ey, M), {}, deterministic=True, seeds=(0,), hist=False)
            for dec in ('hard', 'soft', 'Hard', 'SOFT'):
                check_call('ppm.BER_analizer', ppm.BER_analizer, ('estimator',), dict(eye_obj=ey, M=M, decision=dec), deterministic=True, seeds=(0,), hist=False)
    for n in (1, 2, 7):
        for pname, pat in bit_patterns(n).items():
            for (va, a), (vb, b) in itertools.product(bits_variants(pat)[::2], bits_variants(pat[::-1])[1::2]):
                check_call('ook.BER_analizer', ook.BER_analizer, ('counter',), dict(Tx=a, Rx=b), deterministic=True, seeds=(0,), hist=False)
                check_call('ppm.BER_analizer', ppm.BER_analizer, ('counter',), dict(Tx=a, Rx=b), deterministic=True, seeds=(0,), hist=False)
                check_call('ppm.BER_analizer', ppm.BER_analizer, ('COUNTER',), dict(Tx=a, Rx=b), deterministic=True, seeds=(0,), hist=False)
    arrs = [np.array([0.5, 1.0, 2.0]), np.array([1.0]), np.linspace(0.1, 1, 4)]
    for a in arrs:
        check_call('ook.theory_BER', ook.theory_BER, (a, a * 0.1, a * 0.2), {}, deterministic=True, seeds=(0,), hist=False)
        check_call('ook.theory_BER', ook.theory_BER, (1.0, a * 0.1, 0.2), {}, deterministic=True, seeds=(0,), hist=False)
        for M in (2, 4, 256):
            for dec in ('soft', 'hard'):
                check_call('ppm.theory_BER', ppm.theory_BER, (a, a * 0.1, a * 0.2, M), dict(decision=dec), deterministic=True, seeds=(0,), hist=False)
    # utils
    P = np.array([-30.0, -25.0, -20.0])
    for mod, M in (('ook', None), ('OOK', None), ('ppm', 2), ('ppm', 4), ('PPM', 256)):
        for amp in (dict(amplify=False), dict(amplify=True, G=20, NF=5, BW_opt=50e9), dict(amplify=True, G=0, NF=0, BW_opt=5e9)):
            for ER in (np.inf, 10, 0.0):
                check_call('utils.average_voltages', ut.average_voltages, (P, mod), dict(M=M, ER=ER, **amp), deterministic=True, seeds=(0,), hist=False)
                check_call('utils.noise_variances', ut.noise_variances, (P, mod), dict(M=M, ER=ER, T=0, **amp), deterministic=True, seeds=(0,), hist=False)
                check_call('utils.noise_variances', ut.noise_variances, (-20.0, mod), dict(M=M, ER=ER, **amp), deterministic=True, seeds=(0,), hist=False)
                if mod.lower() == 'ook':
                    check_call('utils.theory_BER', ut.theory_BER, (P, mod), dict(ER=ER, **amp), deterministic=True, seeds=(0,), hist=False)
                    check_call('utils.theory_BER', ut.theory_BER, (P, mod), dict(ER=ER, threshold=0.5, **amp), deterministic=True, seeds=(0,), hist=False)
                else:
                    for dec in ('hard', 'soft', 'HARD'):
                        check_call('utils.theory_BER', ut.theory_BER, (P, mod), dict(M=M, decision=dec, ER=ER, **amp), deterministic=True, seeds=(0,), hist=False)
        for S0, S1 in ((0.01, 0.01), (0.01, 0.04), (np.array([0.01, 0.02]), np.array([0.02, 0.02]))):
            check_call('utils.optimum_threshold', ut.optimum_threshold, (0.0, 1.0, S0, S1, mod), dict(M=M), deterministic=True, seeds=(0,), hist=False)
    x = np.array([0.5, 1.0, 2.0, 4.0])
    for name, f, args in (('db', ut.db, (x,)), ('db', ut.db, (x.tolist(),)), ('db', ut.db, (0,)), ('dbm', ut.dbm, (x,)), ('dbm', ut.dbm, (tuple(x),)), ('idb', ut.idb, (x,)), ('idbm', ut.idbm, (x,)),
                          ('idb', ut.idb, (np.array(3.0),)), ('gaus', ut.gaus, (x,)), ('gaus', ut.gaus, (x, 1.0, 2.0)), ('Q', ut.Q, (x,)), ('Q', ut.Q, (x.tolist(),)),
                          ('phase', ut.phase, (np.exp(1j * x),)), ('tau_g', ut.tau_g, (np.exp(1j * x), 1e9)), ('dispersion', ut.dispersion, (np.exp(1j * x ** 2), 1e9, 193e12)),
                          ('rcos', ut.rcos, (x, 0.5, 1.0)), ('rcos', ut.rcos, (np.arange(4), 1, 2)), ('rcos', ut.rcos, (x.tolist(), 0, 1.0)), ('rcos', ut.rcos, (0.5, 0.5, 1.0)),
                          ('norm', ut.norm, (x,)), ('norm', ut.norm, (x.tolist(),)), ('nearest', ut.nearest, (x, 1.2)), ('nearest', ut.nearest, (x.tolist(), 4)),
                          ('shortest_int', ut.shortest_int, (x[::-1].copy(),)), ('shortest_int', ut.shortest_int, (x[::-1].copy(), 99.99)), ('shortest_int', ut.shortest_int, (np.array([3.0, 1.0]), 50)),
                          ('shortest_int', ut.shortest_int, (np.array([3.0]), 50)), ('shortest_int', ut.shortest_int, (np.array([2, 2, 1, 1, 5]), 1)),
                          ('dec2bin', ut.dec2bin, (5, 4)), ('dec2bin', ut.dec2bin, (np.int64(5), 4)), ('dec2bin', ut.dec2bin, (0, 1)), ('dec2bin', ut.dec2bin, (255,)),
                          ('str2array', ut.str2array, ('1 0 1',)), ('str2array', ut.str2array, ('1,2;3,4', float)), ('str2array', ut.str2array, ('1+2j, 3',)), ('si', ut.si, (1.5e9, 'Hz')),
                          ('p_ase', ut.p_ase, (), )):
        check_call(f'utils.{name}', f, args, {}, deterministic=True, seeds=(0,), hist=False)


def audit_orders():
    """for all orders in which the public functions are invoked on SHARED inputs: every result is the same, the inputs survive"""
    gv.clean(); gv(sps=8, R=1e9, N=16, Vpi=5.0)
    tx = dv.PRBS(7, 16)
    v = dv.DAC(tx, Vout=5.0)
    cw = optical_signal(np.ones(v.len()) * 0.03, 1e-4 * np.exp(1j * np.arange(v.len())))
    cw2 = optical_signal(np.ones((2, v.len())) * 0.03)
    rx = electrical_signal(np.kron(tx.data, np.ones(8)) * 1e-3 + 1e-4, 1e-5 * np.cos(np.arange(128) * 1.7))
    shared = dict(tx=tx, v=v, cw=cw, cw2=cw2, rx=rx)
    frozen = freeze(shared)
    g0 = freeze_gv()
    calls = [
        ('DAC', lambda: dv.DAC(tx, Vout=5.0, pulse_shape='gaussian')),
        ('PM', lambda: dv.PM(cw, v)),
        ('MZM', lambda: dv.MZM(cw, v, bias=2.5, BW=2e9)),
        ('MZM2', lambda: dv.MZM(cw2, v, pol='y')),
        ('EDFA', lambda: dv.EDFA(cw, 20, 5, BW=3e9)),
        ('EDFA2', lambda: dv.EDFA(cw2, 15, 4)),
        ('BPF', lambda: dv.BPF(cw, 3e9)),
        ('DM', lambda: dv.DM(cw, 100.0)),
        ('FIBER', lambda: dv.FIBER(cw, 5.0, 0.2, -20.0, 0.1, 1.5)),
        ('FIBER2', lambda: dv.FIBER(cw2, 5.0, 0.2, -20.0, 0.1, 1.5)),
        ('PD', lambda: dv.PD(cw, 3e9)),
        ('PD2', lambda: dv.PD(cw2, 3e9, include_noise='ase-only')),
        ('LPF', lambda: dv.LPF(rx, 0.75e9)),
        ('ADC', lambda: dv.ADC(rx, n=4)),
        ('GET_EYE', lambda: dv.GET_EYE(rx)),
        ('SAMPLER', lambda: dv.SAMPLER(rx, 4)),
        ('ook.DSP', lambda: ook.DSP(rx, BW=0.75e9)),
        ('ook.DSP0', lambda: ook.DSP(rx)),
        ('ppm.DSP', lambda: ppm.DSP(rx, 4)),
        ('ppm.DSPs', lambda: ppm.DSP(rx, 4, 'soft')),
        ('PPM_ENCODER', lambda: ppm.PPM_ENCODER(tx, 4)),
        ('HDD', lambda: ppm.HDD(tx, 4)),
        ('SDD', lambda: ppm.SDD(rx, 4)),
        ('FBG', lambda: dv.FBG(cw, fc=gv.f0, vdneff=1e-4, kL=2, print_params=False)),
        ('LASER', lambda: dv.LASER(gv.t, 0, lw=1e6, rin=-150, df=1e8)),
        ('ops', lambda: (rx + v[:128] * 1e-3, rx * 2, cw * cw, cw - 1, ~tx, tx + tx)),
    ]
    if lab is not None:
        calls.append(('SYNC', lambda: lab.SYNC(rx, tx[:8])))
        calls.append(('GET_EYE_v2', lambda: lab.GET_EYE_v2(rx, tx)))
    ref = {}
    rng = np.random.RandomState(99)
    for perm_i in range(6):
        order = list(range(len(calls))) if perm_i == 0 else (list(range(len(calls)))[::-1] if perm_i == 1 else list(rng.permutation(len(calls))))
        for j in order:
            name, f = calls[j]
            np.random.seed(31 + j)
            st, o = guarded(f, (), {}, 60)
            fo = (st, freeze(o) if st == 'ok' else o)
            if name in ref and ref[name] != fo:
                violation('order: result depends on the order of the calls', f'{name} in permutation {perm_i}')
            ref.setdefault(name, fo)
            if st == 'exc':
                EXC.setdefault(('order:' + name, o), [0, name])[0] += 1
            if freeze(shared) != frozen:
                violation('order: a shared input was modified', f'after {name} in permutation {perm_i}')
                return
            if freeze_gv() != g0:
                violation('order: gv was modified', f'after {name} in permutation {perm_i}')
                return
        if out_of_time():
            break
    gv.clean()


def audit_lab_instrument():
    if lab is None:
        return
    try:
        p = lab.PPG3204()
    except Exception:
        return
    data = np.array([1, 0, 1, 1, 0, 0, 1, 0])
    for name, f, args, kw in (('set_data', p.set_data, (data,), {}), ('set_data', p.set_data, (np.tile(data, (4, 1)),), dict(start_addrs=0)), ('set_data', p.set_data, (data.tolist(),), dict(CHs=[1, 2])),
                              ('set_patt_len', p.set_patt_len, (np.array([1, 5, 2 ** 22, 8]),), {}), ('set_output_voltage', p.set_output_voltage, (np.array([0.1, 1.0, 5.0, 2.0]),), {}),
                              ('set_offset', p.set_offset, (np.array([-5.0, 0.0, 5.0, 1.0]),), {}), ('set_skew', p.set_skew, (np.array([-1.0, 0.0, 1.0, 0.0]),), {}),
                              ('set_bits_shift', p.set_bits_shift, (np.array([0, 1, 2, 3]),), {}), ('set_prbs_order', p.set_prbs_order, (np.array([7, 8, 30, 31]),), {})):
        check_call(f'PPG3204.{name}', f, args, kw, deterministic=True, seeds=(0,), hist=False)


def main():
    audit_grid()
    print(f'# grid done, {time.time() - T_START:.0f}s', flush=True)
    audit_orders()
    print(f'# orders done, {time.time() - T_START:.0f}s', flush=True)
    weights = [5, 1.5, 2, 3, 1.5, 2, 1.5, 3, 2]
    for ci, cfg in enumerate(GV_CONFIGS):
        remaining = BUDGET - (time.time() - T_START)
        if remaining <= 0:
            print('# time budget used up: remaining sampled configurations skipped', flush=True)
            break
        DEADLINE[0] = time.time() + remaining * weights[ci] / sum(weights[ci:])
        gv.clean(); gv(**cfg); CURRENT_CFG[0] = cfg
        sps = gv.sps
        full = ci in (0, 3, 7)
        if ci == 0:
            audit_codecs(); audit_estimators(); audit_lab_instrument()
        if ci in (0, 3, 5, 7):
            audit_sources()
        if ci in (0, 3, 7):
            audit_fiber()
        if ci in (0, 7):
            audit_fbg()
        # the cheap half of every section first, so that a deadline cuts the sampled tail only
        audit_electrical(slot_counts=(1, 2, 3), extra=(0, 1) if full else (0,))
        audit_optical(sizes=(1, 2, 3, sps, 17, 2 * sps + 1) if full else (1, 2, 17))
        if full:
            audit_electrical(slot_counts=(4, 5, 8, 9), extra=(0, 1))
            audit_optical(sizes=(sps + 1, 2 * sps, 4 * sps))
        print(f'# config {cfg} done, {time.time() - T_START:.0f}s, {NCALL[0]} calls' + (' (cut by its deadline)' if out_of_time() else ''), flush=True)
    DEADLINE[0] = None
    CURRENT_CFG[0] = None
    gv.clean()
    print(f'# {NCALL[0]} library calls, {time.time() - T_START:.0f}s')
    if EXC:
        print('# exceptions met (information only: argument/gv purity and reproducibility were still checked on them):')
        for (name, ex), (cnt, label) in sorted(EXC.items()):
            print(f'#   {name}: {ex} x{cnt}  e.g. {label}')
    if VIOL:
        print('# summary of violated clauses:')
        for cl, lst in VIOL.items():
            print(f'#   {cl}: {len(lst)} input(s)')
        sys.exit(1)
    print('PASS')
    sys.exit(0)


if __name__ == '__main__':
    main()
