"""Audit of property C15: binary_sequence is a closed, immutable-by-operation algebra over {0,1}.

Prints one line per violated (clause, input), exits 1 if anything is violated, prints PASS otherwise.
"""
import sys
del sys.path[0]

import itertools
import random
import warnings
from fractions import Fraction

import numpy as np

warnings.simplefilter('ignore')

from opticomlib.typing import binary_sequence as B, electrical_signal as E  # noqa: E402

VIOL = []
SEEN = set()


def bad(clause, what):
    key = (clause, what[:160])
    if key in SEEN:
        return
    SEEN.add(key)
    if len(VIOL) < 400:
        print(f'VIOLATION [{clause}] {what[:300]}')
    VIOL.append(key)


def valid(obj):
    """None if obj is a valid binary_sequence, else a description of what is wrong."""
    if not isinstance(obj, B):
        return f'type {type(obj).__name__}'
    d = obj.data
    if not isinstance(d, np.ndarray) or type(d) is not np.ndarray:
        return f'data type {type(d).__name__}'
    if d.dtype != np.uint8:
        return f'dtype {d.dtype}'
    if d.ndim != 1:
        return f'ndim {d.ndim}'
    if d.size and not np.all((d == 0) | (d == 1)):
        return f'values {np.unique(d)}'
    return None


def bits_of(obj):
    return [int(v) for v in obj.data]


# ------------------------------------------------------------------ container forms
INT_DT = [np.int8, np.uint8, np.int16, np.uint16, np.int32, np.uint32, np.int64, np.uint64]
FLT_DT = [np.float16, np.float32, np.float64, np.longdouble]
CPX_DT = [np.complex64, np.complex128]


def forms(bits, full=True):
    """(name, container, accepted_by_plus) for every container form of a non-empty bit list."""
    s = ''.join(map(str, bits))
    out = [
        ('str', s, True),
        ('str-space', ' '.join(s), True),
        ('str-comma', ','.join(s), True),
        ('str-comma-space', ', '.join(s), True),
        ('list-int', list(bits), True),
        ('tuple-int', tuple(bits), True),
        ('list-bool', [bool(b) for b in bits], True),
        ('tuple-bool', tuple(bool(b) for b in bits), True),
        ('list-float', [float(b) for b in bits], True),
        ('arr-int64', np.array(bits, dtype=np.int64), True),
        ('arr-bool', np.array(bits, dtype=bool), True),
        ('arr-uint8', np.array(bits, dtype=np.uint8), True),
        ('arr-float64', np.array(bits, dtype=float), True),
    ]
    if full:
        out += [
            ('str-pad', '  ' + ' '.join(s) + ' ', True),
            ('str-mixed', ' ,'.join(s), True),
            ('str-float', ' '.join(f'{b}.0' for b in bits), True),
            ('str-plus', ' '.join(f'+{b}' for b in bits), True),
            ('np.str_', np.str_(s), True),
            ('list-mixed', [(b, bool(b), float(b), np.uint8(b), np.float32(b))[i % 5] for i, b in enumerate(bits)], True),
            ('list-npbool', [np.bool_(b) for b in bits], True),
            ('list-0d', [np.array(b) for b in bits], True),
            ('list-fraction', [Fraction(b) for b in bits], True),
            ('list-complex', [complex(b) for b in bits], True),
            ('range-like', np.arange(len(bits)) * 0 + np.array(bits), True),
            ('arr-object', np.array(bits, dtype=object), True),
            ('arr-strided', np.repeat(np.array(bits, dtype=np.int32), 2)[::2], True),
            ('arr-reversed-view', np.array(bits[::-1], dtype=np.int16)[::-1], True),
            ('arr-bigendian', np.array(bits, dtype='>i4'), True),
            ('arr-column-of-F', np.asfortranarray(np.tile(np.array(bits, dtype=float)[:, None], (1, 3)))[:, 1], True),
        ]
        ro = np.array(bits, dtype=np.uint8)
        ro.setflags(write=False)
        out.append(('arr-readonly', ro, True))
        for dt in INT_DT + FLT_DT + CPX_DT:
            out.append((f'arr-{np.dtype(dt).name}', np.array(bits, dtype=dt), True))
        if len(set(bits)) == 1:
            out.append(('arr-broadcast0stride', np.broadcast_to(np.uint8(bits[0]), (len(bits),)), True))
    return out


def scalar_forms(b):
    out = [('int', int(b)), ('bool', bool(b)), ('float', float(b)), ('complex', complex(b)), ('0d', np.array(b)),
           ('0d-bool', np.array(bool(b))), ('fraction', Fraction(b))]
    for dt in [np.bool_] + INT_DT + FLT_DT + CPX_DT:
        out.append((np.dtype(dt).name, dt(b)))
    return out


def snapshot(x):
    if isinstance(x, B):
        return ('B', x.data.copy(), x.data.dtype)
    if isinstance(x, np.ndarray):
        return ('A', x.copy(), x.dtype)
    if isinstance(x, (list, tuple)):
        return ('L', type(x)(x), None)
    return ('S', x, None)


def unchanged(x, snap):
    kind, val, dt = snap
    if kind in ('B',):
        return x.data.dtype == dt and x.data.shape == val.shape and np.array_equal(x.data, val)
    if kind == 'A':
        return x.dtype == dt and x.shape == val.shape and bool(np.all(x == val))
    if kind == 'L':
        return type(x) is type(val) and len(x) == len(val) and all(type(p) is type(q) and p == q for p, q in zip(x, val))
    return x == val


# ------------------------------------------------------------------ clause 1: construction
def check_construct(name, container, bits):
    snap = snapshot(container)
    try:
        a = B(container)
    except Exception as e:
        bad('build/accept', f'{name} of {bits}: {type(e).__name__}: {e}')
        return None
    v = valid(a)
    if v:
        bad('build/stored-uint8-1D', f'{name} of {bits}: {v}')
        return None
    if bits_of(a) != list(bits):
        bad('build/value', f'{name} of {bits}: stored {bits_of(a)}')
    if not unchanged(container, snap):
        bad('build/operand-unchanged', f'{name} of {bits}')
    if isinstance(container, np.ndarray) and container.size and np.shares_memory(a.data, container):
        bad('build/new', f'{name} of {bits}: data aliases the input array')
    return a


def check_reject(name, maker):
    try:
        with warnings.catch_warnings():
            warnings.simplefilter('ignore')
            r = maker()
    except (ValueError, TypeError):
        return
    except Exception as e:
        bad('build/reject-with-ValueError-or-TypeError', f'{name}: raised {type(e).__name__}: {e}')
        return
    v = valid(r) if isinstance(r, B) else f'returned {type(r).__name__}'
    bad('build/reject', f'{name}: accepted -> {getattr(r, "data", r)!r} ({v})')


def all_bitstrings(maxlen, minlen=1):
    for n in range(minlen, maxlen + 1):
        for t in itertools.product((0, 1), repeat=n):
            yield list(t)


def all_slices(n, wide=True):
    rng = list(range(-n - 2, n + 3)) + [None]
    steps = [None, 1, -1, 2, -2, 3, -3, n, -n, n + 1, -(n + 1)] if wide else [None, 1, -1, 2, -2]
    steps = [s for s in dict.fromkeys(steps) if s != 0]
    for st in rng:
        for sp in rng:
            for step in steps:
                yield slice(st, sp, step)


def test_construction():
    # exhaustive over all bit strings up to length 12; every container form for lengths <= 6 and for corners
    for bits in all_bitstrings(12):
        n = len(bits)
        full = n <= 5 or sum(bits) in (0, 1, n - 1, n)
        for name, c, _ in forms(bits, full=full):
            check_construct(name, c, bits)
    # scalars
    for b in (0, 1):
        for name, c in scalar_forms(b):
            check_construct('scalar-' + name, c, [b])
    # empty (non-string) containers
    for name, c in [('[]', []), ('()', ()), ('arr-empty-f', np.array([])), ('arr-empty-u8', np.zeros(0, np.uint8)),
                    ('arr-empty-bool', np.zeros(0, bool))]:
        check_construct(name, c, [])
    # long random ones
    rng = np.random.default_rng(15)
    for n in [13, 17, 100, 255, 256, 257, 1000, 65535, 65536, 65537, 300001]:
        for p in (0.5, 0.0, 1.0, 0.01, 0.99):
            arr = (rng.random(n) < p).astype(np.uint8)
            bits = arr.tolist()
            for name, c, _ in forms(bits, full=False):
                if n > 70000 and name not in ('str', 'str-space', 'arr-uint8', 'arr-bool', 'list-int'):
                    continue
                a = check_construct(name, c, bits)
                if a is not None and name == 'arr-uint8':
                    if int(a.ones()) != int(arr.sum()) or int(a.ones()) + int(a.zeros()) != n:
                        bad('count', f'n={n} p={p}: ones={a.ones()} zeros={a.zeros()}')

    # rejections: any element outside {0,1}, any data that is not 1-D
    badvals = [2, -1, 0.5, 1.0000000000000002, 5e-324, -5e-324, 255, 256, 257, 1 + 1e-9j, 1j, float('inf'),
               -float('inf'), 2 ** 64, 2 ** 64 + 1, -2 ** 63, 0.9999999999999999, 1e-320, 3.0, None, 'a', '2',
               np.uint8(2), np.int8(-1), np.float16(0.5), np.float32(1.0000001), Fraction(1, 2), 1e308]
    for v in badvals:
        for pos, n in [(0, 1), (0, 2), (1, 2), (0, 3), (1, 3), (2, 3), (11, 12), (0, 12), (256, 300)]:
            base = [1, 0] * n
            lst = base[:n]
            lst[pos] = v
            for nm, mk in [('list', lambda l=lst: B(list(l))), ('tuple', lambda l=lst: B(tuple(l))),
                           ('array', lambda l=lst: B(np.array(l, dtype=object if (v is None or isinstance(v, (str, Fraction)) or (isinstance(v, int) and abs(v) >= 2 ** 63)) else None)))]:
                check_reject(f'{nm} {lst[:4]}..(len {n}) bad value {v!r} at {pos}', mk)
        if not isinstance(v, str) and v is not None:
            check_reject(f'scalar {v!r}', lambda v=v: B(v))
    for dt in INT_DT + FLT_DT + CPX_DT:
        for v in (2, 3, 255, 127):
            check_reject(f'arr {np.dtype(dt).name} [1,{v}]', lambda dt=dt, v=v: B(np.array([1, v]).astype(dt)))
        if np.dtype(dt).kind == 'i':
            check_reject(f'arr {np.dtype(dt).name} [-1]', lambda dt=dt: B(np.array([-1], dtype=dt)))
    for s in ['2', '12', '1 2', '0 1 3', '1.5', '0.5 1', '-1', '1 -1', '1j', '1+1j', 'a', '1a', '1 0 x', 'true', 'True',
              '1e0', '0b1', '1;0', '1 0;0 1', '1;0;1', '10;01', ';', '1;', ';1', '0.', '.', '+', '-', '1-', '1..0',
              '1 0 2', '102', '1,2', '9', '1 0 1 1 1 1 1 1 1 1 1 7', '１０', '1_0']:
        if s in ('0.',):
            continue
        check_reject(f'str {s!r}', lambda s=s: B(s))
    for nm, mk in [
        ('2-D list', lambda: B([[1, 0], [0, 1]])), ('2-D 1xN', lambda: B([[1, 0, 1]])), ('2-D Nx1', lambda: B([[1], [0]])),
        ('2-D 1x1', lambda: B([[1]])), ('3-D', lambda: B(np.ones((1, 1, 1)))), ('2-D empty 0x3', lambda: B(np.zeros((0, 3)))),
        ('2-D empty 3x0', lambda: B(np.zeros((3, 0)))), ('[[]]', lambda: B([[]])), ('ragged', lambda: B([[1], [0, 1]])),
        ('[1,[0]]', lambda: B([1, [0]])), ('matrix', lambda: B(np.matrix([1, 0]))), ('tuple of tuples', lambda: B(((1, 0),))),
        ('list of str', lambda: B(['1', '0'])), ('list of 1-arrays', lambda: B([np.array([1]), np.array([0])])),
        ('dict', lambda: B({0: 1})), ('set', lambda: B({0, 1})), ('None', lambda: B(None)), ('bytes', lambda: B(b'101')),
        ('generator', lambda: B(i for i in (1, 0))), ('object', lambda: B(object())), ('function', lambda: B(len)),
        ('arr str', lambda: B(np.array(['1', '0']))), ('arr datetime', lambda: B(np.array([1, 0], dtype='datetime64[s]'))),
        ('arr timedelta', lambda: B(np.array([1, 2], dtype='timedelta64[s]'))),
        ('struct', lambda: B(np.zeros(2, dtype=[('a', int)]))),
    ]:
        check_reject(nm, mk)


# ------------------------------------------------------------------ clause 2: algebra
def check_pair(abits, bbits, bform_name, bcont, aobj=None):
    """a + b and b + a with a a binary_sequence and b any accepted container."""
    a = aobj if aobj is not None else B(abits)
    sa, sb = snapshot(a), snapshot(bcont)
    for order in ('a+b', 'b+a'):
        try:
            r = a + bcont if order == 'a+b' else bcont + a
        except Exception as e:
            bad('concat/accept', f'{order} a={abits} b={bform_name}:{bbits}: {type(e).__name__}: {e}')
            continue
        v = valid(r)
        if v:
            bad('concat/valid', f'{order} a={abits} b={bform_name}:{bbits}: {v}')
            continue
        exp = abits + bbits if order == 'a+b' else bbits + abits
        if len(r) != len(abits) + len(bbits) or r.len() != len(exp):
            bad('concat/len', f'{order} a={abits} b={bform_name}:{bbits}: len {len(r)}')
        if bits_of(r) != exp:
            bad('concat/value', f'{order} a={abits} b={bform_name}:{bbits}: {bits_of(r)}')
        first = a if order == 'a+b' else B(bbits)
        try:
            pre = r[:len(first)]
            if valid(pre) or not (pre == first) or (pre != first):
                bad('concat/prefix', f'{order} a={abits} b={bform_name}:{bbits}: prefix {getattr(pre, "data", pre)}')
        except Exception as e:
            bad('concat/prefix', f'{order} a={abits} b={bform_name}:{bbits}: {type(e).__name__}: {e}')
        if r is a or r is bcont or (a.data.size and np.shares_memory(r.data, a.data)) or \
                (isinstance(bcont, np.ndarray) and bcont.size and np.shares_memory(r.data, bcont)) or \
                (isinstance(bcont, B) and bcont.data.size and np.shares_memory(r.data, bcont.data)):
            bad('concat/new', f'{order} a={abits} b={bform_name}:{bbits}: result aliases an operand')
        if not unchanged(a, sa) or not unchanged(bcont, sb):
            bad('concat/operands-unchanged', f'{order} a={abits} b={bform_name}:{bbits}')
        # mutating the result must not reach the operands
        if r.data.size:
            r.data[:] ^= 1
            if not unchanged(a, sa) or not unchanged(bcont, sb):
                bad('concat/operands-unchanged(after writing result)', f'{order} a={abits} b={bform_name}:{bbits}')


def check_unary(bits, a=None):
    a = a if a is not None else B(bits)
    n = len(bits)
    sa = snapshot(a)
    # counts
    try:
        o, z = a.ones(), a.zeros()
        if o != sum(bits) or z != n - sum(bits) or o + z != a.len() or o + z != len(a):
            bad('count/ones+zeros==len', f'{bits}: ones={o} zeros={z} len={a.len()}')
    except Exception as e:
        bad('count', f'{bits}: {type(e).__name__}: {e}')
    # inversion
    try:
        na = ~a
        v = valid(na)
        if v:
            bad('invert/valid', f'{bits}: {v}')
        else:
            if bits_of(na) != [1 - b for b in bits]:
                bad('invert/value', f'{bits}: {bits_of(na)}')
            if na.ones() != a.zeros() or na.zeros() != a.ones():
                bad('invert/ones(~a)==zeros(a)', f'{bits}: {na.ones()} vs {a.zeros()}')
            nna = ~na
            if valid(nna) or not (nna == a) or (nna != a) or bits_of(nna) != bits:
                bad('invert/~~a==a', f'{bits}: {getattr(nna, "data", nna)}')
            if na is a or (n and np.shares_memory(na.data, a.data)):
                bad('invert/new', f'{bits}')
            if n:
                na.data[:] = 7
        if not unchanged(a, sa):
            bad('invert/operand-unchanged', f'{bits}')
    except Exception as e:
        bad('invert', f'{bits}: {type(e).__name__}: {e}')
    return a


def check_slices(bits, a, slices):
    sa = snapshot(a)
    n = len(bits)
    for sl in slices:
        try:
            r = a[sl]
        except Exception as e:
            bad('slice/accept', f'{bits}[{sl}]: {type(e).__name__}: {e}')
            continue
        v = valid(r)
        if v:
            bad('slice/valid', f'{bits}[{sl}]: {v}')
            continue
        if bits_of(r) != bits[sl]:
            bad('slice/value', f'{bits}[{sl}]: {bits_of(r)} expected {bits[sl]}')
        if r is a or (r.data.size and np.shares_memory(r.data, a.data)):
            bad('slice/new', f'{bits}[{sl}] aliases the operand')
        if r.data.size:
            r.data[:] ^= 1
        if not unchanged(a, sa):
            bad('slice/operand-unchanged', f'{bits}[{sl}]')
            a = B(bits)
    # integer indices: python ints and numpy integers, first/last/negative
    for k in range(-n, n):
        for kk in (k, np.int64(k), np.intp(k)) + ((np.int8(k),) if -128 <= k < 128 else ()) + \
                ((np.uint64(k),) if k >= 0 else ()) + ((np.uint8(k),) if 0 <= k < 256 else ()):
            try:
                r = a[kk]
            except Exception as e:
                bad('index/accept', f'{bits}[{kk!r}]: {type(e).__name__}: {e}')
                continue
            v = valid(r)
            if v:
                bad('index/valid', f'{bits}[{kk!r}]: {v}')
            elif bits_of(r) != [bits[k]]:
                bad('index/value', f'{bits}[{kk!r}]: {bits_of(r)}')
    if not unchanged(a, sa):
        bad('index/operand-unchanged', f'{bits}')


def test_algebra():
    rng = random.Random(1515)
    # exhaustive: unary laws and slices for every bit string up to 12
    for bits in all_bitstrings(12, minlen=0):
        n = len(bits)
        a = B(bits) if n else B([])
        check_unary(bits, a)
        if n <= 6:
            check_slices(bits, a, all_slices(n, wide=True))
        elif sum(bits) in (0, 1, n - 1, n) or n == 12 and rng.random() < 0.02:
            check_slices(bits, a, all_slices(n, wide=False))
        else:
            sls = [slice(rng.choice([None] + list(range(-n - 1, n + 2))), rng.choice([None] + list(range(-n - 1, n + 2))),
                         rng.choice([None, 1, -1, 2, -2, 3, -5, n, -n])) for _ in range(12)]
            sls += [slice(None, -0), slice(-0, None), slice(0, 0), slice(n, None), slice(None, n), slice(-1, None), slice(None, 1)]
            check_slices(bits, a, sls)

    # exhaustive pairs: every a, b up to length 4 in every container form; a up to 12 with corner b
    small = list(all_bitstrings(4))
    for abits in [[]] + small:
        for bbits in small:
            for name, c, _ in forms(bbits, full=True):
                check_pair(abits, bbits, name, c)
            check_pair(abits, bbits, 'binary_sequence', B(bbits))
        # empty non-string containers
        for name, c in [('[]', []), ('()', ()), ('arr-empty', np.array([])), ('arr-empty-u8', np.zeros(0, np.uint8)),
                        ('B-empty', B([]))]:
            check_pair(abits, [], name, c)
    corner_b = [[0], [1], [0, 1], [1, 0], [1] * 12, [0] * 12, [0] * 11 + [1], [1] * 11 + [0], [1, 0] * 6]
    for abits in all_bitstrings(12, minlen=5):
        n = len(abits)
        if not (sum(abits) in (0, 1, n - 1, n) or rng.random() < 0.03):
            continue
        for bbits in corner_b:
            for name, c, _ in forms(bbits, full=False):
                check_pair(abits, bbits, name, c)
            check_pair(abits, bbits, 'binary_sequence', B(bbits))
    # a + a (same object on both sides)
    for bits in all_bitstrings(5):
        a = B(bits)
        check_pair(bits, bits, 'same-object', a, aobj=a)

    # long random
    nrng = np.random.default_rng(1500)
    for n, m in [(1, 100000), (100000, 1), (65535, 1), (65536, 65536), (255, 1), (256, 1), (100003, 99991)]:
        ab = (nrng.random(n) < 0.5).astype(int).tolist()
        bb = (nrng.random(m) < 0.5).astype(int).tolist()
        for name, c, _ in forms(bb, full=False):
            if name in ('str', 'list-int', 'tuple-bool', 'arr-bool', 'arr-float64', 'str-comma-space'):
                check_pair(ab, bb, name, c)
        a = check_unary(ab)
        check_slices(ab, a, [slice(None), slice(None, None, -1), slice(1, None), slice(None, -1), slice(None, -0),
                             slice(n // 2, n // 2), slice(None, None, 7), slice(-3, None), slice(n - 1, None), slice(n, None)][:10]) if n < 300 else None
        if n >= 300:
            for sl in [slice(None), slice(None, None, -1), slice(1, None), slice(None, -1), slice(None, -0), slice(n // 2, n // 2),
                       slice(None, None, 7), slice(-3, None), slice(n - 1, None), slice(n, None), slice(-n, 1)]:
                r = a[sl]
                if valid(r) or bits_of(r) != ab[sl]:
                    bad('slice/value(long)', f'n={n} {sl}')

    # random expressions over +, ~, slicing with leaves of every container form, against a list model
    def leaf():
        n = rng.choice([1, 1, 2, 2, 3, 4, 5, 7, 12])
        return [rng.randint(0, 1) for _ in range(n)]

    def build(depth):
        """returns (model bits, actual object, description). actual is always a binary_sequence."""
        if depth == 0 or rng.random() < 0.2:
            bits = leaf()
            return bits, B(bits), ''.join(map(str, bits))
        op = rng.choice(['+', '+', 'r+', '~', '[]', '+c', 'c+'])
        if op == '~':
            m, o, d = build(depth - 1)
            return [1 - b for b in m], ~o, f'~({d})'
        if op == '[]':
            m, o, d = build(depth - 1)
            n = len(m)
            sl = slice(rng.choice([None] + list(range(-n - 1, n + 2))), rng.choice([None] + list(range(-n - 1, n + 2))),
                       rng.choice([None, None, 1, -1, 2, -2, 3]))
            return m[sl], o[sl], f'({d})[{sl.start}:{sl.stop}:{sl.step}]'
        if op in ('+', 'r+'):
            m1, o1, d1 = build(depth - 1)
            m2, o2, d2 = build(depth - 1)
            return m1 + m2, o1 + o2, f'({d1})+({d2})'
        m1, o1, d1 = build(depth - 1)
        bits = leaf()
        name, c, _ = rng.choice(forms(bits, full=True))
        if op == '+c':
            return m1 + bits, o1 + c, f'({d1})+{name}:{"".join(map(str, bits))}'
        return bits + m1, c + o1, f'{name}:{"".join(map(str, bits))}+({d1})'

    for i in range(6000):
        try:
            m, o, d = build(rng.choice([1, 2, 3, 4, 5]))
        except Exception as e:
            bad('expression/accept', f'{type(e).__name__}: {e}')
            continue
        v = valid(o)
        if v:
            bad('expression/valid', f'{d}: {v}')
        elif bits_of(o) != m:
            bad('expression/value', f'{d}: {bits_of(o)} expected {m}')
        elif o.ones() + o.zeros() != len(m) or (~o).ones() != o.zeros():
            bad('expression/counts', f'{d}')

    # scalars / bools offered to + (accepted "containers" of the constructor): must concatenate or raise ValueError/TypeError
    a = B('101')
    for b in (0, 1):
        for name, c in scalar_forms(b):
            for order in ('a+b', 'b+a'):
                try:
                    r = a + c if order == 'a+b' else c + a
                except (ValueError, TypeError):
                    continue
                except Exception as e:
                    bad('concat/scalar', f'{order} {name}: {type(e).__name__}: {e}')
                    continue
                exp = [1, 0, 1] + [b] if order == 'a+b' else [b] + [1, 0, 1]
                if valid(r) or bits_of(r) != exp:
                    bad('concat/scalar-value', f'{order} {name}: {getattr(r, "data", r)!r}')
    # invalid operands of + : never a sequence
    for nm, c in [('[2]', [2]), ('"2"', '2'), ('[[1]]', [[1]]), ('"1;0"', '1;0'), ('[0.5]', [0.5]), ('(1,-1)', (1, -1)),
                  ('arr 2-D', np.ones((1, 2))), ('arr [256]', np.array([256])), ('arr u8 [255]', np.array([255], np.uint8)),
                  ('[1,None]', [1, None]), ('["1"]', ['1']), ('None', None), ('dict', {1: 0}), ('set', {1}), ('3', 3), ('0.5', 0.5)]:
        check_reject(f'a + {nm}', lambda c=c: a + c)
        check_reject(f'{nm} + a', lambda c=c: c + a)
    if bits_of(a) != [1, 0, 1]:
        bad('concat/operands-unchanged', 'a changed by rejected operands')


# ------------------------------------------------------------------ clause 3: threshold comparison
def exact(v):
    """exact python number of a real numpy/python scalar"""
    if isinstance(v, (bool, np.bool_)):
        return int(v)
    if isinstance(v, (int, np.integer)):
        return int(v)
    if isinstance(v, np.longdouble):
        return Fraction(*[int(t) for t in v.as_integer_ratio()])
    return Fraction(float(v)) if np.isfinite(float(v)) else float(v)


def check_cmp(desc, sig, noise, thr, thr_vals, real_nonneg=True):
    """sig/noise: arrays handed to electrical_signal; thr: the threshold object; thr_vals: its values (list, len 1 or N)."""
    try:
        x = E(sig) if noise is None else E(sig, noise)
    except Exception as e:
        bad('cmp/build-signal', f'{desc}: {type(e).__name__}: {e}')
        return
    n = x.len()
    s0 = x.signal.copy()
    n0 = None if x.noise is None else x.noise.copy()
    tot = x.signal if x.noise is None else x.signal + x.noise
    for op in ('>', '<', 'r>', 'r<'):
        if op in ('r>', 'r<') and isinstance(thr, (np.ndarray, np.generic, E)):
            continue  # numpy value on the left: known, excluded
        try:
            if op == '>':
                r = x > thr
            elif op == '<':
                r = x < thr
            elif op == 'r>':
                r = thr > x   # == x < thr
            else:
                r = thr < x   # == x > thr
        except Exception as e:
            bad('cmp/accept', f'{desc} op {op}: {type(e).__name__}: {e}')
            continue
        v = valid(r)
        if v:
            bad('cmp/valid', f'{desc} op {op}: {v}')
            continue
        if len(r) != n:
            bad('cmp/same-length', f'{desc} op {op}: {len(r)} != {n}')
            continue
        if real_nonneg:
            tv = [exact(t) for t in thr_vals]
            if len(tv) == 1:
                tv = tv * n
            greater = op in ('>', 'r<')
            exp = [int(exact(a) > t) if greater else int(exact(a) < t) for a, t in zip(tot, tv)]
            if bits_of(r) != exp:
                k = [i for i in range(n) if bits_of(r)[i] != exp[i]][0]
                bad('cmp/value', f'{desc} op {op}: sample {k}: s+n={tot[k]!r} thr={tv[k]!r} got {bits_of(r)[k]} expected {exp[k]}')
    if not np.array_equal(x.signal, s0) or (n0 is not None and not np.array_equal(x.noise, n0)):
        bad('cmp/operand-unchanged', desc)


def thr_scalar_forms(t):
    out = [('float', float(t)), ('np.float64', np.float64(t)), ('0d', np.array(float(t))), ('[t]', [float(t)]),
           ('(t,)', (float(t),)), ('arr1', np.array([float(t)])), ('E', E(float(t)))]
    if np.isfinite(t) and 'e' not in repr(float(t)):
        out.append(('str', repr(float(t))))   # plain decimal text only: exponent notation is not part of the text format
    if np.isfinite(t) and float(t) == int(t) and abs(t) < 2 ** 62:
        out += [('int', int(t)), ('np.int64', np.int64(int(t))), ('np.uint8', np.uint8(int(t)) if 0 <= t < 256 else np.int64(int(t)))]
    if np.float32(t) == t:
        out.append(('np.float32', np.float32(t)))
    if np.float16(t) == t:
        out.append(('np.float16', np.float16(t)))
    if t in (0, 1):
        out += [('bool', bool(t)), ('np.bool_', np.bool_(t)), ('str01', str(int(t)))]
    return out


def test_compare():
    rng = np.random.default_rng(151515)
    lengths = [1, 2, 3, 4, 5, 16, 17, 33, 1000]
    for n in lengths:
        for trial in range(6):
            base = rng.random(n) * rng.choice([1e-12, 1e-3, 1.0, 5.0, 1e6])
            if trial == 1:
                base = np.round(base / base.max() * 4) if base.max() > 0 else base  # many exact ties
            if trial == 2:
                base[:] = base[0]                                                    # constant
            if trial == 3:
                base[rng.integers(n)] = 0.0                                          # a single exact zero
            noises = [None, np.zeros(n), rng.random(n) * base.mean() * 0.3,
                      -base * rng.random(n) * 0.999,                                # negative noise, sum stays >= 0
                      -base]                                                         # sum exactly 0
            for ni, noise in enumerate(noises):
                tot = base if noise is None else base + noise
                assert np.all(tot >= 0)
                cands = [0.0, float(tot[0]), float(tot[-1]), float(tot.max()), float(tot.min()), float(np.median(tot)),
                         float(np.nextafter(tot[0], np.inf)), float(np.nextafter(tot[0], 0)) if tot[0] > 0 else 0.0,
                         float(tot.mean()), 1.0, np.inf, 5e-324, 1e308]
                for t in cands:
                    for name, thr in thr_scalar_forms(t) if (n <= 5 or trial == 0) else [('float', float(t))]:
                        check_cmp(f'n={n} trial={trial} noise#{ni} scalar-thr {name}={t!r}', base, noise, thr, [t])
                # array thresholds of the same length, including the values themselves (exact ties)
                arrs = [tot.copy(), tot[::-1].copy(), np.full(n, float(np.median(tot))), np.roll(tot, 1),
                        np.where(rng.random(n) < 0.5, tot, tot * 1.0000000000000002), rng.random(n) * tot.max() if tot.max() > 0 else np.zeros(n)]
                for ai, ta in enumerate(arrs):
                    tl = [float(v) for v in ta]
                    for name, thr in [('ndarray', ta), ('list', tl), ('tuple', tuple(tl)), ('f32arr', ta.astype(np.float32)),
                                      ('E', E(ta)), ('str', ' '.join(repr(v) for v in tl))]:
                        if name == 'str' and (n > 40 or any(('e' in repr(v) or 'inf' in repr(v)) for v in tl)):
                            continue
                        vals = [float(v) for v in (ta.astype(np.float32) if name == 'f32arr' else ta)]
                        if n == 1 and name == 'str' and set(repr(tl[0])) <= set('01'):
                            continue
                        check_cmp(f'n={n} trial={trial} noise#{ni} array-thr#{ai} {name}', base, noise, thr, vals)
    # integer / bool / narrow float signal dtypes, scalar & array thresholds (values kept far from wrap-around)
    for dt in [np.uint8, np.int8, np.int16, np.uint16, np.int32, np.uint32, np.int64, np.uint64, np.float16, np.float32, np.longdouble, bool]:
        for n in (1, 2, 3, 17):
            s = rng.integers(0, 2 if dt is bool else 50, n).astype(dt)
            for noise in (None, rng.integers(0, 2 if dt is bool else 50, n).astype(dt), rng.random(n)):
                for t in (0, 1, 25, 0.5, 24.5, 49, 98, True):
                    check_cmp(f'dtype {np.dtype(dt).name} n={n} noise={"none" if noise is None else noise.dtype} thr={t!r}', s, noise, t, [t])
                ta = rng.integers(0, 60, n)
                check_cmp(f'dtype {np.dtype(dt).name} n={n} int array thr', s, noise, ta, list(ta))
                check_cmp(f'dtype {np.dtype(dt).name} n={n} int list thr', s, noise, ta.tolist(), list(ta))
    # python containers and text as the signal itself
    for sig, vals in [('1 0 1', [1, 0, 1]), ('101', [1, 0, 1]), ([True, False], [1, 0]), ((0.25, 0.75), [0.25, 0.75]), (1, [1]),
                      (0.5, [0.5]), (True, [1]), ('0.5 1.5 2', [0.5, 1.5, 2]), (np.float32(0.3), [np.float32(0.3)])]:
        for t in (0, 0.5, 1, 0.3, 2):
            try:
                x = E(sig)
                for op, r in (('>', x > t), ('<', x < t)):
                    exp = [int(exact(v) > exact(t)) if op == '>' else int(exact(v) < exact(t)) for v in vals]
                    if valid(r) or bits_of(r) != exp:
                        bad('cmp/value(container signal)', f'E({sig!r}) {op} {t}: {getattr(r, "data", r)!r} expected {exp}')
            except Exception as e:
                bad('cmp/accept(container signal)', f'E({sig!r}) vs {t}: {type(e).__name__}: {e}')
    # 0/1 text and bool arrays as array thresholds
    x = E([0.1, 0.5, 0.9])
    for thr in ('0 1 0', '010', '0,1,0', [False, True, False], np.array([False, True, False])):
        for op in '><':
            r = (x > thr) if op == '>' else (x < thr)
            exp = [1, 0, 1] if op == '>' else [0, 1, 0]
            if valid(r) or bits_of(r) != exp:
                bad('cmp/value(0/1 array threshold)', f'{thr!r} {op}: {getattr(r, "data", r)!r}')
    # all real / complex signals: validity and length only (plus modulus semantics, informative)
    for n in (1, 2, 3, 17, 1000):
        for kind in ('real-signed', 'complex', 'complex64', 'complex+noise', 'real-signed+noise', 'inf'):
            s = rng.standard_normal(n)
            noise = None
            if kind.startswith('complex'):
                s = s + 1j * rng.standard_normal(n)
            if kind == 'complex64':
                s = s.astype(np.complex64)
            if kind.endswith('+noise'):
                noise = rng.standard_normal(n) * (1j if kind.startswith('complex') else 1)
            if kind == 'inf':
                s = np.abs(s)
                s[0] = np.inf
            for thr, tv in [(0.5, [0.5]), (-0.5, [-0.5]), (0.5 + 0.5j, [0.5 + 0.5j]), (list(np.abs(s[::-1]).tolist()), None),
                            (rng.standard_normal(n) + 1j * rng.standard_normal(n), None), (np.inf, [np.inf]), (0, [0])]:
                check_cmp(f'{kind} n={n} thr={str(thr)[:30]}', s, noise, thr, tv, real_nonneg=False)
    # threshold length mismatches must not produce a wrong-length sequence
    x = E(np.arange(5.0))
    for thr in ([1, 2], [1, 2, 3, 4, 5, 6], np.zeros(4), (1, 2, 3), [[1, 2, 3, 4, 5]], np.zeros((5, 1)), [], None):
        for f in (lambda: x > thr, lambda: x < thr):
            try:
                r = f()
            except (ValueError, TypeError):
                continue
            except Exception as e:
                bad('cmp/mismatch-exception', f'thr {thr!r}: {type(e).__name__}: {e}')
                continue
            if valid(r) or len(r) != 5:
                bad('cmp/same-length', f'thr {thr!r}: got {getattr(r, "data", r)!r}')
    # length-1 signal against longer threshold
    for f in (lambda: E(1.0) > [0, 2], lambda: E([1.0]) < np.array([0, 2, 3])):
        try:
            r = f()
            if valid(r) or len(r) != 1:
                bad('cmp/same-length', f'length-1 signal vs longer threshold gave {getattr(r, "data", r)!r}')
        except (ValueError, TypeError):
            pass


if __name__ == '__main__':
    test_construction()
    print('# construction done', len(VIOL), flush=True)
    test_algebra()
    print('# algebra done', len(VIOL), flush=True)
    test_compare()
    print('# compare done', len(VIOL), flush=True)
    if VIOL:
        print(f'FAIL: {len(VIOL)} violated (clause, input) pairs')
        sys.exit(1)
    print('PASS')
    sys.exit(0)
