"""Audit of property C16 (FBG passive reflector / coupled-mode closed forms) - fourth audit, domain edges."""
import sys, os
if sys.path and os.path.abspath(sys.path[0] or '.') == os.path.dirname(os.path.abspath(__file__)):
    del sys.path[0]
import io, contextlib, itertools, warnings, functools
import numpy as np
from scipy.integrate import quad
from opticomlib import gv, optical_signal
from opticomlib.devices import FBG

warnings.simplefilter('ignore')
c = 299792458.0
NEFF = 1.45
TOL_H = 1e-3      # |H| <= 1 + rtol of RK45
TOL_R = 2e-3      # absolute tolerance on reflectivity against closed forms
TOL_B = 1e-3      # Bragg reflectivity
viol = []


def report(clause, inp, msg):
    viol.append((clause, inp, msg))
    print(f'VIOLATION [{clause}] {inp}: {msg}')


def closed_uniform(f, f0, vd, kL):
    lamD = c / f0
    L = kL * lamD / (np.pi * vd)
    lam = c / (f + f0)
    d = 2 * np.pi * NEFF * (1 / lam - 1 / lamD) * L
    k = np.pi * vd / lam * L
    g = np.sqrt((k ** 2 - d ** 2).astype(complex))
    with np.errstate(all='ignore'):
        R = np.abs(np.sinh(g) ** 2 / (np.cosh(g) ** 2 - d ** 2 / k ** 2))
    bad = ~np.isfinite(R)
    if bad.any():  # g == 0 exactly: limit k^2/(1+k^2)
        R[bad] = (k[bad] ** 2 / (1 + k[bad] ** 2))
    return R


BUILTIN = {
    'uniform': lambda z: 1.0 + 0 * z,
    'rcos': lambda z: 0.5 * (1 + np.cos(2 * np.pi * z)),
    'gaussian': lambda z: np.exp(-4 * np.log(2) * (3 * z) ** 2),
    'parabolic': lambda z: 1 - (2 * z) ** 2,
}


def mk_signal(rng, n, npol, kind):
    if kind == 'noise':
        a = rng.standard_normal((npol, n)) + 1j * rng.standard_normal((npol, n))
    elif kind == 'ones':
        a = np.ones((npol, n))
    elif kind == 'int':
        a = rng.integers(0, 3, (npol, n))
    elif kind == 'delta':
        a = np.zeros((npol, n)); a[:, 0] = 1
    elif kind == 'lastdelta':
        a = np.zeros((npol, n)); a[:, -1] = 1
    elif kind == 'zeros':
        a = np.zeros((npol, n))
    elif kind == 'tone':  # tone exactly at the Bragg frequency and one at Nyquist
        a = np.ones((npol, n)) + np.cos(np.pi * np.arange(n))[None, :]
    if npol == 1:
        return optical_signal(a[0])
    return optical_signal(a, n_pol=2)


def call(x, **kw):
    kw.setdefault('print_params', False)
    return FBG(x, retH=True, **kw)


def check_common(tag, x, y, H, exact=True):
    """passivity, exact filtering, energy, shape, finiteness, input untouched"""
    if not np.all(np.isfinite(H)):
        report('H finite', tag, 'non-finite H'); return
    m = np.abs(H).max()
    if m > 1 + TOL_H:
        report('|H|<=1', tag, f'max|H| = {m!r}')
    if H.shape != (x.len(),):
        report('H shape', tag, f'{H.shape}')
    if y.signal.shape != x.signal.shape:
        report('output shape / polarisations', tag, f'{y.signal.shape} vs {x.signal.shape}')
        return
    ex = np.fft.ifft(np.fft.fft(x.signal, axis=-1) * np.fft.ifftshift(H), axis=-1)
    if not np.allclose(ex, y.signal, rtol=1e-12, atol=1e-12 * (np.abs(x.signal).max() + 1e-300)):
        report('output = input filtered by H', tag, f'max diff {np.abs(ex - y.signal).max()}')
    ein = (np.abs(x.signal) ** 2).sum(axis=-1)
    eout = (np.abs(y.signal) ** 2).sum(axis=-1)
    if np.any(eout > ein * (1 + TOL_H) ** 2 + 1e-300):
        report('energy', tag, f'Eout {eout} > Ein {ein}')


# ---------------------------------------------------------------- 1. corner grid
rng = np.random.default_rng(16)
KL = [0.1, 0.1000001, 1.0, 3, 7.999999, 8, 8.0]
VD = [1e-5, 1.0000001e-5, 1e-4, 9.999999e-4, 1e-3]
FS = [20e9, 20.000001e9, 64e9, 399.99999e9, 400e9]
FCH = [0, -20, 20, -19.999999, 1e-9, 7]
NS = [2 ** 8, 2 ** 9, 2 ** 10, 2 ** 11, 2 ** 12]
kinds = ['noise', 'ones', 'int', 'delta', 'lastdelta', 'zeros', 'tone']

count = 0
for fs in FS:
    gv(fs=fs)
    for n in [2 ** 8, 2 ** 9, 2 ** 12] if fs in (20e9, 400e9) else [2 ** 8, 2 ** 10]:
        for npol in (1, 2):
            for kL in KL:
                for vd in VD:
                    # keep the cost bounded: the slow corner (long grating, wide band) only for few shapes
                    slow = (kL >= 3 and vd <= 1.1e-5 and fs > 60e9)
                    if slow and not (npol == 1 and n == 2 ** 8):
                        continue
                    apo = list(BUILTIN)[count % 4]
                    F = FCH[count % len(FCH)]
                    kind = kinds[count % len(kinds)]
                    ff = bool(count % 2)
                    count += 1
                    x = mk_signal(rng, n, npol, kind)
                    x0 = x.signal.copy()
                    tag = f'fs={fs:g} n={n} npol={npol} kL={kL!r} vdneff={vd!r} apo={apo} F={F!r} sig={kind} filtfilt={ff}'
                    try:
                        y, H = call(x, fc=gv.f0, vdneff=vd, kL=kL, F=F, apodization=apo, filtfilt=ff)
                    except Exception as e:
                        report('valid design computes', tag, repr(e)); continue
                    check_common(tag, x, y, H)
                    if not np.array_equal(x0, x.signal):
                        report('input untouched', tag, 'input modified')
                    if abs(F) <= 1e-9:
                        I = quad(BUILTIN[apo], -0.5, 0.5)[0]
                        r = np.tanh(kL * I) ** 2
                        got = np.abs(H[n // 2]) ** 2
                        if abs(got - r) > TOL_B:
                            report('Bragg reflectivity tanh^2', tag, f'expected {r}, got {got}')
                    if F == 0 and apo == 'uniform':
                        f = x.w(shift=True) / 2 / np.pi
                        R = closed_uniform(f, gv.f0, vd, kL)
                        err = np.abs(np.abs(H) ** 2 - R)
                        if err.max() > TOL_R:
                            report('uniform closed form', tag, f'max err {err.max()} at f={f[err.argmax()]:g}')
print('grid cases', count)

# full spectrum check for uniform gratings at all corners (cheap shapes)
for fs in [20e9, 400e9]:
    gv(fs=fs)
    for n in [2 ** 8, 2 ** 12]:
        x = mk_signal(rng, n, 1, 'ones')
        f = x.w(shift=True) / 2 / np.pi
        for kL in [0.1, 8]:
            for vd in [1e-5, 1e-3]:
                if kL == 8 and vd == 1e-5 and fs == 400e9 and n == 2 ** 12:
                    continue
                tag = f'uniform fs={fs:g} n={n} kL={kL} vd={vd}'
                y, H = call(x, fc=gv.f0, vdneff=vd, kL=kL)
                R = closed_uniform(f, gv.f0, vd, kL)
                err = np.abs(np.abs(H) ** 2 - R)
                if err.max() > TOL_R:
                    report('uniform closed form', tag, f'max err {err.max()}')
                check_common(tag, x, y, H)

# ---------------------------------------------------------------- 2. user callables

class Profile:
    """callable object, positive smooth profile"""
    def __init__(self, a, ph, base):
        self.a, self.ph, self.base = a, ph, base
    def __call__(self, z):
        s = sum(ak * np.cos(2 * np.pi * (k + 1) * z + p) for k, (ak, p) in enumerate(zip(self.a, self.ph)))
        return self.base * np.exp(s)


def as_array1(p):  # returns shape (1,) arrays
    return lambda z: np.atleast_1d(p(z))


def as_pyfloat(p):
    return lambda z: float(p(z))


class FalsyProfile(Profile):
    def __len__(self):
        return 0


class EqProfile(Profile):
    def __eq__(self, other):  # element-wise style comparison as numpy-like objects do
        return np.array([False])
    __hash__ = None


gv(fs=100e9)
n = 2 ** 8
x = mk_signal(rng, n, 2, 'noise')
for trial in range(60):
    m = rng.integers(1, 4)
    a = rng.uniform(-0.6, 0.6, m); ph = rng.uniform(0, 2 * np.pi, m)
    base = rng.choice([0.05, 0.5, 1.0, 2.0])
    cls = [Profile, FalsyProfile, EqProfile][trial % 3]
    p = cls(a, ph, base)
    wrappers = [lambda q: q, as_array1, as_pyfloat, lambda q: functools.partial(q.__call__), lambda q: np.vectorize(q)]
    wrap = wrappers[trial % len(wrappers)]
    apo = wrap(p)
    kL = [0.1, 8, float(rng.uniform(0.1, 8))][trial % 3]
    vd = [1e-5, 1e-3, float(10 ** rng.uniform(-5, -3))][(trial // 3) % 3]
    if kL > 3 and vd < 3e-5:
        vd = 1e-4
    for F in (0, [-20, 20][trial % 2]):
        tag = f'callable trial={trial} cls={cls.__name__} wrap={trial % len(wrappers)} kL={kL} vd={vd} F={F} base={base}'
        try:
            y, H = call(x, fc=gv.f0, vdneff=vd, kL=kL, F=F, apodization=apo)
        except Exception as e:
            report('user callable accepted', tag, repr(e)); continue
        check_common(tag, x, y, H)
        if F == 0:
            I = quad(lambda z: float(np.squeeze(p(z))), -0.5, 0.5, epsabs=1e-12, epsrel=1e-12)[0]
            r = np.tanh(kL * I) ** 2
            got = np.abs(H[n // 2]) ** 2
            if abs(got - r) > TOL_B:
                report('Bragg reflectivity tanh^2 (callable)', tag, f'expected {r}, got {got}')
            # a callable equal to a built-in must give the built-in response
# callables equal to built-ins must reproduce them exactly
for name, fn in BUILTIN.items():
    for kL, vd in [(0.1, 1e-5), (8, 1e-3), (2.5, 1e-4)]:
        _, H1 = call(x, fc=gv.f0, vdneff=vd, kL=kL, apodization=name)
        _, H2 = call(x, fc=gv.f0, vdneff=vd, kL=kL, apodization=fn)
        if not np.allclose(H1, H2, rtol=0, atol=1e-6):
            report('callable == built-in', f'{name} kL={kL} vd={vd}', f'max diff {np.abs(H1 - H2).max()}')

# ---------------------------------------------------------------- 3. equivalent specifications
for fs in [20e9, 400e9, 100e9]:
    gv(fs=fs)
    for n in [2 ** 8, 2 ** 12]:
        x = mk_signal(rng, n, 1 + (n == 2 ** 8), 'noise')
        for vd in [1e-5, 1e-3, 2.3e-4]:
            for kL0 in [0.1, 8, 1.7]:
                if kL0 == 8 and vd == 1e-5 and fs > 50e9:
                    continue
                for F, apo in [(0, 'uniform'), (20, 'gaussian'), (-20, 'rcos')]:
                    lamD = c / gv.f0
                    Lam = lamD / (2 * NEFF)
                    # integer period counts whose kL is inside [0.1, 8]: round inwards
                    Nf = kL0 * lamD / (np.pi * vd) / Lam
                    N = int(np.ceil(Nf)) if kL0 <= 0.1 else int(np.floor(Nf))
                    L = N * lamD / (2 * NEFF)
                    kL = np.pi * vd * L / lamD
                    assert 0.1 <= kL <= 8
                    ref = None
                    for centre in ('fc', 'landa_D'):
                        for length in ('kL', 'L', 'N', 'N_np', 'L_and_N', 'kL_and_L'):
                            kw = dict(vdneff=vd, F=F, apodization=apo)
                            kw[centre] = gv.f0 if centre == 'fc' else lamD
                            if length == 'kL': kw['kL'] = kL
                            elif length == 'L': kw['L'] = L
                            elif length == 'N': kw['N'] = N
                            elif length == 'N_np': kw['N'] = np.int64(N)
                            elif length == 'L_and_N': kw.update(L=L, N=N)
                            elif length == 'kL_and_L': kw.update(L=L, kL=kL)
                            tag = f'fs={fs:g} n={n} vd={vd} N={N} F={F} {apo} via {centre}+{length}'
                            try:
                                y, H = call(x, **kw)
                            except Exception as e:
                                report('route accepted', tag, repr(e)); continue
                            check_common(tag, x, y, H)
                            if ref is None:
                                ref = (H, y.signal)
                            else:
                                dH = np.abs(H - ref[0]).max()
                                if dH > 1e-6:
                                    report('equivalent routes same response', tag, f'max |dH| = {dH}')
                                dy = np.abs(y.signal - ref[1]).max()
                                if dy > 1e-6 * np.abs(x.signal).max():
                                    report('equivalent routes same output', tag, f'max |dy| = {dy}')

# ---------------------------------------------------------------- 4. incomplete specifications -> ValueError
gv(fs=50e9)
x = mk_signal(rng, 2 ** 8, 1, 'ones')
lamD = c / gv.f0
vals = dict(fc=gv.f0, landa_D=lamD, kL=2.0, L=2e-3, N=3000, vdneff=1e-4)
names = list(vals)
for r in range(len(names) + 1):
    for sub in itertools.combinations(names, r):
        kw = {k: vals[k] for k in sub}
        centre = ('fc' in kw) or ('landa_D' in kw)
        length = any(k in kw for k in ('kL', 'L', 'N'))
        # complete "through vdneff": centre, vdneff and a length.  Documented third route: landa_D, kL, (N or L).
        complete = centre and 'vdneff' in kw and length
        route3 = ('landa_D' in kw) and ('fc' not in kw) and ('kL' in kw) and ('L' in kw or 'N' in kw)
        try:
            with contextlib.redirect_stdout(io.StringIO()):
                out = FBG(x, **kw)
            ok = True; exc = None
        except ValueError as e:
            ok = False; exc = e
        except Exception as e:
            report('incomplete spec raises ValueError', sub, f'raised {e!r} instead'); continue
        if not (complete or route3) and ok:
            report('incomplete spec raises ValueError', sub, 'no error raised')
        if complete and not ok:
            report('complete spec accepted', sub, f'ValueError {exc}')
# non-signal input
for bad in (np.ones(256), [1, 2, 3]):
    try:
        FBG(bad, fc=gv.f0, vdneff=1e-4, kL=1, print_params=False)
        report('input type', type(bad).__name__, 'accepted')
    except TypeError:
        pass
    except Exception as e:
        report('input type', type(bad).__name__, repr(e))

# ---------------------------------------------------------------- 5. default printing path, repeated calls, argument types
for fs in [20e9, 400e9]:
    gv(fs=fs)
    x = mk_signal(rng, 2 ** 8, 2, 'noise')
    for kL, vd, F, apo in itertools.product([0.1, 8], [1e-5, 1e-3], [0, -20, 20], ['uniform', 'gaussian']):
        if kL == 8 and vd == 1e-5 and fs == 400e9 and apo != 'uniform':
            continue
        tag = f'default print fs={fs:g} kL={kL} vd={vd} F={F} {apo}'
        try:
            with contextlib.redirect_stdout(io.StringIO()):
                y1 = FBG(x, fc=gv.f0, vdneff=vd, kL=kL, F=F, apodization=apo)
                y2 = FBG(x, fc=gv.f0, vdneff=vd, kL=kL, F=F, apodization=apo)
                y3, H3 = FBG(x, fc=gv.f0, vdneff=np.float64(vd), kL=(int(kL) if kL == 8 else np.float32(kL).astype(float)), F=int(F), apodization=apo, retH=True)
        except Exception as e:
            report('default call', tag, repr(e)); continue
        if not np.array_equal(y1.signal, y2.signal):
            report('repeated call', tag, 'second call differs')
        if not np.allclose(y1.signal, y3.signal, atol=1e-5 * np.abs(x.signal).max()):
            report('argument numeric type', tag, f'differs by {np.abs(y1.signal - y3.signal).max()}')
        if (np.abs(y1.signal) ** 2).sum() > (np.abs(x.signal) ** 2).sum() * (1 + TOL_H) ** 2:
            report('energy', tag, 'output energy above input energy')

# ---------------------------------------------------------------- 6. centre anywhere on the frequency grid (fc / landa_D)
for fs in [20e9, 400e9]:
    gv(fs=fs)
    for n in [2 ** 8, 2 ** 12]:
        x = mk_signal(rng, n, 2, 'noise')
        df = gv.fs / n
        for m in [-n // 2, -n // 2 + 1, -1, 1, n // 2 - 3, n // 2 - 2, n // 2 - 1]:
            for centre in ('fc', 'landa_D'):
                for ff in (True, False):
                    kL, vd = 1.0, 1e-3
                    fB = gv.f0 + m * df
                    kw = {centre: fB if centre == 'fc' else c / fB}
                    tag = f'fs={fs:g} n={n} Bragg on bin {n // 2 + m} of {n} via {centre} filtfilt={ff}'
                    try:
                        y, H = call(x, vdneff=vd, kL=kL, filtfilt=ff, **kw)
                    except Exception as e:
                        report('valid design computes (centre on the grid)', tag, repr(e)); continue
                    check_common(tag, x, y, H)
                    got = np.abs(H[n // 2 + m]) ** 2
                    if abs(got - np.tanh(kL) ** 2) > TOL_B:
                        report('Bragg reflectivity tanh^2 (off-centre)', tag, f'expected {np.tanh(kL) ** 2}, got {got}')

if viol:
    print(f'{len(viol)} violations')
    sys.exit(1)
print('PASS')
sys.exit(0)
