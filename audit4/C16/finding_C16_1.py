# FBG whose Bragg frequency lies on one of the two highest bins of the simulated band (or above the band)
# raises IndexError; the mirror-image design on the low side of the band works.
import sys; sys.path.pop(0)
import numpy as np, warnings
from opticomlib import gv, optical_signal
from opticomlib.devices import FBG
warnings.simplefilter('ignore')
gv(fs=100e9)
n = 256
x = optical_signal(np.ones(n))
df = gv.fs / n
_, Hlow = FBG(x, fc=gv.f0 - (n//2 - 1)*df, vdneff=1e-3, kL=1, print_params=False, retH=True)
print('centre on bin 1      : |H|^2 at Bragg =', abs(Hlow[1])**2, ' expected tanh(1)^2 =', np.tanh(1)**2)
try:
    _, Hhigh = FBG(x, fc=gv.f0 + (n//2 - 1)*df, vdneff=1e-3, kL=1, print_params=False, retH=True)
    print('centre on bin n-1    : |H|^2 at Bragg =', abs(Hhigh[n-1])**2)
except IndexError as e:
    print('centre on bin n-1    : expected |H|^2 =', np.tanh(1)**2, 'at the Bragg bin, got IndexError:', e)
    sys.exit(1)
print('OK')
