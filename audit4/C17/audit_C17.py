"""Audit of property C17 (GET_EYE recovers the levels of a clean two-level signal in any unit).

Prints one line per violated (clause, input); exit 1 if any, else PASS / exit 0.
Lines starting with INFO are sampling-limited observations (a level estimated from < 8 slots) and are not counted.
"""
import sys
del sys.path[0]
import time
import warnings
warnings.filterwarnings('ignore')
import numpy as np
from opticomlib import gv, electrical_signal
from opticomlib.devices import GET_EYE, LPF, DAC, PRBS

RS = 128
viol = []
info = []
ncalls = 0


def wave(bits, sps, sig_frac, seed, bw=0.75, filt='lib'):
    """unit NRZ waveform (levels 0/1), mildly band-limited, plus white Gaussian noise of std sig_frac"""
    gv(sps=sps, R=1e9)
    bits = np.asarray(bits, dtype=float)
    if filt == 'lib':      # the library's own chain: DAC + 4th order Bessel LPF at bw*R
        x = LPF(DAC(bits.astype(int), Vout=1.0), bw * 1e9).signal
    else:                  # periodic Gaussian filter, -3 dB at bw*R
        x = np.repeat(bits, sps)
        f = np.fft.fftfreq(x.size, 1 / sps)
        x = np.fft.ifft(np.fft.fft(x) * np.exp(-0.5 * np.log(2) * (f / bw) ** 2)).real
    return x + sig_frac * np.random.default_rng(seed).normal(0, 1, x.size)


def run(y, sps, seed=0, **kw):
    global ncalls
    ncalls += 1
    gv(sps=sps, R=1e9)
    np.random.seed(seed)
    return GET_EYE(y, sps_resamp=RS, **kw)


def clauses(e, a, b, sig_frac, sps, k0, k1, tag):
    """check every clause of the statement; k0/k1 = number of slots carrying level a / b in the analysed record"""
    d = b - a
    s = sig_frac * d
    out = []
    vals = dict(mu0=e.mu0, mu1=e.mu1, s0=e.s0, s1=e.s1, threshold=e.threshold, t_left=e.t_left, t_right=e.t_right, t_opt=e.t_opt, i=e.i)
    for k, v in vals.items():
        if v is None or not np.isfinite(v):
            out.append(('finite', f'{k}={v}'))
    if not out:
        for nm, v, ref, k in (('mu0', e.mu0, a, k0), ('mu1', e.mu1, b, k1)):
            err = abs(v - ref) / d
            if err > 0.08:
                # statistical clause: with k slots in the level the mean carries a sampling error sigma/sqrt(k); demand 6 sigma beyond the tolerance
                (out if err > 0.08 + 6 * sig_frac / np.sqrt(k) else info).append((nm, f'{nm} off by {(v-ref)/d:+.3f} (b-a), {k} slots in level'))
        for nm, v, k in (('s0', e.s0, k0), ('s1', e.s1, k1)):
            if not (s / 2 <= v <= 2 * s + 0.03 * d):
                (out if k >= 8 else info).append((nm, f'{nm}/sigma={v/s:.3f}, {k} slots in level'))
        if not (e.mu0 < e.threshold < e.mu1):
            out.append(('threshold', f'thr={(e.threshold-a)/d:.4f} mu0={(e.mu0-a)/d:.4f} mu1={(e.mu1-a)/d:.4f} (units of b-a above a)'))
        if abs((e.t_right - e.t_left) - 1) > 0.1:
            out.append(('t_dist', f't_right-t_left={e.t_right-e.t_left:.4f}'))
        if abs(e.t_opt - (e.t_left + e.t_right) / 2) > 1 / RS + 1e-12:
            out.append(('t_opt', f't_opt={e.t_opt} crossings {e.t_left},{e.t_right}'))
        if not (isinstance(e.i, (int, np.integer)) and not isinstance(e.i, bool) and 0 <= e.i < sps):
            out.append(('index', f'i={e.i!r}'))
    for c, msg in out:
        viol.append(f'VIOLATION [{c}] {tag}: {msg}')
        print(viol[-1], flush=True)


def case(bits, sps, sig_frac, a, b, seed=0, bw=0.75, filt='lib', tag='', container='ndarray'):
    bits = np.asarray(bits, dtype=int)
    N = min(bits.size, 4096)
    k1 = int(bits[:N].sum()); k0 = N - k1
    y = a + (b - a) * wave(bits, sps, sig_frac, seed, bw, filt)
    if container == 'es':
        y = electrical_signal(y)
    elif container == 'es+noise':
        gv(sps=sps, R=1e9)
        clean = a + (b - a) * wave(bits, sps, 0.0, seed, bw, filt)
        y = electrical_signal(clean, y - clean)
    elif container == 'list':
        y = list(y)
    full = f'{tag} N={bits.size} sps={sps} sigma={sig_frac} a={a} b={b} bw={bw} filt={filt} seed={seed} in={container} ones={k1}'
    try:
        e = run(y, sps, seed)
    except Exception as ex:
        viol.append(f'VIOLATION [exception] {full}: {type(ex).__name__}: {ex}')
        print(viol[-1], flush=True)
        return None
    clauses(e, a, b, sig_frac, sps, k0, k1, full)
    return e


t00 = time.time()
rng = np.random.default_rng(2024)
LEVELS = [(0.0, 1.0), (0.0, 1e-3), (1e-3, 2e-3), (-50.0, 50.0), (-100.0, 0.0), (5.0, 105.0), (-3e-4, 7e-4)]
SIGMAS = [0.005, 0.0051, 0.02, 0.0499, 0.05]

# ---------------------------------------------------------------- A. grid over the whole quantified domain
for sps in (8, 16, 32):
    for N in (64, 65, 66, 67, 127, 128):
        pats = {
            'rand0': rng.integers(0, 2, N), 'rand1': rng.integers(0, 2, N),
            'alt': np.arange(N) % 2, '0011': (np.arange(N) // 2) % 2, '1100': 1 - (np.arange(N) // 2) % 2,
            'half': (np.arange(N) >= N // 2).astype(int), 'three-quarters-ones': (np.arange(N) >= N // 4).astype(int),
            'prbs7': PRBS(7, len=N).data, 'prbs15': PRBS(15, len=N).data, 'prbs31-seed5': PRBS(31, len=N, seed=0x5A5A5A5).data,
        }
        for j, (name, bits) in enumerate(pats.items()):
            if bits.min() == bits.max():
                continue
            sf = SIGMAS[(j + N) % len(SIGMAS)]
            a, b = LEVELS[(j + N + sps) % len(LEVELS)]
            for filt in ('lib', 'circ'):
                case(bits, sps, sf, a, b, seed=j, filt=filt, tag='A:' + name, container=('ndarray', 'es', 'es+noise', 'list')[(j + N) % 4])
print(f'# A done {ncalls} calls {time.time()-t00:.0f}s', flush=True)

# ---------------------------------------------------------------- B. systematic extreme compositions at the shortest records
for sps, N in ((8, 64), (8, 65), (16, 64), (32, 65)):
    pos = range(N) if sps == 8 else (0, 1, N // 2, N - 2, N - 1)
    for p in pos:                       # a single 1 in zeros / a single 0 in ones, at every position
        one = np.zeros(N, int); one[p] = 1
        for inv in (0, 1):
            case(one ^ inv, sps, (0.005, 0.05)[p % 2], 0.0, 1.0, seed=p, filt=('lib', 'circ')[inv], tag=f'B:single{1-inv}@{p}')
    if sps == 8:
        for L in range(1, N):           # one run of L ones starting at slot 0 (two transitions, one of them at the wrap)
            case((np.arange(N) < L).astype(int), sps, (0.005, 0.05)[L % 2], -1.0, 1.0, seed=L, filt='circ', tag=f'B:run{L}')
        for per in range(1, N // 2 + 1):  # square waves of every half period
            case((np.arange(N) // per) % 2, sps, 0.02, 0.0, 100.0, seed=per, filt='lib', tag=f'B:square{per}')
        for k in (2, 3, 4, 8):          # k isolated ones / zeros
            for rep in range(3):
                bits = np.zeros(N, int); bits[rng.choice(N, k, replace=False)] = 1
                for inv in (0, 1):
                    case(bits ^ inv, sps, 0.05, 0.0, 1e-3, seed=rep, filt='lib', tag=f'B:{k}x{1-inv}')
print(f'# B done {ncalls} calls {time.time()-t00:.0f}s', flush=True)

# ---------------------------------------------------------------- C. long records: the nslots cap and sparse symbols
for N in (4095, 4096, 4097, 4160):
    case(rng.integers(0, 2, N), 8, 0.05, 0.0, 1.0, seed=1, filt='circ', tag='C:rand')
for sps, N, k, sf in ((8, 640, 1, 0.05), (8, 1024, 2, 0.05), (16, 2048, 4, 0.05), (8, 4096, 8, 0.05), (8, 4096, 2, 0.03), (8, 4096, 1, 0.02),
                      (8, 4096, 16, 0.05), (8, 4096, 64, 0.05), (8, 1024, 8, 0.05), (8, 4096, 1, 0.005)):
    for inv in (0, 1):
        bits = np.zeros(N, int); bits[np.linspace(N // 7, N - N // 5, k).astype(int)] = 1
        case(bits ^ inv, sps, sf, 0.0, 1.0, seed=3, filt='lib', tag=f'C:sparse{1-inv}')
print(f'# C done {ncalls} calls {time.time()-t00:.0f}s', flush=True)

# ---------------------------------------------------------------- D. equivariance under a change of units (same clustering seed)
for sps in (8, 16, 32):
    for N, name in ((64, 'rand'), (65, 'rand'), (64, 'single1'), (127, 'prbs7')):
        bits = {'rand': rng.integers(0, 2, N), 'single1': np.eye(1, N, 7, dtype=int)[0], 'prbs7': PRBS(7).data}[name]
        for sf in (0.005, 0.05):
            y = wave(bits, sps, sf, 9)
            e0 = run(y, sps, 4)
            for alpha in (1e-3, 1e3, 0.3, 7.77, 1 / 3, 999.9999, 1.0000001e-3):
                for beta in (0.0, -0.5 * alpha, 1.234, -100.0, 1e4 * alpha, -1e6 * alpha):
                    e1 = run(alpha * y + beta, sps, 4)
                    tag = f'D:{name} N={N} sps={sps} sigma={sf} alpha={alpha} beta={beta}'
                    for k in ('t_left', 't_right', 't_opt', 'i'):
                        if getattr(e0, k) != getattr(e1, k):
                            viol.append(f'VIOLATION [equivariance-timing] {tag}: {k} {getattr(e0,k)} -> {getattr(e1,k)}'); print(viol[-1], flush=True)
                    for k, off in (('mu0', beta), ('mu1', beta), ('s0', 0.0), ('s1', 0.0)):
                        exp, got = getattr(e0, k) * alpha + off, getattr(e1, k)
                        if not abs(exp - got) <= 1e-6 * alpha + 1e-9 * abs(beta):
                            viol.append(f'VIOLATION [equivariance-{k}] {tag}: expected {exp!r} got {got!r}'); print(viol[-1], flush=True)
print(f'# D done {ncalls} calls {time.time()-t00:.0f}s', flush=True)

# ---------------------------------------------------------------- E. argument types, repeated calls, input left untouched
bits = rng.integers(0, 2, 64)
y = wave(bits, 8, 0.02, 1)
ref = run(y, 8, 0)
key = lambda e: (e.mu0, e.mu1, e.s0, e.s1, e.threshold, e.t_left, e.t_right, e.t_opt, e.i)
for nm, fn in (('repeat', lambda: run(y, 8, 0)), ('tuple', lambda: run(tuple(y), 8, 0)), ('complex', lambda: run(y.astype(complex), 8, 0)),
               ('nslots=np.int64', lambda: run(y, 8, 0, nslots=np.int64(4096))), ('nslots=64', lambda: run(y, 8, 0, nslots=64))):
    try:
        if key(fn()) != key(ref):
            viol.append(f'VIOLATION [determinism] E:{nm}: result differs from the reference call'); print(viol[-1])
    except Exception as ex:
        viol.append(f'VIOLATION [exception] E:{nm}: {type(ex).__name__}: {ex}'); print(viol[-1])
for nm, arr in (('float32', y.astype(np.float32)), ('longdouble', y.astype(np.longdouble))):
    try:
        gv(sps=8, R=1e9); np.random.seed(0)
        e = GET_EYE(arr, sps_resamp=np.int64(RS))
        clauses(e, 0.0, 1.0, 0.02, 8, int(64 - bits.sum()), int(bits.sum()), f'E:{nm}')
    except Exception as ex:
        viol.append(f'VIOLATION [exception] E:{nm}: {type(ex).__name__}: {ex}'); print(viol[-1])
z = y.copy(); es = electrical_signal(z); run(es, 8, 0)
if not (np.array_equal(z, y) and np.array_equal(es.signal, y) and es.noise is None):
    viol.append('VIOLATION [purity] E: GET_EYE modified its input'); print(viol[-1])

print(f'# {ncalls} GET_EYE calls, {len(info)} sampling-limited observations (level estimated from < 8 slots, not counted), {time.time()-t00:.0f}s')
if viol:
    print(f'{len(viol)} violations')
    sys.exit(1)
print('PASS')
sys.exit(0)
