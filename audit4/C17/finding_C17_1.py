# C17: a random pattern with few marks (both symbols present, >= 64 slots, sigma = 5% of b-a) -> mu1 is returned ON THE ZERO LEVEL
import sys; del sys.path[0]
import numpy as np
from opticomlib import gv
from opticomlib.devices import GET_EYE, DAC, LPF
gv(sps=8, R=1e9)
rng = np.random.default_rng(1)
bits = (rng.random(4096) < 0.0015).astype(int)        # random bit pattern, mark density 0.15 %
a, b, sigma = 0.0, 1.0, 0.05                          # levels a < b, noise 5 % of b-a
y = a + (b - a) * LPF(DAC(bits, Vout=1.0), 0.75e9).signal + rng.normal(0, sigma * (b - a), bits.size * 8)
np.random.seed(0)                                     # fixed seed for the clustering step
e = GET_EYE(y, sps_resamp=128)
print(f'ones in record: {bits.sum()} of {bits.size} slots')
print(f'expected mu0 = {a} +- {0.08*(b-a)}, mu1 = {b} +- {0.08*(b-a)}')
print(f'got      mu0 = {e.mu0:.4f}, mu1 = {e.mu1:.4f}, s0 = {e.s0:.4f}, s1 = {e.s1:.4f}, threshold = {e.threshold:.4f}')
sys.exit(1 if abs(e.mu1 - b) > 0.08 * (b - a) or abs(e.mu0 - a) > 0.08 * (b - a) else 0)
