import sys, os
if sys.path and os.path.abspath(sys.path[0] or '.') == os.path.dirname(os.path.abspath(__file__)):
    del sys.path[0]
import warnings, itertools, math
from fractions import Fraction
import numpy as np
warnings.filterwarnings('ignore')
from opticomlib.devices import ADC
from opticomlib.utils import shortest_int
from opticomlib import electrical_signal

viol = []
lag_notes = []
seen = set()
def V(clause, desc, msg):
    key = (clause, desc.split('|')[0])
    if key in seen and len(viol) > 400:
        return
    seen.add(key)
    viol.append((clause, desc, msg))
    print(f"VIOLATION [{clause}] {desc}: {msg}", flush=True)

# ---------------------------------------------------------------- shortest_int
def check_si(data, p, desc):
    arr = np.asarray(data)
    N = len(arr)
    try:
        r = shortest_int(data, p)
    except Exception as e:
        V('SI.exception', desc, f'{type(e).__name__}: {e}')
        return
    try:
        lo, hi = r
    except Exception as e:
        V('SI.shape', desc, f'returned {r!r}')
        return
    s = np.sort(arr.astype(float) if arr.dtype.kind in 'iu' else arr)
    # lag: decimal reading and exact binary reading of p
    # lag = floor(p*len/100); p*len/100 within a few ulp below an integer may be read as that integer
    # (the product is evaluated in floating point) - counted in lag_notes, not as a violation
    r_exact = Fraction(p) * N / 100
    lag_bin = math.floor(r_exact)
    lags = {lag_bin, math.floor(r_exact * (1 + Fraction(1, 2**50)))}
    if len(lags) > 1: lag_notes.append(desc)
    if not (lo <= hi):
        V('SI.order', desc, f'lo={lo} hi={hi}')
    if lo not in s or hi not in s:
        V('SI.member', desc, f'lo={lo} hi={hi} not data values')
        return
    ok = False
    for lag in lags:
        if lag > N - 1:
            continue
        d = s[lag:] - s[:N - lag]
        m = d.min()
        # exists i with s[i]==lo and s[i+lag]==hi
        idx = np.where((s[:N - lag] == lo) & (s[lag:] == hi))[0]
        if len(idx) and (hi - lo) == m:
            ok = True
            cnt = np.count_nonzero((s >= lo) & (s <= hi))
            if cnt < lag + 1:
                V('SI.count', desc, f'interval holds {cnt} < lag+1={lag+1}')
    if not ok:
        V('SI.shortest', desc, f'lo={lo} hi={hi} width={hi-lo} lags={lags} not an order-statistic pair lag apart of minimal width')

rng = np.random.default_rng(1800)
# exhaustive: small quantised data sets, all lags
for N in range(2, 8):
    for data in itertools.product(range(3), repeat=N):
        for lag in range(0, N):
            # percentages giving this lag, a hair inside both ends of the lag's window
            for p in {(lag + 0.5) * 100 / N, np.nextafter(lag * 100 / N, 200) if lag else 1e-9, np.nextafter((lag + 1) * 100 / N, 0)}:
                p = float(p)
                if 0 < p < 100:
                    check_si(np.array(data, float), p, f'exh N={N} data={data} p={p!r}')
for N in range(2, 7):
    for data in itertools.product((-1.5, 0.0, 0.1, 0.1 + 2**-50), repeat=N):
        for lag in range(0, N):
            check_si(np.array(data), (lag + 0.5) * 100 / N, f'exhf N={N} data={data} lag={lag}')
# containers / dtypes
for cont in (list, tuple, np.array):
    for dt in (int, float, np.float32, np.int32, np.int64, np.uint16):
        for N in (2, 3, 5, 17, 100, 101):
            d = rng.integers(0, 5, N)
            dd = cont(np.asarray(d, dtype=dt).tolist()) if cont is not np.array else np.asarray(d, dtype=dt)
            for p in (1e-300, 1, 49.999, 50, 50.0, 99, 99.99, np.nextafter(100, 0)):
                check_si(dd, p, f'cont={cont.__name__} dt={np.dtype(dt).name} N={N} p={p!r}')
# extreme p for every length: lag must stay <= N-1
pmax = float(np.nextafter(100, 0))
for N in list(range(2, 5000)) + list(range(2**17 - 300, 2**17 + 1)) + [10**4, 10**4 + 1, 10**5]:
    lag = int(N * pmax / 100)
    if lag > N - 1:
        V('SI.lag', f'N={N} p={pmax!r}', f'lag={lag}')
for N in (2, 3, 9999, 10000, 10001, 20000, 20001, 2**17):
    for p in (pmax, 5e-324, 1e-3, 99.99, 50, 100 / 3, 100 * (1 - 1 / N), float(np.nextafter(100 * (1 - 1 / N), 0)), float(np.nextafter(100 / N, 0)), 100 / N):
        if not 0 < p < 100: continue
        for kind in ('gauss', 'q4', 'const', 'twolevel1'):
            if kind == 'gauss': d = rng.normal(size=N)
            elif kind == 'q4': d = rng.integers(0, 4, N).astype(float)
            elif kind == 'const': d = np.full(N, 0.3)
            else:
                d = np.zeros(N); d[N // 2] = 1
            check_si(d, p, f'big N={N} p={p!r} kind={kind}')
# random ties
for t in range(3000):
    N = int(rng.integers(2, 60))
    levels = int(rng.integers(1, 6))
    d = rng.integers(0, levels, N) * rng.choice([1.0, 0.1, 1e-12, 1e12, -0.7])
    p = float(rng.choice([rng.uniform(0, 100), rng.integers(1, 100), 100 * rng.integers(0, N) / N]))
    if 0 < p < 100:
        check_si(d, p, f'rnd t={t} N={N} p={p!r}')
# input not modified / not required sorted
d = np.array([3., 1., 2., 2., 0.]); d0 = d.copy(); shortest_int(d, 50)
if not np.array_equal(d, d0): V('SI.sideeffect', 'input array', 'modified in place')

# ---------------------------------------------------------------- ADC
def check_adc(x, n, desc, raw=None):
    raw = np.asarray(raw if raw is not None else x)
    N = len(raw)
    sig = raw.astype(float) if raw.dtype.kind in 'iu' else raw
    Vmin, Vmax = shortest_int(sig, 99.99)
    Vmin = float(Vmin); Vmax = float(Vmax)
    L = 2**int(n) - 1
    step = (Vmax - Vmin) / L
    eps = np.finfo(np.float32).eps if raw.dtype == np.float32 else 2.2e-16
    tol = 8 * eps * max(abs(Vmin), abs(Vmax), abs(Vmax - Vmin)) + 16 * eps * L * abs(step)
    outs = {}
    for ot in ('v', 'n'):
        try:
            y = ADC(x, n=n, otype=ot)
        except Exception as e:
            V(f'ADC.{ot}.exception', desc, f'{type(e).__name__}: {e}')
            continue
        ys = np.asarray(y.signal)
        outs[ot] = ys
        if y.noise is not None and np.any(np.asarray(y.noise) != 0):
            V(f'ADC.{ot}.noise', desc, 'output carries a noise component')
        if ys.shape != (N,):
            V(f'ADC.{ot}.length', desc, f'shape {ys.shape} != ({N},)')
            continue
        if not np.all(np.isfinite(ys.astype(float))):
            V(f'ADC.{ot}.finite', desc, 'non-finite output')
            continue
        nd = len(np.unique(ys))
        if nd > 2**int(n):
            V(f'ADC.{ot}.levels', desc, f'{nd} distinct values > {2**int(n)}')
        inside = (sig >= Vmin) & (sig <= Vmax)
        if ot == 'n':
            if ys.dtype.kind not in 'iu' and not np.all(ys == np.round(ys)):
                V('ADC.n.integer', desc, f'non-integer codes dtype={ys.dtype}')
            if ys.min() < 0 or ys.max() > L:
                V('ADC.n.range', desc, f'codes in [{ys.min()},{ys.max()}] outside [0,{L}]')
            if np.any(ys[sig > Vmax] != L):
                V('ADC.n.sat_hi', desc, f'samples above V_max got codes {np.unique(ys[sig > Vmax])} != {L}')
            if np.any(ys[sig < Vmin] != 0):
                V('ADC.n.sat_lo', desc, f'samples below V_min got codes {np.unique(ys[sig < Vmin])} != 0')
            if step > 0:
                rec = ys * step + Vmin
                err = np.abs(rec - sig)[inside]
                if err.size and err.max() > step / 2 + tol:
                    k = np.argmax(np.abs(rec - sig) * inside)
                    V('ADC.n.halfstep', desc, f'sample {sig[k]!r} -> code {ys[k]} moved {err.max()/step:.6f} steps')
                # end points of the range get the end codes
                if np.any(ys[sig == Vmin] != 0) or np.any(ys[sig == Vmax] != L):
                    V('ADC.n.ends', desc, 'V_min / V_max samples not mapped on the end codes')
        else:
            if ys.min() < Vmin - tol or ys.max() > Vmax + tol:
                V('ADC.v.range', desc, f'values [{ys.min()!r},{ys.max()!r}] outside [{Vmin!r},{Vmax!r}]')
            elif ys.min() < Vmin or ys.max() > Vmax:
                ulp_notes.append((desc, ys.max() - Vmax, ys.min() - Vmin))
            if step > 0:
                err = np.abs(ys - sig)[inside]
                if err.size and err.max() > step / 2 + tol:
                    V('ADC.v.halfstep', desc, f'inside sample moved {err.max()/step:.6f} steps')
            if np.any(np.abs(ys[sig > Vmax] - Vmax) > tol) or np.any(np.abs(ys[sig < Vmin] - Vmin) > tol):
                V('ADC.v.sat', desc, 'outside samples not at the end levels')
    if len(outs) == 2 and outs['v'].shape == (N,) and outs['n'].shape == (N,):
        rec = outs['n'] * step + Vmin
        if np.max(np.abs(rec - outs['v'])) > tol:
            V('ADC.consistency', desc, "otype='v' is not codes*step+V_min")
        # monotone
        o = np.argsort(sig, kind='stable')
        if np.any(np.diff(outs['n'][o]) < 0):
            V('ADC.monotone', desc, 'codes not monotone in the input')

ulp_notes = []
def gens(N, rng):
    t = np.arange(N)
    yield 'gauss', rng.normal(size=N)
    yield 'gauss_off', 5 + 0.01 * rng.normal(size=N)
    yield 'unif', rng.uniform(-1, 1, N)
    yield 'unif_pos', rng.uniform(0.1, 0.3, N)
    yield 'sine', np.sin(2 * np.pi * t * 3.3 / max(N, 2))
    yield 'sine_fast', 0.3 * np.sin(2 * np.pi * t * 0.123) - 0.1
    yield 'q2', rng.integers(0, 2, N).astype(float)
    yield 'q4', rng.integers(0, 4, N) / 3.0
    yield 'q16int', rng.integers(-8, 8, N)
    yield 'const', np.full(N, 0.7)
    yield 'zeros', np.zeros(N)
    a = np.zeros(N); a[N // 2] = 1
    yield 'single1', a
    yield 'single0', 1 - a
    a = np.zeros(N); a[0] = -3; a[-1] = 4
    yield 'ends_out', a
    a = rng.normal(size=N); a[0] = 1e6; a[-1] = -1e6
    yield 'gauss_outl', a
    a = rng.integers(0, 2, N).astype(float); a[N // 3] = 1e300
    yield 'q2_huge', a
    yield 'ramp', np.linspace(-1, 1, N)
    yield 'ramp_int', np.arange(N)
    yield 'tiny', 1e-200 * rng.normal(size=N)
    yield 'big', 1e100 * rng.normal(size=N)

lengths = [2, 3, 4, 5, 7, 16, 17, 100, 101, 4095, 4096, 4097, 9999, 10000, 10001, 10002, 19999, 20000, 20001, 30001, 2**16 + 1, 2**17 - 1, 2**17]
for N in lengths:
    ns = range(1, 13) if N <= 20001 else (1, 2, 7, 8, 11, 12)
    for name, x in gens(N, np.random.default_rng(N)):
        for n in ns:
            check_adc(x, n, f'{name} N={N} n={n}')
# exhaustive small: every 0/1/2 signal of length 2..7, n 1..3 (+12)
for N in range(2, 8):
    for data in itertools.product((0.0, 0.5, 1.0), repeat=N):
        for n in (1, 2, 3, 12):
            check_adc(np.array(data), n, f'exh data={data} n={n}')
# samples exactly on decision boundaries (half steps) and on the range ends
for n in range(1, 13):
    L = 2**n - 1
    x = np.concatenate([np.arange(0, 2 * L + 1) / 2.0, [0, L]])  # half-integer grid, range [0,L]
    check_adc(x, n, f'halfgrid n={n}')
    check_adc(x * 0.1 - 0.05, n, f'halfgrid scaled n={n}')
# containers and dtypes, numpy-int n
rng = np.random.default_rng(7)
for N in (2, 17, 10001):
    base = rng.normal(size=N)
    q = rng.integers(0, 6, N)
    for n in (1, 8, 12, np.int64(8), np.int32(12), 8.0):
        check_adc(electrical_signal(base), n, f'esig N={N} n={n!r}', raw=base)
        nz = 0.1 * rng.normal(size=N)
        check_adc(electrical_signal(base, nz), n, f'esig+noise N={N} n={n!r}', raw=base + nz)
        check_adc(base.astype(np.float32), n, f'f32 N={N} n={n!r}')
        check_adc((1000 + base).astype(np.float32), n, f'f32off N={N} n={n!r}')
        check_adc(q.astype(np.int64), n, f'i64 N={N} n={n!r}')
        check_adc(q.astype(np.int32) - 3, n, f'i32 N={N} n={n!r}')
        check_adc(list(base), n, f'list N={N} n={n!r}', raw=base)
        check_adc(list(map(int, q)), n, f'intlist N={N} n={n!r}', raw=q)
        check_adc(electrical_signal(q), n, f'esig int N={N} n={n!r}', raw=q)
        check_adc(base.astype(np.float16), n, f'f16 N={N} n={n!r}')
        check_adc(base.astype(np.longdouble), n, f'f80 N={N} n={n!r}', raw=base)
        check_adc(base[::-1][::1], n, f'negstride N={N}', raw=base[::-1])
# input unchanged, repeated call identical
x = rng.normal(size=1000); x0 = x.copy()
y1 = ADC(x, n=3).signal; y2 = ADC(x, n=3).signal
if not np.array_equal(x, x0): V('ADC.sideeffect', 'ndarray input', 'modified')
if not np.array_equal(y1, y2): V('ADC.repeat', 'repeated call', 'differs')
e = electrical_signal(x, 0.1 * x); s0 = e.signal.copy(); n0 = e.noise.copy(); ADC(e, n=3, otype='n')
if not (np.array_equal(e.signal, s0) and np.array_equal(e.noise, n0)): V('ADC.sideeffect', 'electrical_signal input', 'modified')

if lag_notes:
    print(f"note: {len(lag_notes)} shortest_int cases had p*len/100 within 2^-50 (relative) below an integer; either lag accepted")
if ulp_notes:
    mx = max(max(abs(a), abs(b)) for _, a, b in ulp_notes)
    print(f"note: otype='v' end level differs from V_min/V_max by rounding only in {len(ulp_notes)} cases (max {mx:.3g}, within tolerance)")
if viol:
    print(f'{len(viol)} violations')
    sys.exit(1)
print('PASS')
