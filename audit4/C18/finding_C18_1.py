# ADC on a half-precision (float16) record: the scaling to codes is done in float16
# (spacing 2 near 4095), so samples INSIDE the range move by several quantisation steps.
import sys; del sys.path[0]
import numpy as np, warnings; warnings.filterwarnings('ignore')
from opticomlib.devices import ADC
from opticomlib.utils import shortest_int
x = np.random.default_rng(0).normal(size=20001).astype(np.float16)   # a real signal, 20001 samples
n = 12
lo, hi = map(float, shortest_int(x, 99.99)); step = (hi - lo) / (2**n - 1)
codes = ADC(x, n=n, otype='n').signal
xs = x.astype(float); inside = (xs >= lo) & (xs <= hi)
moved = np.max(np.abs(codes * step + lo - xs)[inside]) / step
same = np.max(np.abs(ADC(xs, n=n, otype='n').signal - codes))       # same values given as float64
print(f'expected: inside samples move <= 0.5 step; got {moved:.3f} steps '
      f'(codes differ by up to {same} from those of the same values in float64)')
sys.exit(1 if moved > 0.5001 else 0)
