import sys, os
if sys.path and os.path.abspath(sys.path[0] or '.') == os.path.dirname(os.path.abspath(__file__)):
    del sys.path[0]
import itertools, math, warnings, re
import numpy as np
from fractions import Fraction
import opticomlib
from opticomlib.utils import db, dbm, idb, idbm, Q, gaus, rcos, dec2bin, str2array, si

warnings.simplefilter('ignore')
V = []
def bad(clause, inp, msg):
    V.append((clause, inp, msg))
    print(f'VIOLATION [{clause}] input={inp!r}: {msg}')

def close(a, b, rtol=1e-12, atol=0.0):
    return np.allclose(a, b, rtol=rtol, atol=atol)

rng = np.random.default_rng(19)

# ---------------------------------------------------------------- db / dbm
exps = np.concatenate([np.linspace(-15, 15, 601), rng.uniform(-15, 15, 2000)])
xs = 10.0**exps
xs = np.concatenate([xs, [1.0, np.nextafter(1, 0), np.nextafter(1, 2), 1e-15, 1e15, 2.0, 0.5, 10.0, 0.1]])
containers = [lambda a: a, lambda a: list(a), lambda a: tuple(a), lambda a: a.reshape(-1, 1),
              lambda a: a[:1], lambda a: a[:2], lambda a: np.float64(a[0]), lambda a: float(a[0])]
for ci, mk in enumerate(containers):
    for arr in (xs, xs[::-1].copy(), xs[5:6], xs[-9:]):
        x = mk(arr)
        xa = np.asarray(x, dtype=float)
        try:
            if not close(idb(db(x)), xa, 1e-12): bad('idb(db(x))=x', (ci, xa.ravel()[:3]), 'mismatch')
            if not close(idbm(dbm(x)), xa, 1e-12): bad('idbm(dbm(x))=x', (ci, xa.ravel()[:3]), 'mismatch')
            if not close(dbm(x), db(x) + 30, 0, 1e-11): bad('dbm=db+30', (ci, xa.ravel()[:3]), 'mismatch')
            if np.shape(db(x)) != np.shape(xa): bad('db shape', ci, f'{np.shape(db(x))} vs {np.shape(xa)}')
            if np.shape(idb(x)) != np.shape(xa): bad('idb shape', ci, f'{np.shape(idb(x))}')
        except Exception as e:
            bad('db/dbm round trip', (ci, xa.ravel()[:3]), f'{type(e).__name__}: {e}')
# scalars one by one (python float, python int, np.float64)
for x in list(xs[::7]) + [1, 2, 10, 1000, 10**15, 7]:
    for conv in (float, np.float64) if not isinstance(x, int) else (int, float):
        xx = conv(x)
        try:
            if not math.isclose(float(idb(db(xx))), float(x), rel_tol=1e-12): bad('idb(db(x))=x scalar', xx, idb(db(xx)))
            if not math.isclose(float(idbm(dbm(xx))), float(x), rel_tol=1e-12): bad('idbm(dbm(x))=x scalar', xx, idbm(dbm(xx)))
            if abs(float(dbm(xx)) - float(db(xx)) - 30) > 1e-11: bad('dbm=db+30 scalar', xx, (dbm(xx), db(xx)))
        except Exception as e:
            bad('db scalar', xx, f'{type(e).__name__}: {e}')
# exact anchors
for xx, d in [(1, 0.0), (10, 10.0), (100, 20.0), (0.1, -10.0), (1e-15, -150.0), (1e15, 150.0), (1000, 30.0)]:
    if abs(db(xx) - d) > 1e-12: bad('db anchor', xx, db(xx))
    if abs(dbm(xx) - d - 30) > 1e-12: bad('dbm anchor', xx, dbm(xx))
# integer arrays of every dtype
for dt in (np.uint8, np.int8, np.uint16, np.int32, np.int64, np.uint64, np.float32, np.float64):
    a = np.array([1, 2, 3, 100, 127], dtype=dt)
    tol = 1e-5 if dt == np.float32 else 1e-12  # float32 input carries float32 precision
    try:
        if not close(idb(db(a)), a.astype(float), tol): bad('idb(db) int dtype', dt.__name__, idb(db(a)))
        if not close(idbm(dbm(a)), a.astype(float), tol): bad('idbm(dbm) int dtype', dt.__name__, idbm(dbm(a)))
        if not close(dbm(a), db(a) + 30, 0, 1e-5 if dt == np.float32 else 1e-11): bad('dbm=db+30 int dtype', dt.__name__, dbm(a))
    except Exception as e:
        bad('db int dtype', dt.__name__, f'{type(e).__name__}: {e}')
# product rule
x = 10.0**rng.uniform(-15, 15, 5000); y = 10.0**rng.uniform(-15, 15, 5000)
if not close(db(x*y), db(x) + db(y), 0, 1e-11): bad('db(xy)=db x+db y', 'random', 'mismatch')
for a, b in itertools.product([1e-15, 1e-3, 1, 2, 1e15], repeat=2):
    if abs(db(a*b) - db(a) - db(b)) > 1e-11: bad('db(xy) scalar', (a, b), db(a*b))
    if abs(db([a*b])[0] - db([a])[0] - db((b,))[0]) > 1e-11: bad('db(xy) list', (a, b), db([a*b]))
# reverse compositions
ys = np.concatenate([np.linspace(-300, 300, 1201), rng.uniform(-300, 300, 3000), [-300, 300, 0, -0.0, np.nextafter(300, 0), np.nextafter(-300, 0)]])
for mk in (lambda a: a, list, tuple, lambda a: a.reshape(1, -1), lambda a: a.astype(np.float64)[:1]):
    yy = mk(ys)
    ya = np.asarray(yy, float)
    try:
        if not close(db(idb(yy)), ya, 0, 1e-10): bad('db(idb(y))=y', 'grid', np.max(np.abs(db(idb(yy)) - ya)))
        if not close(dbm(idbm(yy)), ya, 0, 1e-10): bad('dbm(idbm(y))=y', 'grid', np.max(np.abs(dbm(idbm(yy)) - ya)))
    except Exception as e:
        bad('reverse composition', 'grid', f'{type(e).__name__}: {e}')
for yv in [-300, 300, 0, -1, 1, 3, -30, 30, 299, -299, -300.0, 300.0, np.float64(-300), np.float64(300), 0.5, -0.5, 1e-300, 1e-9]:
    try:
        if abs(float(db(idb(yv))) - yv) > 1e-10: bad('db(idb(y))=y scalar', yv, db(idb(yv)))
        if abs(float(dbm(idbm(yv))) - yv) > 1e-10: bad('dbm(idbm(y))=y scalar', yv, dbm(idbm(yv)))
    except Exception as e:
        bad('reverse composition scalar', yv, f'{type(e).__name__}: {e}')
for dt in (np.int8, np.int16, np.int32, np.int64):
    a = np.array([-100, -30, -1, 0, 1, 30, 100], dtype=dt)
    if not close(db(idb(a)), a.astype(float), 0, 1e-10): bad('db(idb(y)) int dtype', dt.__name__, db(idb(a)))
    if not close(dbm(idbm(a)), a.astype(float), 0, 1e-10): bad('dbm(idbm(y)) int dtype', dt.__name__, dbm(idbm(a)))
    if not close(idbm(a), idb(a) * 1e-3, 1e-12): bad('idbm=idb/1000', dt.__name__, idbm(a))
# negatives raise ValueError
negs = [-1, -1.0, -1e-300, -5e-324, -1e300, np.float64(-2.0), [-1], [1, -1], (1.0, -1e-30), np.array([1, 2, -3]),
        np.array([[1.0, 2.0], [3.0, -1e-20]]), np.array(-1.0), np.array([-1], dtype=np.int8), [0, -1], [-np.inf], -np.inf,
        np.array([1.0, -0.5], dtype=np.float32), [[1, 1], [1, -1]], (-1,), np.array([-1.0])[0]]
for f in (db, dbm):
    for n in negs:
        try:
            r = f(n)
            bad(f'{f.__name__} negative raises ValueError', n, f'returned {r!r}')
        except ValueError:
            pass
        except Exception as e:
            bad(f'{f.__name__} negative raises ValueError', n, f'{type(e).__name__}: {e}')
    # positives (and zero) do not raise
    for p in [1e-300, 5e-324, 1, [1, 2], (3.0,), np.array([[1.0]]), 1e300 if f is db else 1e300]:
        try: f(p)
        except Exception as e: bad(f'{f.__name__} positive accepted', p, f'{type(e).__name__}: {e}')
# repeated calls do not alter input
a = np.array([1.0, 2.0, 4.0]); a0 = a.copy()
for f in (db, dbm, idb, idbm, Q, gaus): f(a); f(a)
if not np.array_equal(a, a0): bad('inputs unchanged', 'array', a)

# ---------------------------------------------------------------- Q
g = np.concatenate([np.linspace(-40, 40, 160001), rng.normal(0, 5, 5000), [0.0, -0.0, 1e-300, -1e-300, 38.5, -38.5]])
for mk in (lambda a: a, list, lambda a: a.reshape(-1, 1), lambda a: a[:1]):
    gg = mk(g); ga = np.asarray(gg, float)
    s = Q(gg) + Q(-ga)
    if not close(s, 1.0, 0, 1e-15): bad('Q(x)+Q(-x)=1', 'grid', np.max(np.abs(s - 1)))
for xv in [0, 0.0, -0.0, np.float64(0), [0], (0,), np.array([0]), np.array(0), np.zeros((2, 2)), np.array([0], dtype=np.uint8), False]:
    if not np.all(np.asarray(Q(xv)) == 0.5): bad('Q(0)=1/2', xv, Q(xv))
gs = np.sort(g)
q = Q(gs)
d = np.diff(q)
if np.any(d > 1e-16): bad('Q decreasing', gs[:-1][d > 1e-16][:3], d[d > 1e-16][:3])
inner = np.linspace(-8, 8, 32001)
if np.any(np.diff(Q(inner)) > 0):
    k = np.where(np.diff(Q(inner)) > 0)[0]
    # scipy erfc ulp-level wiggles tolerated below 2e-16 relative
    rel = np.diff(Q(inner))[k] / Q(inner)[k]
    if np.any(rel > 4e-16): bad('Q strictly decreasing on [-8,8]', inner[k][:3], rel[:3])
for xv in [1, 2, 3, -1, 5]:
    if not math.isclose(float(Q(xv)), 0.5*math.erfc(xv/math.sqrt(2)), rel_tol=1e-13): bad('Q value', xv, Q(xv))
    if not math.isclose(float(Q(np.array([xv], dtype=np.int8))[0]), 0.5*math.erfc(xv/math.sqrt(2)), rel_tol=1e-13): bad('Q value int8', xv, Q(np.array([xv], dtype=np.int8)))
if np.any(Q(g) < 0) or np.any(Q(g) > 1): bad('Q in [0,1]', 'grid', '')

# ---------------------------------------------------------------- gaus
from scipy.integrate import quad
for mu, std in itertools.product([None, 0, 0.0, -3, 2.5, 1e6, -1e-6, 1, np.float64(0.3)], [None, 1, 1.0, 2, 1e-9, 1e9, 0.37, 3, np.float64(2.0)]):
    m = 0 if mu is None else float(mu); s = 1 if std is None else float(std)
    xg = np.linspace(m - 12*s, m + 12*s, 48001)
    try:
        I = np.trapz(gaus(xg, mu, std), xg)
        if abs(I - 1) > 1e-9: bad('gaus integrates to one', (mu, std), I)
        I2 = np.trapz(gaus(list(xg[::16]), mu, std), xg[::16])
        if abs(I2 - 1) > 1e-9: bad('gaus integrates to one (list)', (mu, std), I2)
        if abs(m) > 1e5*s: continue
        I3, err = quad(lambda t: float(gaus(t, mu, std)), m - 12*s, m + 12*s, points=[m], epsabs=1e-12, epsrel=1e-12)
        if abs(I3 - 1) > 1e-8: bad('gaus integrates to one (scalar quad)', (mu, std), I3)
        pk = gaus(m if mu is not None else 0, mu, std)
        if not math.isclose(float(pk), 1/(s*math.sqrt(2*math.pi)), rel_tol=1e-12): bad('gaus peak', (mu, std), pk)
    except Exception as e:
        bad('gaus', (mu, std), f'{type(e).__name__}: {e}')
# keyword / positional default forms and integer grids
xi = np.arange(-40, 41)
for kw in [dict(), dict(mu=0), dict(std=1), dict(mu=0, std=1), dict(mu=None, std=None), dict(mu=3), dict(mu=3, std=2), dict(std=4)]:
    for dt in (np.int64, np.int32, np.int16, float):  # int8 squares wrap: known
        I = np.sum(gaus(xi.astype(dt), **kw))  # unit spacing; for std >= 1 the Riemann sum is 1 to 1e-8
        if abs(I - 1) > 1e-7: bad('gaus integrates to one (integer grid)', (kw, dt.__name__), I)
if gaus(0) != gaus(0, 0, 1) or gaus(0.0, None, None) != gaus(0, 0, 1): bad('gaus defaults', 0, gaus(0))

# ---------------------------------------------------------------- rcos
alphas = [0, 0.0, 1e-6, 1e-3, 0.01, 0.1, 0.25, 1/3, 0.5, 0.75, 0.9, 0.99, 1 - 1e-12, 1, 1.0, np.float64(0.5)]
Ts = [1, 1.0, 2, 3, 0.5, 1e-9, 1e-12, 1e3, 7, 1/3, np.float64(2.0), 1e-10, 2.5e-11]
for al, T in itertools.product(alphas, Ts):
    a = float(al); t = float(T)
    edge1 = (1 - a)/(2*t); edge2 = (1 + a)/(2*t); half = 1/(2*T)
    pts = np.concatenate([np.linspace(-2/t, 2/t, 4001), [0, half, -half, edge1, -edge1, edge2, -edge2,
                          np.nextafter(edge2, np.inf), np.nextafter(edge2, 0), np.nextafter(edge1, np.inf), np.nextafter(edge1, 0),
                          np.nextafter(half, np.inf), np.nextafter(half, 0), 10/t, -10/t, 1e6/t]])
    try:
        for form, mk in (('ndarray', lambda p: p), ('list', list), ('tuple', tuple), ('2d', lambda p: p.reshape(1, -1)), ('len1', lambda p: p[:1])):
            H = rcos(mk(pts), al, T)
            Hn = rcos(mk(-pts), al, T)
            pp = np.asarray(mk(pts))
            if np.shape(H) != np.shape(pp): bad('rcos shape', (al, T, form), np.shape(H)); continue
            if np.any(H < 0) or np.any(H > 1) or np.any(~np.isfinite(H)): bad('rcos in [0,1]', (al, T, form), (H.min(), H.max()))
            if not np.array_equal(H, Hn): bad('rcos even', (al, T, form), '')
            if np.any(H[np.abs(pp) > edge2] != 0): bad('rcos vanishes beyond (1+alpha)/(2T)', (al, T, form), H[np.abs(pp) > edge2].max())
            if np.any(H[np.abs(pp) <= np.nextafter(edge1, 0)] != 1) and a < 1: bad('rcos flat top', (al, T, form), '')
        Hs = np.array([rcos(float(p), al, T) for p in pts])
        Hs2 = np.array([rcos(np.float64(p), al, T) for p in pts])
        Ha = rcos(pts, al, T)
        if not np.allclose(Hs, Ha, rtol=0, atol=1e-15) or not np.allclose(Hs2, Ha, rtol=0, atol=1e-15):
            k = np.argmax(np.abs(Hs - Ha)); bad('rcos scalar == array', (al, T, pts[k]), (Hs[k], Ha[k]))
        for p in pts[-16:]:
            if rcos(float(p), al, T) != rcos(-float(p), al, T): bad('rcos even scalar', (al, T, p), '')
        if a > 0:
            tol = 1e-9 if a >= 1e-3 else 1e-5
            for xv in (half, -half, float(half), [half], (half, -half), np.array([half]), np.array([[half]])):
                r = np.asarray(rcos(xv, al, T), float)
                if np.any(np.abs(r - 0.5) > tol): bad('rcos(1/(2T))=1/2', (al, T, xv), r)
    except Exception as e:
        bad('rcos', (al, T), f'{type(e).__name__}: {e}')
# integer x (scalar and typed arrays) at integer band edges: T = 1/4 -> 1/(2T) = 2
for al in (0.5, 1, 0.25, 1.0):
    for xv in (2, -2):
        if abs(rcos(xv, al, 0.25) - 0.5) > 1e-12: bad('rcos(1/(2T))=1/2 int scalar', (al, xv), rcos(xv, al, 0.25))
    for dt in (np.int8, np.int16, np.int32, np.int64, np.uint8):
        xa = np.array([0, 1, 2, 3, 4, 5], dtype=dt)
        r = rcos(xa, al, 0.25); ref = rcos(xa.astype(float), al, 0.25)
        if not np.allclose(r, ref, atol=1e-15): bad('rcos integer array', (al, dt.__name__), r)
        if abs(r[2] - 0.5) > 1e-12: bad('rcos(1/(2T))=1/2 int array', (al, dt.__name__), r)
    r = rcos([0, 1, 2, 3, 4, 5], al, 0.25)
    if abs(r[2] - 0.5) > 1e-12: bad('rcos(1/(2T))=1/2 int list', al, r)

# ---------------------------------------------------------------- dec2bin
for d in range(0, 17):
    for v in range(0, 2**d):
        try:
            b = dec2bin(v, d)
        except Exception as e:
            bad('dec2bin expansion', (v, d), f'{type(e).__name__}: {e}'); continue
        exp = [int(c) for c in format(v, f'0{d}b')] if d else []
        if len(b) != d or list(map(int, b)) != exp: bad('dec2bin expansion', (v, d), b); break
    for v in (2**d, 2**d + 1, 2**(d+1), 2**17, 10**6, 2**40, 2**64):
        try:
            b = dec2bin(v, d); bad('dec2bin too large raises', (v, d), b)
        except ValueError: pass
        except Exception as e: bad('dec2bin too large raises', (v, d), f'{type(e).__name__}: {e}')
# default digits and keyword form, repeated call independence
for v in (0, 1, 5, 255):
    if list(dec2bin(v)) != [int(c) for c in format(v, '08b')]: bad('dec2bin default digits', v, dec2bin(v))
    if list(dec2bin(num=v, digits=9)) != [int(c) for c in format(v, '09b')]: bad('dec2bin kw', v, dec2bin(num=v, digits=9))
try:
    dec2bin(256); bad('dec2bin too large raises', 256, 'no raise')
except ValueError: pass
b1 = dec2bin(5, 4); b1[:] = 1
if list(dec2bin(5, 4)) != [0, 1, 0, 1]: bad('dec2bin fresh output', (5, 4), dec2bin(5, 4))
# python float integral values / numpy wide ints (documented as int -> accept if not TypeError)
for d in (1, 2, 8, 15, 16):
    for v in {0, 1, 2**d - 1, 2**(d-1), (2**d)//3}:
        for conv in (np.int64, np.uint64, np.int32, np.uint32):
            try:
                b = dec2bin(conv(v), d)
                if list(map(int, b)) != [int(c) for c in format(v, f'0{d}b')]: bad('dec2bin numpy int', (conv.__name__, v, d), b)
            except TypeError: pass
            except Exception as e: bad('dec2bin numpy int', (conv.__name__, v, d), f'{type(e).__name__}: {e}')
            try:
                dec2bin(conv(2**d), d); bad('dec2bin numpy int too large raises', (conv.__name__, 2**d, d), 'no raise')
            except (ValueError, TypeError): pass
            except Exception as e: bad('dec2bin numpy int too large', (conv.__name__, d), f'{type(e).__name__}: {e}')

# ---------------------------------------------------------------- str2array
def fmt_num(v, kind, style):
    if kind == 'int':
        return ('%+d' % v) if style == 'plus' else str(int(v))
    if kind == 'float':
        if style == 'repr': return np.format_float_positional(float(v), trim='0')
        if style == 'f3': return '%.3f' % v
        if style == 'f12': return '%.12f' % v
        if style == 'plus': return '%+.6f' % v
        if style == 'nolead':
            s = '%.4f' % v
            return s.replace('0.', '.', 1) if abs(v) < 1 else s
        if style == 'trail': return ('%.0f' % v) + '.'
    if kind == 'complex':
        re_, im_ = v.real, v.imag
        u = style[-1]
        if style.startswith('f'): return f'{re_:.4f}{im_:+.4f}{u}'
        if style.startswith('r'): return np.format_float_positional(re_, trim='0') + np.format_float_positional(im_, trim='0', sign=True) + u
        if style.startswith('d'): return f'{int(re_)}{int(im_):+d}{u}'
        if style.startswith('p'): return np.format_float_positional(im_, trim='0') + u  # pure imaginary
    raise AssertionError

def value_of(tok, kind):
    if kind == 'int': return int(tok)
    if kind == 'float': return float(tok)
    return complex(tok.replace('i', 'j'))

col_seps = [' ', ',', ', ', '  ', ' , ', ',  ']
row_seps = [';', '; ', ' ; ', ' ;']
shapes = [(n,) for n in range(1, 7)] + [(r, c) for r in (2, 3) for c in range(1, 7)]
pools = {
    'int': [0, 1, 2, -1, -2, 7, 10, 11, 99, -100, 12345, -2**31, 2**31 - 1, 2**53, -2**62, 2**63 - 1, -2**63, 5, 3, 20, 101, 1000],
    'float': [0.0, 1.0, -1.0, 0.5, -0.25, 3.141592653589793, 1e-9, 123456.789, -0.001, 10.0, 2.0, 1e12, -7.5, 0.1, 1/3, 100.0, 1e-12],
    'complex': [0j, 1+2j, -1-1j, 3-4j, 0.5+0.25j, -2j, 1j, 1+0j, 10-10j, 1e3+1e-3j, -0.5+7j, 2+2j],
}
styles = {'int': ['plain', 'plus'], 'float': ['repr', 'f3', 'f12', 'plus', 'nolead', 'trail'], 'complex': ['fj', 'fi', 'rj', 'ri', 'dj', 'di', 'pj', 'pi']}
nfail = 0
for kind in ('int', 'float', 'complex'):
    for style in styles[kind]:
        for shape in shapes:
            n = int(np.prod(shape))
            for trial in range(6):
                pool = pools[kind]
                if trial == 0: vals = [pool[i % len(pool)] for i in range(n)]
                elif trial == 1: vals = [pool[-1 - (i % len(pool))] for i in range(n)]
                elif trial == 2 and kind == 'int': vals = [0]*(n - 1) + [2]       # a single non-bit among bits
                elif trial == 3 and kind == 'int': vals = [-1] + [1]*(n - 1)      # only a sign differs from a bit pattern
                elif trial == 2 and kind == 'float': vals = [1.0]*(n - 1) + [0.0]
                elif trial == 2 and kind == 'complex': vals = [1+1j]*n
                else: vals = list(rng.choice(np.array(pool, dtype=object), n))
                toks = [fmt_num(v, kind, style) for v in vals]
                expect = np.array([value_of(t, kind) for t in toks], dtype={'int': np.int64, 'float': float, 'complex': complex}[kind]).reshape(shape)
                for cs in col_seps:
                    for rs in (row_seps if len(shape) == 2 else [None]):
                        if len(shape) == 1: text = cs.join(toks)
                        else: text = rs.join(cs.join(toks[r*shape[1]:(r+1)*shape[1]]) for r in range(shape[0]))
                        bits_only = re.fullmatch(r'[01,;\s]+', text) is not None
                        for dtype in (None, int, float, complex, np.int64, np.float64, np.complex128, np.float32, np.int32, bool):
                            if kind == 'complex' and dtype in (int, float, np.int64, np.float64, np.float32, np.int32): continue
                            if kind == 'float' and dtype in (int, np.int64, np.int32) and np.any(np.abs(expect) > 2**31 - 1): continue
                            if kind == 'int' and dtype == np.int32 and np.any(np.abs(expect) > 2**31 - 1): continue
                            if bits_only and (dtype is None or dtype is bool):
                                digits = [[int(c) for c in row if c in '01'] for row in text.split(';')]
                                if len({len(r_) for r_ in digits}) > 1:
                                    try:
                                        str2array(text, dtype) if dtype is not None else str2array(text)
                                        nfail += 1; bad('str2array ragged bit rows raise ValueError', text, 'returned')
                                    except ValueError: pass
                                    continue
                                exp2 = np.array(digits[0] if len(digits) == 1 else digits)
                                want_dtype = np.bool_
                            else:
                                exp2 = expect if dtype is None else expect.astype(dtype)
                                want_dtype = exp2.dtype
                            try:
                                got = str2array(text, dtype) if dtype is not None else str2array(text)
                            except Exception as e:
                                nfail += 1
                                if nfail < 40: bad('str2array inverts text', (text, getattr(dtype, '__name__', dtype)), f'{type(e).__name__}: {e}')
                                continue
                            tol = 1e-6 if dtype is np.float32 else 0
                            ok = got.shape == exp2.shape and (np.array_equal(got, exp2) if tol == 0 else np.allclose(got, exp2, rtol=tol))
                            if dtype is not None and got.dtype != np.dtype(dtype): ok = False
                            if dtype is None and got.dtype.kind != np.dtype(want_dtype).kind: ok = False
                            if not ok:
                                nfail += 1
                                if nfail < 40: bad('str2array inverts text / honours dtype', (text, getattr(dtype, '__name__', dtype)), f'got {got!r} expected {exp2!r}')
if nfail >= 40: print(f'... {nfail} str2array failures in total')
# unsigned 64-bit contents and an explicit dtype wider than the inferred builtin int
for text, dtype, want in [('18446744073709551615 2', np.uint64, np.array([2**64 - 1, 2], dtype=np.uint64)),
                          ('9223372036854775808, 1', np.uint64, np.array([2**63, 1], dtype=np.uint64)),
                          ('100000000000000000000 2', float, np.array([1e20, 2.0]))]:
    try:
        got = str2array(text, dtype)
        if got.dtype != np.dtype(dtype) or not np.array_equal(got, want): bad('str2array honours explicit dtype', (text, dtype.__name__), got)
    except Exception as e:
        bad('str2array honours explicit dtype', (text, dtype.__name__), f'{type(e).__name__}: {e}')
# keyword form
if not np.array_equal(str2array(string='1 2; 3 4', dtype=float), [[1., 2.], [3., 4.]]): bad('str2array kw', '', '')
# bit patterns: digit by digit, every separator style, sizes 1..18
for n in list(range(1, 19)):
    for trial in range(4):
        bits = [1]*n if trial == 0 else [0]*n if trial == 1 else ([0]*(n-1) + [1]) if trial == 2 else list(rng.integers(0, 2, n))
        for sep in ['', ' ', ',', ', ']:
            text = sep.join(map(str, bits))
            for dtype in (None, bool):
                got = str2array(text, dtype) if dtype else str2array(text)
                if got.dtype != np.bool_ or list(got.astype(int)) != list(bits): bad('str2array bit pattern', (text, dtype), got)
            if sep:
                for dtype in (int, float, complex, np.uint8, np.int8, np.float32):
                    got = str2array(text, dtype)
                    if got.dtype != np.dtype(dtype) or list(got.real.astype(int)) != list(bits): bad('str2array bit tokens with dtype', (text, dtype.__name__), got)
            else:
                for dtype in (int, float, complex, np.uint64, np.int64):
                    if n > 15 and dtype in (float, complex): continue
                    got = str2array(text, dtype)
                    if got.dtype != np.dtype(dtype) or got.shape != (1,) or int(got.real[0]) != int(text): bad('str2array unseparated bits with numeric dtype -> one number', (text, dtype.__name__), got)
for r, c in itertools.product((1, 2, 3), (1, 2, 5, 6)):
    bits = rng.integers(0, 2, (r, c))
    for cs, rs in itertools.product(['', ' ', ',', ', '], row_seps):
        text = rs.join(cs.join(map(str, row)) for row in bits)
        got = str2array(text)
        want = bits if r > 1 else bits[0]
        if got.dtype != np.bool_ or not np.array_equal(got.astype(int), want): bad('str2array 2-D bit pattern', text, got)
        if cs:
            got = str2array(text, int)
            if got.dtype != np.dtype(int) or not np.array_equal(got, want): bad('str2array 2-D bit tokens int', text, got)
# invalid characters -> ValueError, in every position, with and without dtype
badchars = list("abcdefghklmnopqrstuvwxyzABCDEFGHIJKLMNOPQRSTUVWXYZ_()[]{}<>=*/\\'\"!?@#$%^&|~`:") + ['e', 'E', 'J', 'I', 'x', 'µ', '٣', '−', '１']
bases = ['1 2 3', '101', '1.5 2.5', '1+2j 3-4i', '1 0; 0 1', '1,2;3,4', '7']
for base in bases:
    for ch in badchars:
        for pos in (0, len(base)//2, len(base)):
            text = base[:pos] + ch + base[pos:]
            for dtype in (None, int, float, complex, bool, np.int64):
                try:
                    got = str2array(text, dtype) if dtype is not None else str2array(text)
                    bad('str2array other character raises ValueError', (text, getattr(dtype, '__name__', None)), f'returned {got!r}')
                except ValueError: pass
                except Exception as e:
                    bad('str2array other character raises ValueError', (text, getattr(dtype, '__name__', None)), f'{type(e).__name__}: {e}')

# ---------------------------------------------------------------- si
prefixes = [('f', -15), ('p', -12), ('n', -9), ('u', -6), ('m', -3), ('', 0), ('k', 3), ('M', 6), ('G', 9), ('T', 12)]
pw = dict(prefixes); pw['μ'] = -6; pw['µ'] = -6
def check_si(x, unit, k):
    try:
        s = si(x, unit, k) if k is not None else si(x, unit)
    except Exception as e:
        bad('si renders', (x, unit, k), f'{type(e).__name__}: {e}'); return
    kk = 1 if k is None else k
    if not isinstance(s, str): bad('si renders every x >= 1e-15', (x, unit, k), repr(s)); return
    m = re.fullmatch(r'(\d+(?:\.(\d+))?) (.*)', s)
    if not m or not m.group(3).endswith(unit): bad('si format', (x, unit, k), s); return
    pre = m.group(3)[:len(m.group(3)) - len(unit)]
    if pre not in pw: bad('si prefix', (x, unit, k), s); return
    if len(m.group(2) or '') != kk: bad('si precision', (x, unit, k), s)
    fx = Fraction(x) if not isinstance(x, (np.floating, np.integer)) else Fraction(float(x))
    mant = fx / Fraction(10)**pw[pre]
    if fx < Fraction(10)**15 and not (1 - Fraction(1, 10**15) <= mant < 1000): bad('si unrounded mantissa in [1,1000)', (x, unit, k), (s, float(mant)))
    printed = Fraction(m.group(1))
    # printed mantissa = mantissa to the printed precision (half ulp of last digit + float slack)
    if abs(printed - mant) > Fraction(1, 2*10**kk) + mant*Fraction(1, 10**14): bad('si mantissa*10^p gives back x', (x, unit, k), (s, float(mant)))
    # expected prefix from exact arithmetic
    e = 12
    for p, ee in prefixes:
        if Fraction(float(f'1e{ee}')) <= fx < Fraction(float(f'1e{ee+3}')): e = ee
    if fx >= Fraction(10)**15: e = 12
    if pw[pre] != e: bad('si prefix decade', (x, unit, k), s)
sx = []
for e in range(-15, 16):
    b = float(f'1e{e}')
    sx += [b, np.nextafter(b, np.inf), 2*b, 5*b, 9.99*b, 9.96*b, 9.94*b, 1.05*b, 1.04999*b, 1.23456789*b]
    if e > -15: sx += [np.nextafter(b, 0), float(np.nextafter(np.nextafter(b, 0), 0)), 0.99999*b]
sx += list(10.0**rng.uniform(-15, 15, 4000)) + [1e15, 1e16, 1e18, 999.95, 999.949, 999.951e3, 999.5, 0.9995, 0.99949]
for x in sx:
    x = float(x)
    if x < 1e-15: continue
    for unit in ('s', 'Hz', 'm', 'W', '', 'Ohm'):
        for k in (None, 0, 1, 2, 3, 6):
            check_si(x, unit, k)
            if unit != 's' or k not in (None, 2): continue
            check_si(np.float64(x), unit, k)
for xi_ in [1, 2, 999, 1000, 1001, 999999, 10**6, 10**9 - 1, 10**9, 10**12 - 1, 10**12, 10**15 - 1, 10**15, 12, 123456, 5*10**11]:
    for k in (None, 0, 1, 3):
        check_si(xi_, 'Hz', k)
if si(0.002, 's') != '2.0 ms' or si(1e9, 'Hz') != '1.0 GHz': bad('si doc example', '', (si(0.002, 's'), si(1e9, 'Hz')))
if si(0.002) != '2.0 ms' or si(x=0.002, unit='s', k=1) != '2.0 ms': bad('si defaults', '', si(0.002))

print('PASS' if not V else f'{len(V)} violations')
sys.exit(1 if V else 0)
