# C19: idb(db(x)) = x and dbm(x) = db(x)+30 for arrays -- fails for arrays of a narrow integer dtype
import sys, os
if sys.path and os.path.abspath(sys.path[0] or '.') == os.path.dirname(os.path.abspath(__file__)): del sys.path[0]
import numpy as np
from opticomlib.utils import db, dbm, idb
x = np.array([127, 200, 255], dtype=np.uint8)          # positive values, e.g. ADC codes / image samples
ref = 10*np.log10(x.astype(float))
got = db(x)
print('db(x)        =', repr(got))
print('expected     =', repr(ref))
print('idb(db(x))   =', idb(got), ' expected', x)
print('dbm(x)-db(x) =', dbm(x) - got, ' expected 30')
ok = np.allclose(got, ref, rtol=0, atol=1e-9) and np.allclose(idb(got), x, rtol=1e-9) and np.allclose(dbm(x) - got, 30, atol=1e-9)
print('OK' if ok else 'FAIL: db() of a uint8/int8 array is computed in float16 (of a 16-bit integer array in float32)')
sys.exit(0 if ok else 1)
