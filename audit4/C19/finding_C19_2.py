# C19: str2array inverts the text of any int array and honours an explicit dtype -- OverflowError beyond int64
import sys, os
if sys.path and os.path.abspath(sys.path[0] or '.') == os.path.dirname(os.path.abspath(__file__)): del sys.path[0]
import numpy as np
from opticomlib.utils import str2array
fail = False
a = np.array([2**64 - 1, 2], dtype=np.uint64)
for text, dtype, want in [(' '.join(map(str, a)), np.uint64, a), ('%.0f %.0f' % (1e20, 2.0), float, np.array([1e20, 2.0]))]:
    try:
        got = str2array(text, dtype)
        good = got.dtype == np.dtype(dtype) and np.array_equal(got, want)
        print(repr(text), dtype.__name__, '->', repr(got), 'OK' if good else f'expected {want!r}')
        fail |= not good
    except Exception as e:
        print(repr(text), dtype.__name__, '->', type(e).__name__, e, f'; expected {want!r}')
        fail = True
print("for comparison str2array('10000000000000000000000 1', float) =", str2array('10000000000000000000000 1', float))
sys.exit(1 if fail else 0)
