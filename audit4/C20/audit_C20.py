"""Audit of property C20 (PPG3204 driver + lab.SYNC), fourth pass: edges of the quantified domain."""
import sys, os
if sys.path and os.path.abspath(sys.path[0] or '.') == os.path.dirname(os.path.abspath(__file__)):
    del sys.path[0]
import re, io, warnings, itertools, contextlib
import numpy as np

from opticomlib.lab import PPG3204, SYNC
from opticomlib.devices import PRBS
from opticomlib.typing import electrical_signal, binary_sequence, gv

VIOL = []
SEEN = {}


def viol(clause, what):
    SEEN[clause] = SEEN.get(clause, 0) + 1
    if SEEN[clause] <= 12:                     # do not flood the output
        print(f'VIOLATION [{clause}] {what}', flush=True)
    VIOL.append((clause, what))


# --------------------------------------------------------------------------------------
# simulated instrument
# --------------------------------------------------------------------------------------
MEM = 2**21
LIM = dict(freq=(1.5e9, 32e9), amp=(0.3, 2.0), off=(-2.0, 3.0), skew=(-25e-12, 25e-12), plen=(2, 2**21))
ORDERS = [7, 9, 11, 15, 23, 31]


class FakeInst:
    def __init__(self):
        self.mem = np.zeros((5, MEM + 2), dtype=np.uint8)
        self.reg = {}
        self.log = []
        self.bad = []       # (command, reason) for every command that breaks a limit
        self.timeout = 0

    def clear(self): pass
    def close(self): pass

    def _ch(self, cmd, ch):
        ch = int(ch)
        if not 1 <= ch <= 4:
            self.bad.append((cmd, f'channel {ch} outside 1..4'))
        return min(max(ch, 0), 4)

    def _rng(self, cmd, key, val):
        lo, hi = LIM[key]
        if not (lo <= val <= hi):
            self.bad.append((cmd, f'{key} value {val!r} outside [{lo}, {hi}]'))

    def query(self, cmd):
        self.log.append(cmd)
        m = re.fullmatch(r':DIG(-?\d+):PATT:DATA (\S+),(\S+),#(\d)(.*)', cmd)
        if m:
            ch = self._ch(cmd, m.group(1))
            try:
                p = int(m.group(2)); n = int(m.group(3))
            except ValueError:
                self.bad.append((cmd[:60], 'address/length not an integer')); return '\n'
            k = int(m.group(4)); rest = m.group(5)
            if k < 1 or len(rest) < k or not rest[:k].isdigit():
                self.bad.append((cmd[:60], 'malformed IEEE-488.2 header')); return '\n'
            n2 = int(rest[:k]); bits = rest[k:]
            if len(str(n2)) != k: self.bad.append((cmd[:60], 'header digit count not minimal'))
            if n2 != n: self.bad.append((cmd[:60], f'header length {n2} != count {n}'))
            if len(bits) != n: self.bad.append((cmd[:60], f'{len(bits)} payload characters for count {n}'))
            if set(bits) - {'0', '1'}: self.bad.append((cmd[:60], 'payload not 0/1'))
            if not 1 <= n <= 1024: self.bad.append((cmd[:60], f'block of {n} bits'))
            if p < 1 or p + n - 1 > MEM: self.bad.append((cmd[:60], f'block {p}..{p+n-1} outside memory'))
            else:
                self.mem[ch, p:p + len(bits)] = [int(c) for c in bits if c in '01'][:len(bits)]
            return '\n'
        m = re.fullmatch(r':DIG(-?\d+):PATT:DATA\? (\S+),(\S+)', cmd)
        if m:
            ch = self._ch(cmd, m.group(1))
            try:
                p = int(m.group(2)); n = int(m.group(3))
            except ValueError:
                self.bad.append((cmd, 'address/length not an integer')); return '#10\n'
            if not 1 <= n <= 1024: self.bad.append((cmd, f'read block of {n} bits'))
            if p < 1 or p + n - 1 > MEM:
                self.bad.append((cmd, f'read {p}..{p+n-1} outside memory')); return '#10\n'
            bits = ''.join(map(str, self.mem[ch, p:p + n]))
            return f'#{len(str(n))}{n}{bits}\n'
        m = re.fullmatch(r':DIG(-?\d+):PATT:(LENG|PLEN|BSH|TYPE)(\?| (\S+))', cmd)
        if m:
            ch = self._ch(cmd, m.group(1)); key = m.group(2)
            if m.group(3) == '?':
                return str(self.reg.get((key, ch), {'LENG': 2, 'PLEN': 7, 'BSH': 0, 'TYPE': 'DATA'}[key])) + '\n'
            v = m.group(4)
            if key == 'LENG':
                try: self._rng(cmd, 'plen', float(v))
                except ValueError: self.bad.append((cmd, 'not numeric'))
                if float(v) != int(float(v)): self.bad.append((cmd, 'non-integer pattern length'))
                v = int(float(v))
            elif key == 'PLEN':
                try:
                    if float(v) not in ORDERS: self.bad.append((cmd, f'order {v} not supported'))
                    v = int(float(v))
                except ValueError: self.bad.append((cmd, 'not numeric'))
            elif key == 'TYPE':
                if v not in ('DATA', 'PRBS'): self.bad.append((cmd, 'bad type'))
            self.reg[(key, ch)] = v
            return '\n'
        m = re.fullmatch(r':OUTP(-?\d+) (ON|OFF)', cmd)
        if m:
            self._ch(cmd, m.group(1)); return '\n'
        m = re.fullmatch(r':FREQ(\?| (\S+))', cmd)
        if m:
            if m.group(1) == '?': return str(self.reg.get('FREQ', 1.5e9)) + '\n'
            try: v = float(m.group(2)); self._rng(cmd, 'freq', v); self.reg['FREQ'] = v
            except ValueError: self.bad.append((cmd, 'not numeric'))
            return '\n'
        m = re.fullmatch(r':SKEW(-?\d+)(\?| (\S+))', cmd)
        if m:
            ch = self._ch(cmd, m.group(1))
            if m.group(2) == '?': return str(self.reg.get(('SKEW', ch), 0.0)) + '\n'
            try: v = float(m.group(3)); self._rng(cmd, 'skew', v); self.reg[('SKEW', ch)] = v
            except ValueError: self.bad.append((cmd, 'not numeric'))
            return '\n'
        m = re.fullmatch(r':VOLT(-?\d+):POS(\?| (\S+)v)', cmd)
        if m:
            ch = self._ch(cmd, m.group(1))
            if m.group(2) == '?': return str(self.reg.get(('AMP', ch), 0.3)) + '\n'
            try: v = float(m.group(3)); self._rng(cmd, 'amp', v); self.reg[('AMP', ch)] = v
            except ValueError: self.bad.append((cmd, 'not numeric'))
            return '\n'
        m = re.fullmatch(r':VOLT(-?\d+):(POS|NEG):OFFS (\S+)v', cmd)
        if m:
            ch = self._ch(cmd, m.group(1))
            try: v = float(m.group(3)); self._rng(cmd, 'off', v); self.reg[('OFF', ch)] = v
            except ValueError: self.bad.append((cmd, 'not numeric'))
            return '\n'
        m = re.fullmatch(r':VOLT(-?\d+):OFFS\?', cmd)
        if m:
            ch = self._ch(cmd, m.group(1)); return str(self.reg.get(('OFF', ch), 0.0)) + '\n'
        if cmd in ('*RST', '*IDN?'):
            return 'FAKE\n' if cmd.endswith('?') else '\n'
        self.bad.append((cmd[:60], 'unrecognised command'))
        return '\n'


def new_ppg():
    p = PPG3204()
    p.inst = FakeInst()
    return p


def run(ppg, clause, desc, fn, expect_warn=None):
    """call fn, report exceptions, limit breaches, and a missing/spurious warning. Returns (ok, result, new commands)."""
    n0 = len(ppg.inst.log); ppg.inst.bad.clear()
    with warnings.catch_warnings(record=True) as w:
        warnings.simplefilter('always')
        try:
            res = fn()
        except Exception as e:
            viol(clause, f'{desc}: raised {type(e).__name__}: {str(e)[:80]}')
            return False, None, ppg.inst.log[n0:]
    uw = [x for x in w if issubclass(x.category, UserWarning)]
    for cmd, why in ppg.inst.bad:
        viol(clause, f'{desc}: emitted {cmd!r}: {why}')
    if expect_warn is True and not uw:
        viol(clause, f'{desc}: out-of-range request, no warning issued')
    if expect_warn is False and uw:
        viol(clause, f'{desc}: in-range request, spurious warning: {str(uw[0].message)[:60]}')
    return not ppg.inst.bad, res, ppg.inst.log[n0:]


# --------------------------------------------------------------------------------------
# clause A: channels 1..4 whatever the selection
# --------------------------------------------------------------------------------------
CH_SEL = [None, 1, 2, 3, 4, 0, 5, -1, -7, 100, 10**6, True,
          [1], [4], [1, 2], [4, 3, 2, 1], [1, 2, 3, 4], (2, 3), np.array([1, 4]), np.array([3]),
          [0], [5], [0, 5], [-3, 9], [1, 2, 3, 4, 5], [1, 2, 3, 4, 5, 6, 7], [9, 9, 9, 9, 9], [1, 1], [2, 2, 2, 2],
          (0, 1, 2), np.array([0, 7]), np.array([4, 5], dtype=np.int8), np.array([1, 2], dtype=np.uint8), []]


def ch_in_range(sel):
    if sel is None: return True
    a = np.atleast_1d(np.array(sel, dtype=int))
    return bool(((a >= 1) & (a <= 4)).all() and a.size <= 4)


def expected_channels(sel):
    if sel is None: return [1, 2, 3, 4]
    a = np.atleast_1d(np.array(sel, dtype=int))
    return list(a.clip(1, 4)[:4])


def clause_channels():
    ppg = new_ppg()
    for sel in CH_SEL:
        d = f'CHs={sel!r}'
        ew = not ch_in_range(sel)
        calls = {
            'enable_outputs': lambda: ppg.enable_outputs(sel),
            'disable_outputs': lambda: ppg.disable_outputs(sel),
            'set_patt_len': lambda: ppg.set_patt_len(100, sel),
            'set_mode': lambda: ppg.set_mode('prbs', sel),
            'set_prbs_order': lambda: ppg.set_prbs_order(7, sel),
            'set_bits_shift': lambda: ppg.set_bits_shift(3, sel),
            'set_skew': lambda: ppg.set_skew(1e-12, sel),
            'set_output_voltage': lambda: ppg.set_output_voltage(1.0, sel),
            'set_offset': lambda: ppg.set_offset(0.5, sel),
            'set_data': lambda: ppg.set_data('0110', 1, sel),
            'get_data': lambda: ppg.get_data(4, 1, sel),
            'get_patt_len': lambda: ppg.get_patt_len(sel),
            'get_mode': lambda: ppg.get_mode(sel),
            'get_prbs_order': lambda: ppg.get_prbs_order(sel),
            'get_bits_shift': lambda: ppg.get_bits_shift(sel),
            'get_skew': lambda: ppg.get_skew(sel),
            'get_output_voltage': lambda: ppg.get_output_voltage(sel),
            'get_offset': lambda: ppg.get_offset(sel),
        }
        for name, fn in calls.items():
            ok, res, cmds = run(ppg, 'A channel 1..4', f'{name}({d})', fn, expect_warn=ew)
            chs = [int(re.search(r'(?:DIG|OUTP|SKEW|VOLT)(-?\d+)', c).group(1)) for c in cmds]
            if ok and res is not None or cmds:
                if chs != [int(c) for c in expected_channels(sel)]:
                    viol('A channel 1..4', f'{name}({d}): commands address {chs}, expected {expected_channels(sel)}')


# --------------------------------------------------------------------------------------
# clause B: values clamped to limits with a warning
# --------------------------------------------------------------------------------------
def around(lo, hi, integer=False):
    vals = set()
    for L in (lo, hi):
        for k in range(-4, 5):
            vals.add(L * 10.0**k)
        vals.update([L, np.nextafter(L, np.inf), np.nextafter(L, -np.inf), L * (1 + 1e-9), L * (1 - 1e-9),
                     L * 1.0001, L * 0.9999, -L, -L * 10, L + 1, L - 1])
    vals.update([0.0, -0.0, (lo + hi) / 2, lo + (hi - lo) * 0.123456789, float('inf'), float('-inf'),
                 1e-300, -1e-300, 1e300, -1e300, 1, -1, 0, 2, 3, 10, 10**9, 10**12, -10**12])
    if integer:
        out = set()
        for v in vals:
            if np.isfinite(v) and abs(v) < 2**62:
                out.update([int(np.floor(v)), int(np.ceil(v))])
        out.update([lo, hi, lo - 1, lo + 1, hi - 1, hi + 1, 0, 1, -1, -2**31, 2**31, 2**40])
        return sorted(out)
    return sorted(vals, key=lambda x: (float(x), str(type(x))))


def containers(vals, nch):
    """per-channel containers built from a list of nch values"""
    yield list(vals)
    yield tuple(vals)
    yield np.array(vals)


def parse_val(cmd):
    m = re.search(r' (\S+?)v?$', cmd)
    return float(m.group(1))


def clause_values():
    ppg = new_ppg()
    rng = np.random.default_rng(20)
    specs = [
        # name, setter(value, CHs), limits, tolerance of the text format (abs, rel), per-channel?
        ('freq', lambda v, ch: ppg.set_freq(v), LIM['freq'], (0, 6e-6), False, False),
        ('amp', lambda v, ch: ppg.set_output_voltage(v, ch), LIM['amp'], (0.05 + 1e-12, 0), True, False),
        ('off', lambda v, ch: ppg.set_offset(v, ch), LIM['off'], (0.05 + 1e-12, 0), True, False),
        ('skew', lambda v, ch: ppg.set_skew(v, ch), LIM['skew'], (0, 1e-12), True, False),
        ('plen', lambda v, ch: ppg.set_patt_len(v, ch), LIM['plen'], (0, 0), True, True),
    ]
    for name, setter, (lo, hi), (atol, rtol), perch, integer in specs:
        vals = around(lo, hi, integer)
        # scalars (python int, python float; numpy scalars are a known refusal)
        for v in vals:
            for vv in ([v] if integer else [float(v)] + ([int(v)] if np.isfinite(v) and float(v) == int(v) and abs(v) < 2**62 else [])):
                inr = lo <= vv <= hi
                for ch in ([None, 2, [1, 3]] if perch else [None]):
                    ok, _, cmds = run(ppg, f'B {name} clamped+warned', f'set {name}={vv!r} CHs={ch}',
                                      lambda: setter(vv, ch), expect_warn=not inr)
                    exp = min(max(vv, lo), hi)
                    for c in cmds:
                        try: got = parse_val(c)
                        except Exception: continue
                        if abs(got - exp) > atol + rtol * abs(exp):
                            viol(f'B {name} clamped+warned', f'set {name}={vv!r}: command {c!r} carries {got}, clamp of the request is {exp}')
        # per-channel lists mixing in-range and out-of-range entries
        if perch:
            pool = [v for v in vals if np.isfinite(v)] if not integer else vals
            for trial in range(150):
                nch = int(rng.integers(1, 5))
                chs = list(rng.permutation([1, 2, 3, 4])[:nch])
                chs = [int(c) for c in chs]
                pick = [pool[int(i)] for i in rng.integers(0, len(pool), nch)]
                if not integer:
                    pick = [float(p) for p in pick]
                    if trial % 3 == 0: pick = [int(p) if abs(p) < 2**62 and p == int(p) else p for p in pick]
                for cont in containers(pick, nch):
                    try:
                        arr = np.array(cont)
                        if arr.dtype == object: continue
                    except Exception: continue
                    inr = all(lo <= p <= hi for p in pick)
                    ok, _, cmds = run(ppg, f'B {name} clamped+warned', f'set {name}={cont!r} CHs={chs}',
                                      lambda: setter(cont, chs), expect_warn=not inr)
                    if len(cmds) != nch:
                        viol(f'B {name} clamped+warned', f'set {name}={cont!r} CHs={chs}: {len(cmds)} commands for {nch} channels')
                    for c, p, chn in zip(cmds, pick, chs):
                        exp = min(max(p, lo), hi)
                        try: got = parse_val(c)
                        except Exception: continue
                        if abs(got - exp) > atol + rtol * abs(exp):
                            viol(f'B {name} clamped+warned', f'set {name}={cont!r}: {c!r} carries {got}, expected {exp}')
                        if f'{chn}' != re.search(r'(?:DIG|SKEW|VOLT)(\d+)', c).group(1):
                            viol(f'B {name} clamped+warned', f'set {name}={cont!r} CHs={chs}: {c!r} wrong channel')

    # PRBS order
    for o in list(range(-5, 45)) + [-10**6, 10**6, 2**31, 2**40, 100, 1000]:
        for ch in [None, 3]:
            ok, _, cmds = run(ppg, 'B prbs order from list', f'set_prbs_order({o}, {ch})',
                              lambda: ppg.set_prbs_order(o, ch), expect_warn=o not in ORDERS)
            for c in cmds:
                got = parse_val(c)
                best = min(abs(np.array(ORDERS) - o))
                if got in ORDERS and abs(got - o) != best:
                    viol('B prbs order from list', f'set_prbs_order({o}): sent {got}, not a nearest supported order')
    for trial in range(100):
        nch = int(rng.integers(1, 5))
        pick = [int(x) for x in rng.integers(-3, 40, nch)]
        for cont in (pick, tuple(pick), np.array(pick), [float(p) for p in pick], [p + 0.4 for p in pick]):
            inr = all(p in ORDERS for p in np.array(cont))
            run(ppg, 'B prbs order from list', f'set_prbs_order({cont!r}, CHs={list(range(1, nch+1))})',
                lambda: ppg.set_prbs_order(cont, list(range(1, nch + 1))), expect_warn=not inr)

    # config()/__call__ route
    for kw in [dict(freq=1e3, patt_len=1, Vout=9.0, offset=-7.5, bsh=3, skew=1.0, mode='PRBS', order=8, CHs=[0, 9]),
               dict(freq=1e15, patt_len=[2**22, 0], Vout=[0.0, 1e3], offset=[1e3, -1e3], skew=[-1e-9, 1e-9], mode='DATA',
                    data=[[1, 0, 1], [0, 1, 1]], CHs=[4, 5])]:
        run(ppg, 'B config route', f'config({kw})', lambda: ppg.config(**kw), expect_warn=True)
        run(ppg, 'B config route', f'ppg({kw})', lambda: ppg(**kw), expect_warn=True)


# --------------------------------------------------------------------------------------
# clause C: set_data blocks / headers / addresses, get_data round trip
# --------------------------------------------------------------------------------------
def check_blocks(cmds, ch_list, start, n, desc):
    """commands of one set_data call: per channel consecutive blocks <= 1024 bits covering start..start+n-1"""
    per = {}
    for c in cmds:
        m = re.fullmatch(r':DIG(\d+):PATT:DATA (\d+),(\d+),#(\d)(\d+)', c)
        if not m:
            viol('C set_data blocks', f'{desc}: unparsable command {c[:50]!r}'); return
        ch, p, cnt, k, rest = int(m.group(1)), int(m.group(2)), int(m.group(3)), int(m.group(4)), m.group(5)
        per.setdefault(ch, []).append((p, cnt, k, rest))
    if sorted(per) != sorted(set(ch_list)):
        viol('C set_data blocks', f'{desc}: channels written {sorted(per)}, expected {sorted(set(ch_list))}')
    for ch, bl in per.items():
        addr = start
        tot = 0
        nb = len(bl) // max(1, ch_list.count(ch))
        for j, (p, cnt, k, rest) in enumerate(bl[:nb]):
            if p != addr: viol('C set_data blocks', f'{desc}: ch{ch} block {j} at address {p}, expected {addr}')
            if cnt > 1024 or cnt < 1: viol('C set_data blocks', f'{desc}: ch{ch} block of {cnt} bits')
            if j < nb - 1 and cnt != 1024: viol('C set_data blocks', f'{desc}: ch{ch} inner block of {cnt} bits')
            if rest[:k] != str(cnt) or len(rest) != k + cnt:
                viol('C set_data blocks', f'{desc}: ch{ch} header #{k}{rest[:k]} for {cnt} bits / payload {len(rest)-k}')
            addr += cnt; tot += cnt
        if tot != n: viol('C set_data blocks', f'{desc}: ch{ch} wrote {tot} bits, expected {n}')


def clause_memory():
    ppg = new_ppg()
    rng = np.random.default_rng(7)
    lens = sorted(set([1, 2, 3, 4, 7, 8, 9, 10, 99, 100, 999, 1000, 1022, 1023, 1024, 1025, 1026, 2047, 2048, 2049,
                       3071, 3072, 3073, 4095, 4096, 4097, 5120, 8191, 8192, 8193, 9216, 9999, 10000]
                      + [int(x) for x in rng.integers(1, 10001, 25)]))
    forms = ['str', 'list', 'tuple', 'u8', 'bool', 'i64', 'f64', 'rows', 'rows_list', 'spaced', 'commas']
    it = 0
    for n in lens:
        starts = sorted(set([1, 2, 1023, 1024, 1025, 2048, MEM - n + 1, MEM - n, max(1, MEM - n - 1023),
                             int(rng.integers(1, MEM - n + 1))]))
        for start in starts:
            if start < 1: continue
            it += 1
            form = forms[it % len(forms)]
            chsel = [None, 1, 2, 3, 4, [1, 2], [4, 2], [1, 2, 3, 4], (3,), np.array([2, 4])][it % 10]
            chl = expected_channels(chsel)
            bits = rng.integers(0, 2, (len(chl), n)).astype(np.uint8)
            comp = it % 7
            if comp == 0: bits[:] = 0; bits[:, rng.integers(0, n)] = 1         # single 1 in zeros
            if comp == 1: bits[:] = 1; bits[:, rng.integers(0, n)] = 0         # single 0 in ones
            if comp == 2: bits[:] = 0
            if comp == 3: bits[:] = 1
            if form in ('rows', 'rows_list'):
                data = bits if form == 'rows' else bits.tolist()
                want = bits
            else:
                row = bits[0]
                want = np.tile(row, (len(chl), 1))
                data = {'str': ''.join(map(str, row)), 'list': row.tolist(), 'tuple': tuple(row.tolist()), 'u8': row,
                        'bool': row.astype(bool), 'i64': row.astype(np.int64), 'f64': row.astype(float),
                        'spaced': ' '.join(map(str, row)), 'commas': ','.join(map(str, row))}[form]
            desc = f'set_data(len {n}, {form}, start {start}, CHs={chsel!r})'
            ok, _, cmds = run(ppg, 'C set_data blocks', desc, lambda: ppg.set_data(data, start, chsel), expect_warn=False)
            check_blocks(cmds, [int(c) for c in chl], start, n, desc)
            ok, got, cmds = run(ppg, 'C get_data round trip', f'get_data({n}, {start}, {chsel!r}) after {desc}',
                                lambda: ppg.get_data(n, start, chsel), expect_warn=False)
            if got is not None:
                got = np.asarray(got)
                if got.shape != want.shape or not np.array_equal(got, want):
                    viol('C get_data round trip', f'{desc}: read back shape {got.shape}, equal={got.shape == want.shape and np.array_equal(got, want)}')
            for c in cmds:
                m = re.fullmatch(r':DIG(\d+):PATT:DATA\? (\d+),(\d+)', c)
                if not m or int(m.group(3)) > 1024 or int(m.group(3)) < 1:
                    viol('C get_data round trip', f'{desc}: read command {c!r}')
            # sub-range across a block boundary, each channel alone
            if n > 3:
                a = int(rng.integers(0, n - 1)); b = int(rng.integers(a + 1, n + 1))
                for k, ch in enumerate(chl):
                    ok, got, _ = run(ppg, 'C get_data round trip', f'get_data({b-a}, {start+a}, {int(ch)}) after {desc}',
                                     lambda: ppg.get_data(b - a, start + a, int(ch)), expect_warn=False)
                    if got is not None and not np.array_equal(np.asarray(got), want[k:k + 1, a:b]):
                        viol('C get_data round trip', f'{desc}: sub-range {a}:{b} of ch{ch} differs')

    # start addresses outside 1..2^21 and data running past the end: clamped with a warning, range read = range written
    for n in [1, 2, 5, 1024, 1025, 3000]:
        for start in [0, -1, -10**6, MEM + 1, MEM + 10**6, MEM, MEM - 1, MEM - n + 2, MEM - n // 2]:
            row = rng.integers(0, 2, n).astype(np.uint8)
            s_eff = min(max(start, 1), MEM); n_eff = min(n, MEM - s_eff + 1)
            ew = (start != s_eff) or (n_eff != n)
            desc = f'set_data(len {n}, start {start})'
            ok, _, cmds = run(ppg, 'C set_data blocks', desc, lambda: ppg.set_data(row, start, 2), expect_warn=ew)
            check_blocks(cmds, [2], s_eff, n_eff, desc)
            ok, got, _ = run(ppg, 'C get_data round trip', f'get_data({n}, {start}, 2)', lambda: ppg.get_data(n, start, 2), expect_warn=ew)
            if got is not None and not np.array_equal(np.asarray(got), row[None, :n_eff]):
                viol('C get_data round trip', f'{desc}: read back {np.asarray(got).shape} differs from the {n_eff} bits written')
    # sizes out of range in get_data
    for size in [0, -1, -10**6, MEM + 1]:
        run(ppg, 'C get_data round trip', f'get_data({size})', lambda: ppg.get_data(size, 1, 1) if size < MEM else ppg.get_data(size, MEM - 5, 1), expect_warn=True)


def clause_sequences():
    """arbitrary sequences of set_*/get_* against the simulated instrument, compared with a model"""
    rng = np.random.default_rng(99)
    ppg = new_ppg()
    model = np.zeros((5, 40000), dtype=np.uint8)
    reg = {}
    for step in range(600):
        op = int(rng.integers(0, 9))
        chs = [int(c) for c in rng.permutation([1, 2, 3, 4])[:int(rng.integers(1, 5))]]
        sel = chs if rng.random() < 0.7 else (chs[0] if rng.random() < 0.5 else None)
        eff = expected_channels(sel)
        if op == 0:
            n = int(rng.choice([1, 2, 1023, 1024, 1025, 2049, int(rng.integers(1, 6000))]))
            st = int(rng.choice([1, 2, 1024, 1025, int(rng.integers(1, 30000))]))
            if rng.random() < 0.5:
                row = rng.integers(0, 2, n).astype(np.uint8); data = row if rng.random() < 0.5 else ''.join(map(str, row))
                for c in eff: model[c, st:st + n] = row
            else:
                data = rng.integers(0, 2, (len(eff), n)).astype(np.uint8)
                for c, r in zip(eff, data): model[c, st:st + n] = r
            run(ppg, 'D call sequences', f'step {step} set_data(len {n}, {st}, {sel})', lambda: ppg.set_data(data, st, sel), expect_warn=False)
        elif op == 1:
            n = int(rng.choice([1, 2, 1023, 1024, 1025, 2048, int(rng.integers(1, 6000))]))
            st = int(rng.choice([1, 2, 1024, 1025, int(rng.integers(1, 30000))]))
            ok, got, _ = run(ppg, 'D call sequences', f'step {step} get_data({n}, {st}, {sel})', lambda: ppg.get_data(n, st, sel), expect_warn=False)
            want = np.array([model[c, st:st + n] for c in eff])
            if got is not None and not np.array_equal(np.asarray(got), want):
                viol('D call sequences', f'step {step}: get_data({n}, {st}, {sel}) differs from the model memory')
        else:
            name, lo, hi, setter, getter, key = [
                ('patt_len', 2, 2**21, ppg.set_patt_len, ppg.get_patt_len, 'i'),
                ('skew', -25e-12, 25e-12, ppg.set_skew, ppg.get_skew, 'f'),
                ('amp', 0.3, 2.0, ppg.set_output_voltage, ppg.get_output_voltage, 'f1'),
                ('offset', -2.0, 3.0, ppg.set_offset, ppg.get_offset, 'f1'),
                ('order', 7, 31, ppg.set_prbs_order, ppg.get_prbs_order, 'o'),
                ('bsh', -2**30 + 1, 2**30 - 1, ppg.set_bits_shift, ppg.get_bits_shift, 'i'),
                ('freq', 1.5e9, 32e9, None, None, 'fr'),
            ][op - 2]
            if key == 'fr':
                v = float(10 ** rng.uniform(7, 12))
                run(ppg, 'D call sequences', f'step {step} set_freq({v})', lambda: ppg.set_freq(v), expect_warn=not lo <= v <= hi)
                ok, got, _ = run(ppg, 'D call sequences', f'step {step} get_freq()', ppg.get_freq)
                if got is not None and abs(got - min(max(v, lo), hi)) > 6e-6 * got:
                    viol('D call sequences', f'step {step}: get_freq {got} after set_freq({v})')
                continue
            if key in ('i', 'o'):
                vals = [int(x) for x in rng.integers(-5, 50, len(eff))] if key == 'o' else \
                       [int(np.sign(rng.normal()) * 10 ** rng.uniform(0, 8)) for _ in eff]
                if key == 'i' and name == 'bsh': vals = [int(x) for x in rng.integers(-1000, 1000, len(eff))]
            else:
                span = hi - lo
                vals = [float(rng.uniform(lo - span, hi + span)) for _ in eff]
            arg = vals if rng.random() < 0.6 else vals[0]
            if not isinstance(arg, list): vals = [arg] * len(eff)
            if key == 'o': inr = all(v in ORDERS for v in vals)
            else: inr = all(lo <= v <= hi for v in vals)
            run(ppg, 'D call sequences', f'step {step} set_{name}({arg}, {sel})', lambda: setter(arg, sel),
                expect_warn=(not inr) if name != 'bsh' else None)
            ok, got, _ = run(ppg, 'D call sequences', f'step {step} get_{name}({sel})', lambda: getter(sel))
            if got is not None:
                last = {}
                for c, v in zip(eff, vals): last[c] = v
                for c, g in zip(eff, got):
                    v = last[c]
                    if key == 'o':
                        good = g in ORDERS and abs(g - v) == min(abs(np.array(ORDERS) - v))
                    elif key == 'i': good = g == (min(max(v, lo), hi) if name != 'bsh' else v)
                    elif key == 'f': good = abs(g - min(max(v, lo), hi)) < 1e-20
                    else: good = abs(g - min(max(v, lo), hi)) <= 0.05 + 1e-9
                    if not good:
                        viol('D call sequences', f'step {step}: get_{name} ch{c} = {g} after request {v}')


def clause_dryrun():
    ppg = PPG3204()
    buf = io.StringIO()
    with contextlib.redirect_stdout(buf), warnings.catch_warnings():
        warnings.simplefilter('ignore')
        ppg.set_data('000111000111', CHs=2)
        ppg.set_data([[1, 0, 1, 0], [0, 1, 0, 1]], CHs=[3, 4])
        ppg.set_output_voltage(5.0, 9)
        ppg.set_freq(1.0)
    want = [':DIG2:PATT:DATA 1,12,#212000111000111', ':DIG3:PATT:DATA 1,4,#141010', ':DIG4:PATT:DATA 1,4,#140101',
            ':VOLT4:POS 2.0v', ':FREQ 1.50000e+09']
    if buf.getvalue().split() != ' '.join(want).split():
        viol('C set_data blocks', f'dry run printed {buf.getvalue()!r}')


# --------------------------------------------------------------------------------------
# clause E: SYNC
# --------------------------------------------------------------------------------------
def sync_case(clause, pat, sps, d, L, sigma, seed, as_signal=False, as_seq=False, desc=''):
    l = pat.size * sps
    wave = np.kron(pat, np.ones(sps))
    reps = -(-(L + l) // l) + 1
    rx = np.roll(np.tile(wave, reps), d)[:L]
    if sigma:
        rx = rx + sigma * np.random.default_rng(seed).standard_normal(L)
    arg = electrical_signal(rx) if as_signal else rx
    p = binary_sequence(pat) if as_seq else pat
    try:
        with warnings.catch_warnings():
            warnings.simplefilter('ignore')
            s, i = SYNC(arg, p, None if as_signal else sps)
    except Exception as e:
        viol(clause, f'{desc} n={pat.size} sps={sps} d={d} len(rx)={L} sigma={sigma} seed={seed}: raised {type(e).__name__}: {e}')
        return None
    if i != d:
        viol(clause, f'{desc} n={pat.size} sps={sps} d={d} len(rx)={L} sigma={sigma} seed={seed}: returned index {i}')
        return False
    y = np.asarray(s.signal)
    if y.size < 1 or not np.array_equal(y.real, rx[d:d + y.size]):
        viol(clause, f'{desc} n={pat.size} sps={sps} d={d} len(rx)={L}: returned signal does not start at sample d')
        return False
    return True


def clause_sync():
    # E1 full-period and long truncated PRBS patterns, every delay, several record lengths, no noise and moderate noise
    pats = [('PRBS7', PRBS(7).data), ('PRBS7[:64]', PRBS(7, len=64).data), ('PRBS7[:128]', PRBS(7, len=128).data),
            ('PRBS9[:100]', PRBS(9, len=100).data), ('PRBS15[:96]', PRBS(15, len=96, seed=12345).data),
            ('PRBS31[:80]', PRBS(31, len=80, seed=987654321).data), ('PRBS7 seed 5', PRBS(7, seed=5).data)]
    k = 0
    for name, pat in pats:
        for sps in [1, 2, 3, 4, 7, 8]:
            l = pat.size * sps
            gv(sps=sps, R=1e9)
            for d in range(l):
                for L in sorted(set([l + d + 1, 2 * l - 1, 2 * l, 2 * l + 1, 3 * l, 3 * l + 5])):
                    if L < l + d + 1: continue
                    k += 1
                    if d not in (0, 1, sps - 1, sps, l // 2, l - sps, l - 2, l - 1) and k % 5: continue
                    sync_case('E1 SYNC index d (no noise)', pat, sps, d, L, 0, 0, as_signal=(k % 3 == 0), as_seq=(k % 2 == 0), desc=name)
                    sync_case('E2 SYNC index d (sigma 0.1)', pat, sps, d, L, 0.1, k, as_signal=(k % 3 == 1), as_seq=(k % 2 == 1), desc=name)
    # E3 edge delays under moderate noise: d = 0 and d = l-1 compared with interior delays (same noise, same seeds)
    pat = PRBS(7).data
    for sps in (16, 32):
        l = pat.size * sps
        for sigma in (0.2, 0.3):
            cnt = {}
            for d in (0, l - 1, 1, l // 2, l - 2, 37):
                bad = 0
                for seed in range(300):
                    wave = np.kron(pat, np.ones(sps))
                    rx = np.roll(np.tile(wave, 3), d) + sigma * np.random.default_rng(seed).standard_normal(3 * l)
                    try: i = SYNC(rx, pat, sps)[1]
                    except Exception: i = None
                    bad += i != d
                cnt[d] = bad
            interior = max(cnt[1], cnt[l // 2], cnt[l - 2], cnt[37])
            for d in (0, l - 1):
                # 300 trials: interior delays never fail; >= 5 failures at the edge is far outside sampling error of a 0-rate
                if cnt[d] >= 5 and interior == 0:
                    viol('E3 SYNC index d at the edge delays (moderate noise)',
                         f'PRBS7 sps={sps} sigma={sigma}: d={d} wrong index in {cnt[d]}/300 seeds; interior delays {interior}/300')
    # E4 short PRBS patterns (16..40 slots), d = 0, no noise
    for order in (7, 9, 11, 15, 23, 31):
        for n in range(16, 41):
            pat = PRBS(order, len=n).data
            if pat.sum() == 0: continue
            for sps in (1, 2, 4):
                l = n * sps
                w = np.tile(pat, 2)
                if any(np.array_equal(np.roll(pat, s), pat) for s in range(1, n)): continue   # periodic pattern: ambiguous
                for d in (0, 1, l - 1):
                    sync_case('E4 SYNC short PRBS pattern (no noise)', pat, sps, d, 3 * l, 0, 0, desc=f'PRBS({order},len={n})')
    # E5 record shorter than the pattern is rejected
    pat = PRBS(7).data
    for sps in (1, 2, 8):
        l = pat.size * sps
        for L in (0, 1, sps, l // 2, l - sps, l - 2, l - 1):
            rx = np.tile(np.kron(pat, np.ones(sps)), 2)[:L]
            try:
                SYNC(rx, pat, sps)
                viol('E5 SYNC rejects a short record', f'sps={sps} len(rx)={L} < {l}: accepted')
            except BufferError:
                pass
            except Exception as e:
                viol('E5 SYNC rejects a short record', f'sps={sps} len(rx)={L} < {l}: {type(e).__name__} instead of BufferError: {e}')


if __name__ == '__main__':
    clause_channels()
    clause_values()
    clause_memory()
    clause_sequences()
    clause_dryrun()
    clause_sync()
    if VIOL:
        print(f'{len(VIOL)} violations in clauses: ' + '; '.join(f'{k} x{v}' for k, v in SEEN.items()))
        sys.exit(1)
    print('PASS')
    sys.exit(0)
