# SYNC: at the edge delays d = 0 and d = l-1 moderate noise makes it return the sample next to the
# neighbouring copy's peak (l-1 instead of 0, 0 instead of l-1); every interior delay is found with the same noise.
import sys; sys.path.pop(0)
import numpy as np
from opticomlib.lab import SYNC
from opticomlib.devices import PRBS
pat = PRBS(7).data; sps = 32; l = pat.size*sps; sigma = 0.3; N = 200      # full PRBS7, levels 0/1, noise std 0.3
wave = np.kron(pat, np.ones(sps)); wrong = {}
for d in (0, l-1, 1, l//2, l-2):
    idx = [SYNC(np.roll(np.tile(wave, 3), d) + sigma*np.random.default_rng(s).standard_normal(3*l), pat, sps)[1] for s in range(N)]
    wrong[d] = sorted(set(i for i in idx if i != d)), sum(i != d for i in idx)
print('expected: index d for every delay (0 wrong of %d seeds each)' % N)
print('got     : ' + ', '.join(f'd={d}: {n} wrong {w}' for d, (w, n) in wrong.items()))
edge = wrong[0][1] + wrong[l-1][1]; inner = wrong[1][1] + wrong[l//2][1] + wrong[l-2][1]
sys.exit(1 if edge >= 5 and inner == 0 else 0)
