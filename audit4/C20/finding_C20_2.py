# SYNC: a noise-free, exactly repeated short PRBS slot pattern is rejected ("No correlation maximum found")
# at delay 0, while the same record delayed by one sample is located.
import sys; sys.path.pop(0)
import numpy as np
from opticomlib.lab import SYNC
from opticomlib.devices import PRBS
bad = 0
for order, n, sps, d in [(23, 23, 1, 0), (23, 23, 1, 1), (15, 16, 1, 0), (23, 24, 2, 0), (23, 24, 2, 5)]:
    pat = PRBS(order, len=n).data; l = n*sps
    rx = np.roll(np.tile(np.kron(pat, np.ones(sps)), 3), d)              # three clean copies delayed by d
    try: got = SYNC(rx, pat, sps)[1]
    except ValueError as e: got = f'ValueError: {e}'
    print(f'PRBS({order}, len={n}) sps={sps} d={d}: expected index {d}, got {got}')
    bad += got != d
sys.exit(1 if bad else 0)
