from .typing import *
from .utils import *

__version__ = '1.5.11'

