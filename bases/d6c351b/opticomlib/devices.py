"""
.. rubric:: Devices
.. autosummary::

   PRBS
   DAC
   LASER
   PM
   MZM
   BPF
   EDFA
   DM
   FIBER
   LPF
   PD
   ADC
   GET_EYE
   SAMPLER
   FBG
"""

import numpy as np
import scipy.signal as sg
from typing import Literal, Union, Callable
from scipy.integrate import solve_ivp
from scipy.stats import gaussian_kde
from scipy.constants import pi, k as kB, e, h, c
from numpy.fft import fft, ifft, fftshift, ifftshift
import sklearn.cluster as sk
from tqdm.auto import tqdm  # progress bar
import warnings
import matplotlib.pyplot as plt

from .typing import (
    electrical_signal,
    binary_sequence,
    optical_signal,
    gv,
    eye,
)

from .utils import (
    idb,
    db,
    idbm,
    dbm,
    tic,
    toc,
    rcos,
    si,
    tau_g,
    dispersion,
    shortest_int,
)

plt.rcParams["font.family"] = "serif"


def PRBS(
    order: Literal[7, 9, 11, 15, 20, 23, 31],
    len: int = None,
    seed: int = None,
    return_seed: bool = False,
):
    r"""**Pseudorandom binary sequence generator**

    Parameters
    ----------
    order : :obj:`int`, {7, 9, 11, 15, 20, 23, 31}
        degree of the generating pseudorandom polynomial
    len : :obj:`int`, optional
        lenght of output binary sequence
    seed : :obj:`int`, optional
        seed of the generator (initial state of the LFSR).
        It must be provided if you want to continue the sequence.
        Default is 2**order-1.
    return_seed : :obj:`bool`, optional
        If True, the last state of LFSR is returned. Default is False.

    Returns
    -------
    out : :obj:`binary_sequence`
        generated pseudorandom binary sequence

    Raises
    ------
    ValueError
        If ``order`` is not in [7, 9, 11, 15, 20, 23, 31].
    TypeError
        If ``len`` is not an integer.

    Warns
    -----
    UserWarning
        If the seed is 0 or a multiple of 2**order.

    Examples
    --------
    You can generate a PRBS sequence using the following code:

    >>> from opticomlib.devices import PRBS
    >>> PRBS(order=7, len=10)
    binary_sequence([1 0 0 0 0 0 0 1 0 0])
    >>> PRBS(order=31, len=20)
    binary_sequence([1 0 0 0 0 0 0 0 0 0 0 0 0 0 0 0 0 0 0 0])

    You can fix the LFSR iniitial state of generator by using the following code:

    >>> PRBS(order=7, len=10, seed=124)
    binary_sequence([0 0 0 0 0 1 0 0 0 0])


    Notes
    -----
    For more details, see [prbs]_.

    - :math:`2^7-1` bits. Polynomial :math:`= X^7 + X^6 + 1`
    - :math:`2^9-1` bits. Polynomial :math:`= X^9 + X^5 + 1`
    - :math:`2^{11}-1` bits. Polynomial :math:`= X^{11} + X^9 + 1`
    - :math:`2^{15}-1` bits. Polynomial :math:`= X^{15} + X^{14} + 1`
    - :math:`2^{20}-1` bits. Polynomial :math:`= X^{20} + X^3 + 1`
    - :math:`2^{23}-1` bits. Polynomial :math:`= X^{23} + X^{18} + 1`
    - :math:`2^{31}-1` bits. Polynomial :math:`= X^{31} + X^{28} + 1`

    References
    ----------
    .. [prbs] "Pseudorandom binary sequence" https://en.wikipedia.org/wiki/Pseudorandom_binary_sequence
    """
    tic()
    taps = {
        7: [7, 6],
        9: [9, 5],
        11: [11, 9],
        15: [15, 14],
        20: [20, 3],
        23: [23, 18],
        31: [31, 28],
    }
    seed = seed % (2**order) if seed is not None else (1 << order) - 1
    if seed == 0:
        seed = 1
        warnings.warn(
            "The seed can't be 0 or a multiple of 2**order. It has been changed to 1.",
            UserWarning,
        )

    if len is not None:
        if not isinstance(len, int):
            raise TypeError("The parameter `len` must be an integer.")
        elif len <= 0:
            raise ValueError(
                "The parameter `len` must be an integer greater than cero."
            )
    else:
        len = 2**order - 1

    if order not in taps.keys():
        raise ValueError(
            "The parameter `order` must be one of the following values (7, 9, 11, 15, 20, 23, 31)."
        )

    prbs = np.empty((len,), dtype=np.uint8)  # Preallocate memory for the PRBS
    lfsr = seed  # initial state of the LFSR
    tap1, tap2 = np.array(taps[order]) - 1

    index = 0
    while index < len:
        prbs[index] = lfsr & 1
        new = ((lfsr >> tap1) ^ (lfsr >> tap2)) & 1
        lfsr = ((lfsr << 1) | new) & (1 << order) - 1
        index += 1
        # if lfsr == seed:
        #     break

    output = binary_sequence(prbs)
    output.execution_time = toc()

    if not return_seed:
        return output
    return output, lfsr


def DAC(
    input: str | list | tuple | np.ndarray | binary_sequence,
    bias: float = 0.0,
    Vout: float = 1.0,
    pulse_shape: Literal["nrz", "rz", "rect", "gaussian"] = "nrz",
    BW: float = None,
    **kwargs,
):
    r"""**Digital-to-Analog Converter**

    Converts a binary sequence into an electrical signal, sampled at a frequency ``gv.fs``.

    Warning
    -------
    Parameter value ``pulse_shape='rect'`` is equivalent to ``pulse_shape='nrz'``. It is recommended to use ``pulse_shape='nrz'``, ``'rect'`` will be removed in futures versions.

    Parameters
    ----------
    input : :obj:`str`, :obj:`list`, :obj:`tuple`, :obj:`np.ndarray`, or :obj:`binary_sequence`
        Input binary sequence.
    bias : :obj:`float`
        DC bias of the output signal. Default: 0.0
    Vout : :obj:`float`
        Output signal amplitude. Should be in the range [-48, 48] Volts. Default: 1.0
    pulse_shape : :obj:`str`, {'nrz', 'rect', 'gaussian'}
        Pulse shape at the output. Default: 'nrz'
    BW : :obj:`float`
        Bandwidth of DAC. If ``None`` bandwidth is not limited. Default: None

    Other Parameters
    ----------------
    c : :obj:`float`
        Chirp of the Gaussian pulse. Only applicable if ``pulse_shape='gaussian'``. Default: 0.0
    m : :obj:`int`
        Order of the super-Gaussian pulse. Only applicable if ``pulse_shape='gaussian'``. Default: 1
    T : :obj:`int`
        Pulse width at half maximum in number of samples. Only applicable if ``pulse_shape='gaussian'``. Default: ``gv.sps``

    Returns
    -------
    :obj:`electrical_signal`
        The converted electrical signal.

    Raises
    ------
    ValueError
        If ``pulse_shape`` is not ``'rect'`` or ``'gaussian'``.
        If ``Vout`` is not between -48 and 48 Volts.
        If ``bias`` is not between -48 and 48 Volts.
        If ``T`` is <=0 or greater than 2 times the samples per bit.
        If ``m`` is not a positive integer.
    TypeError
        If ``Vout`` is not a scalar value.
        If ``bias`` is not a scalar value.
        If ``c`` is not a scalar value.
        If ``m`` is not an integer value.
        If ``T`` is not an integer value.

    Examples
    --------
    .. plot::
        :include-source:
        :alt: DAC example 1
        :align: center

        from opticomlib.devices import DAC
        from opticomlib import gv

        gv(sps=32) # set samples per bit

        DAC('0 0 1 0 0', Vout=5, pulse_shape='gaussian', m=2).plot('r', lw=3, grid=True).show()
    """
    tic()
    if not isinstance(input, binary_sequence):
        input = binary_sequence(input)

    sps = gv.sps

    if pulse_shape in ["rect", "nrz", "NRZ"]:
        x = np.kron(input.data, np.ones(sps))

    elif pulse_shape in ["rz", "RZ"]:
        rz_pulse = np.zeros(sps)
        rz_pulse[: sps // 2] = 1

        mask = np.tile(rz_pulse, input.len())

        x = np.kron(input.data, np.ones(sps)) * mask

    elif pulse_shape in ["gaussian", "GAUSSIAN"]:
        c = kwargs.get("c", 0.0)
        m = kwargs.get("m", 1)
        T = kwargs.get("T", sps)

        if not isinstance(c, (int, float)):
            raise TypeError("The parameter `c` must be a scalar value.")

        if not isinstance(m, int):
            raise TypeError("The parameter `m` must be an integer value.")
        else:
            if m <= 0:
                raise ValueError("The parameter `m` must be a positive integer value.")

        if not isinstance(T, int):
            raise TypeError("The parameter `T` must be an integer value.")
        else:
            if T > 2 * sps or T <= 0:
                raise ValueError("The parameter `T` must be in the range [0, 2*sps].")

        def p(t, T):
            return np.exp(-(1 + 1j * c) / 2 * (t / T) ** (2 * m))

        t = np.linspace(-4 * sps, 4 * sps, 8 * sps)  # time vector of the Gaussian pulse
        k = 2 * (2 * np.log(2)) ** (
            1 / (2 * m)
        )  # scaling factor between the width of a slot and the standard deviation of a Gaussian pulse
        pulse = p(t, T / k)  # gaussian pulse

        s = np.zeros(input.len() * sps)
        s[int(sps // 2) :: sps] = input.data
        s[int(sps // 2 - 1) :: sps] = input.data

        x = sg.fftconvolve(s, pulse, mode="same") / 2
    else:
        raise ValueError(
            'The parameter `pulse_shape` must be one of the following values ("rect", "gaussian")'
        )

    if Vout is not None:
        if not isinstance(Vout, (int, float)):
            raise TypeError("The parameter `Vout` must be a scalar value.")
        if np.abs(Vout) >= 48:
            raise ValueError(
                "The parameter `Vout` must be in the range [-48, 48] Volts."
            )
        x = x * Vout

    if bias is not None:
        if not isinstance(bias, (int, float)):
            raise TypeError("The parameter `bias` must be a scalar value.")
        if np.abs(bias) >= 48:
            raise ValueError(
                "The parameter `bias` must be in the range [-48, 48] Volts."
            )
        x = x + bias

    output = electrical_signal(x)

    if BW is not None:
        output = LPF(output, BW)

    output.execution_time = toc()
    return output


def LASER(t, p, lw=None, rin=None,  df=None):
    r"""
    **Continuous Wave Laser**

    Simple model of Laser with phase and RIN noises. Baseband equivalent (complex envelope).

    Parameters
    ----------
    t : :obj:`ndarray`
        Time vector.
    p : :obj:`float`
        Optical Power of laser, in dBm.
    lw : :obj:`float`
        LineWidth of laser, in Hz.
    rin : :obj:`float`
        Relative Intensity Noise power density, in dB/Hz.
    df : :obj:`float`
        Frequency offset of the laser, in Hz.

    Returns
    -------
    op_output : :obj:`optical_signal`
        Complex envolve of laser optical signal.

    Notes
    -----
    
    *Base-band equivalent (Complex Envelope)*

    Simulate a laser in band-pass is impossible in practice due to THz frequencies. So that base-band equivalent is used to simulate the complex envelop
    of optical signal:

    .. math:: E_{BB}(t) = \sqrt{P_0[1+\text{rin}(t)]} \cdot e^{j\phi_N(t)}e^{j\Delta\omega t}

    where :math:`P_0` is the optical power of laser, :math:`rin(t)` is the relative intensity noise, :math:`\phi_N(t)` is the phase noise, :math:`\Delta\omega` is the optical frequency offset respect of central frequency of simulation ``gv.f0``. It can be converted to a band-pass signal by making:

    .. math:: E(t) = \sqrt{2} \cdot Re\{E_{BB}(t)e^{j\omega_0 t}\}


    *Phase Noise as Wiener Random Process*
    
    In the active laser medium (atoms, molecules or carriers), photons can be emitted spontaneously when electrons decay from an excited to a fundamental state. These photons have random phases, which introduces phase noise in the emitted light.
    The phase noise is modeled as a Wiener process, where the phase at time :math:`t_{n+1}` is given by:

    .. math:: W(t_{n+1}) = W(t_n) + \Delta W
    
    where:

    1. :math:`\Delta W \sim \mathcal{N}(0,\sigma^2)`, is a gaussian increment of zero mean and variance :math:`\sigma^2`.
    2. :math:`\sigma^2` depend of Laser Linewidth :math:`\Delta \nu`:

    .. math:: \sigma^2 = 2\pi\Delta \nu \cdot \delta t
    
    where :math:`\delta t` is the sampling interval. Phase noise :math:`\phi_N(t)` is proportional to :math:`W(t)`.

    
    *Relative Intensity Noise (RIN)*

    The RIN is the relative fluctuations in laser intensity or optical power due to variations in the output number of photons. It is modeled as gaussian noise :math:`\mathcal{N}(0, \sigma_{RIN}^2)`, where:

    .. math:: \sigma_{RIN}^2 = 10^{\text{RIN}_\text{dB}/10} \cdot f_s 

    where :math:`f_s` is the sampling frequency and :math:`\text{RIN}_\text{dB}` is the RIN spectral density in dB/Hz.

    
    Examples
    --------
    For an ideal Laser with linewidth zero (without phase noise), we set parameter ``lw=None`` or just ignore it when call the laser function. Lets try a little offset frequency of 1 GHz as well.
    We can see tha optical signal is a continuous wave with 1000 mW of power (1 W), and the spectrum is a delta at frequency 1 GHz with a floor noise due to RIN, as expected. 
    
    .. code-block:: python
        :linenos:

        from opticomlib.devices import LASER, gv
        from opticomlib import gv, np, plt

        t = np.arange(0, 100e-9, gv.dt)

        P = 30       # 30 dBm (1 W)
        RIN = -140   # -140 dB/Hz Spectral density of RIN
        df = 1e9     # 1 GHz frequency offset   
        
        l = LASER(t, p=P, rin=RIN, df=df) 

        plt.subplot(211)
        l.plot('b',  style='light').grid()
        plt.title('Time Domain')
        plt.ylim(0, 2000)
        plt.xlim(0, 100)

        plt.subplot(212)
        l.psd('r', style='light').grid()
        plt.title('Frequency domain')
        plt.ylim(-50, 40)
        plt.tight_layout()
        plt.show()

    .. image:: _images/LASER_example1.svg
        :width: 100%
        :align: center

    In a more practical situation, active medium of laser have spontaneous emissions that cause phase noise and therefore an spread in bandwidth. 
    The follow example show this spread.  

    .. code-block:: python
        :linenos:

        from opticomlib.devices import LASER, gv
        from opticomlib import gv, np, plt

        t = np.arange(0, 100e-9, gv.dt)

        P = 30       # 30 dBm (1 W)
        LW = 10e6    # 10 MHz laser linewidth
        RIN = -140   # -140 dB/Hz Spectral density of RIN
        
        l = LASER(t, p=P, lw=LW, rin=RIN) 

        plt.subplot(211)
        l.plot('b',  style='light').grid()
        plt.title('Time Domain')
        plt.ylim(0, 2000)
        plt.xlim(0, 100)

        plt.subplot(212)
        l.psd('r', style='light').grid()
        plt.title('Frequency domain')
        plt.ylim(-50, 40)
        plt.tight_layout()
        plt.show()

    .. image:: _images/LASER_example2.svg
        :width: 100%
        :align: center
    """
    tic()
    op_output = np.ones_like(t) * np.sqrt( idbm(p) )

    if lw is not None: 
        # generate phase noise (random walk - wiener)
        phase_noise = np.cumsum( np.random.normal(0, np.sqrt(2*pi * lw * gv.dt), t.size) )

        # add the phase noise to the signal
        op_output = op_output * np.exp( 1j * phase_noise ) 

    if rin is not None:  
        # generate rin noise
        rin_noise = np.random.normal(0, np.sqrt( idb(rin) * gv.fs ) , t.size)
        
        if rin_noise.min() < -1:
            raise ValueError('Noise power is to high, try decrease RIN parameter.')
        
        # add rin noise to the signal
        op_output = op_output * np.sqrt(1 + rin_noise)
    
    if df is not None:
        if np.abs(df) > gv.fs/2:
            raise ValueError('The laser frequency is out of the Nyquist range. Try increase the sampling frequency.')

        op_output = op_output * np.exp(1j * 2*pi*df * t)

    op_output = optical_signal(op_output)
    op_output.execution_time = toc()
    return op_output


def PM(
    op_input: optical_signal,
    el_input: Union[float, np.ndarray, electrical_signal],
    Vpi: float = 5.0,
):
    r"""
    **Optical Phase Modulator**

    Modulate the phase of the input optical signal through input electrical signal.

    Parameters
    ----------
    op_input : :obj:`optical_signal`
        Optical signal to be modulated.
    el_input : :obj:`float`, :obj:`ndarray`, or :obj:`electrical_signal`
        Driver voltage. It can be an integer value, in which case the phase modulation is constant, or an electrical signal of the same length as the optical signal.
    Vpi : :obj:`float`
        Voltage at which the device achieves a phase shift of :math:`\pi`. Default value is 5.0.

    Returns
    -------
    op_output: :obj:`optical_signal`
        Modulated optical signal.

    Raises
    ------
    TypeError
        If ``op_input`` type is not [:obj:`optical_signal`].
        If ``el_input`` type is not in [:obj:`float`, :obj:`ndarray`, :obj:`electrical_signal`].
    ValueError
        If ``el_input`` is [:obj:`ndarray`] or [:obj:`electrical_signal`] but, length is not equal to ``op_input`` length.

    Notes
    -----
    The output signal is given by:

    .. figure:: _images/PMv2.png
        :width: 50%
        :align: center
        :alt: MZM

    .. math:: E_{out} = E_{in} \cdot e^{\left(j\pi \frac{u(t)}{V_{\pi}}\right)}

    Examples
    --------
    .. code-block:: python
        :linenos:

        from opticomlib.devices import PM
        from opticomlib import optical_signal, gv
        import matplotlib.pyplot as plt
        import numpy as np

        gv(sps=16, R=1e9) # set samples per bit and bitrate

        op_input = optical_signal(np.exp(1j*np.linspace(0,4*np.pi, 1000))) # input optical signal ( exp(j*w*t) )
        t = op_input.t()*1e9

        fig, axs = plt.subplots(3,1, sharex=True, tight_layout=True)

        # Constant phase
        output = PM(op_input, el_input=2.5, Vpi=5)

        axs[0].set_title(r'Constant phase change ($\Delta f=0$)')
        axs[0].plot(t, op_input.signal[0].real, 'r-', label='input', lw=3)
        axs[0].plot(t, output.signal[0].real, 'b-', label='output', lw=3)
        axs[0].grid()

        # Lineal phase
        output = PM(op_input, el_input=np.linspace(0,5*np.pi,op_input.len()), Vpi=5)

        axs[1].set_title(r'Linear phase change  ($\Delta f \rightarrow cte.$)')
        axs[1].plot(t, op_input.signal[0].real, 'r-', label='input', lw=3)
        axs[1].plot(t, output.signal[0].real, 'b-', label='output', lw=3)
        axs[1].grid()

        # Quadratic phase
        output = PM(op_input, el_input=np.linspace(0,(5*np.pi)**0.5,op_input.len())**2, Vpi=5)

        plt.title(r'Quadratic phase change ($\Delta f \rightarrow linear$)')
        axs[2].plot(t, op_input.signal[0].real, 'r-', label='input', lw=3)
        axs[2].plot(t, output.signal[0].real, 'b-', label='output', lw=3)
        axs[2].grid()

        plt.xlabel('Tiempo [ns]')
        plt.legend(bbox_to_anchor=(1, 1), loc='upper left')
        plt.show()

    .. image:: _images/PM_example1.svg
        :width: 100%
        :align: center
    """
    tic()

    if not isinstance(op_input, optical_signal):
        raise TypeError("`op_input` must be of type (optical_signal).")

    if isinstance(el_input, (float, int, np.number)):
        el_input = np.ones(op_input.len()) * el_input
    elif isinstance(el_input, electrical_signal):
        el_input = el_input.signal
        if el_input.size != op_input.len():
            raise ValueError(
                "The length of `el_input` must be equal to the length of `op_input`."
            )
    elif isinstance(el_input, np.ndarray):
        if len(el_input) != op_input.len():
            raise ValueError(
                "The length of `el_input` must be equal to the length of `op_input`."
            )
    else:
        raise TypeError("`el_input` must be of type (int or electrical_signal).")

    output = optical_signal(np.zeros_like(op_input.signal))

    output.signal = op_input.signal * np.exp(1j * el_input * pi / Vpi)

    if op_input.noise is not None:
        output.noise = op_input.noise * np.exp(1j * el_input * pi / Vpi)

    output.execution_time = toc()
    return output


def MZM(
    op_input: optical_signal,
    el_input: float | np.ndarray | electrical_signal,
    bias: float = 0.0,
    Vpi: float = 5.0,
    loss_dB: float = 0.0,
    ER_dB: float = 26.0,
    pol: Literal["x", "y"] = "x",
    BW: float = None,
):
    r"""
    **Mach-Zehnder modulator**

    Asymmetric coupler and opposite driving voltages model (:math:`u_1(t)=-u_2(t)=u(t)` Push-Pull configuration).
    The input and output are polarization maintained. Internally, the modulator can select the polarization
    to be modulated by setting the parameter ``pol`` to ``'x'`` or ``'y'``. If one of them is selected, the other is
    strongly attenuated (set to zeros).

    Parameters
    ----------
    op_input : :obj:`optical_signal`
        Optical signal to be modulated. This optical signal must contain only one polarization ``op_input.n_pol=1``. Otherwise
        it remove the second polarization.
    el_input : Number, :obj:`ndarray`, or :obj:`electrical_signal`
        Driver voltage, with zero bias.
    bias : :obj:`float`, optional
        Modulator bias voltage. Default is 0.0.
    Vpi : :obj:`float`, optional
        Voltage at which the device switches from on-state to off-state. Default is 5.0 V.
    loss_dB : :obj:`float`, optional
        Propagation or insertion losses in the modulator, value in dB. Default is 0.0 dB.
    ER_dB: :obj:`float`, optional
        Extinction ratio of the modulator, in dB. Default is 26 dB.
    pol : :obj:`str`, {'x', 'y'} optional
        Polarization of the modulator. Default is ``'x'``.
    BW : :obj:`float`, optional
        Modulator bandwidth in Hz. If not provided, the bandwidth is not limited.

    Returns
    -------
    :obj:`optical_signal`
        Modulated optical signal.

    Raises
    ------
    TypeError
        If ``op_input`` type is not [:obj:`optical_signal`].
        If ``el_input`` type is not in [:obj:`float`, :obj:`ndarray`, :obj:`electrical_signal`].
    ValueError
        If ``el_input`` is [:obj:`ndarray`] or [:obj:`electrical_signal`] but, length is not equal to ``op_input`` length.

    Notes
    -----
    .. figure:: _images/MZMv2.png
        :width: 50%
        :align: center
        :alt: MZM

    The output signal is given by [1]_:


    .. math::
        \vec{E}_{out} = \vec{E}_{in} \cdot \sqrt{l} \cdot \left[ \cos\left(\frac{\pi}{2V_{\pi}}(u(t)+V_{bias})\right) + j \frac{\eta}{2} \sin\left(\frac{\pi}{2V_{\pi}}(u(t)+V_{bias})\right) \right]

    where :math:`\eta = 2\times 10^{-ER_{dB}/10}` and :math:`l = 10^{-loss_{dB}/10}`.

    References
    ----------
    .. [1] Tetsuya Kawanishi, "Electro-optic Modulation for Photonic Networks", Chapter 4.3 (2022). doi: https://doi.org/10.1007/978-3-030-86720-1

    Examples
    --------
    .. code-block:: python
        :linenos:

        from opticomlib import idbm, dbm, optical_signal, gv
        from opticomlib.devices import MZM

        import numpy as np
        import matplotlib.pyplot as plt

        gv(sps=128, R=10e9) # set samples per bit and bitrate

        Vpi = 5
        tx_seq = np.array([0, 1, 0, 1, 0, 0, 1, 1, 0, 0], bool)

        V = DAC(~tx_seq, Vout=Vpi, pulse_shape='rect') - Vpi/2

        input = optical_signal( np.ones_like(V.signal)*idbm(10)**0.5 )
        input.noise = np.random.normal(0, 0.01, input.len())
        t = input.t()*1e9

        mod_sig = MZM(input, el_input=V, bias=Vpi/2, Vpi=Vpi, loss_dB=2, ER_dB=40, BW=40e9)

        fig, axs = plt.subplots(3,1, sharex=True, tight_layout=True)


        # Plot input and output power
        axs[0].plot(t, dbm(input.abs()**2), 'r-', label='input', lw=3)
        axs[0].plot(t, dbm(mod_sig.abs()**2), 'C1-', label='output', lw=3)
        axs[0].legend(bbox_to_anchor=(1, 1), loc='upper left')
        axs[0].set_ylabel('Potencia [dBm]')
        for i in t[::gv.sps]:
            axs[0].axvline(i, color='k', linestyle='--', alpha=0.5)

        # # Plot fase
        phi_in = input.phase()
        phi_out = mod_sig.phase()

        axs[1].plot(t, phi_in, 'b-', label='Fase in', lw=3)
        axs[1].plot(t, phi_out, 'C0-', label='Fase out', lw=3)
        axs[1].set_ylabel('Fase [rad]')
        axs[1].legend(bbox_to_anchor=(1, 1), loc='upper left')
        for i in t[::gv.sps]:
            axs[1].axvline(i, color='k', linestyle='--', alpha=0.5)

        # Frecuency chirp
        freq_in = 1/2/np.pi*np.diff(phi_in)/np.diff(t)
        freq_out = 1/2/np.pi*np.diff(phi_out)/np.diff(t)

        axs[2].plot(t[:-1], freq_in, 'k', label='Frequency in', lw=3)
        axs[2].plot(t[:-1], freq_out, 'C7', label='Frequency out', lw=3)
        axs[2].set_xlabel('Tiempo [ns]')
        axs[2].set_ylabel('Frequency Chirp [Hz]')
        axs[2].legend(bbox_to_anchor=(1, 1), loc='upper left')
        for i in t[::gv.sps]:
            axs[2].axvline(i, color='k', linestyle='--', alpha=0.5)
        plt.show()

    .. image:: _images/MZM_example.svg
        :width: 100%
        :align: center
    """

    tic()
    if not isinstance(op_input, optical_signal):
        raise TypeError("`op_input` must be of type (optical_signal).")

    if not isinstance(el_input, electrical_signal):
        el_input = electrical_signal(el_input)

    if op_input.len() != el_input.len() and el_input.len() != 1:
        raise ValueError(
            "Length of `op_input` and `el_input` must be equal or `el_input` must be an scalar value. Current lengths are {} and {}.".format(
                op_input.len(), el_input.len()
            )
        )

    if pol not in ["x", "y"]:
        raise ValueError(
            "The parameter `pol` must be one of the following values ('x', 'y')."
        )

    loss = idb(-loss_dB)  # Propagation losses
    eta = 2 * idb(-ER_dB) ** 0.5  # arms desbalance factor

    output = op_input[:]

    g_t = pi / 2 / Vpi * (el_input.signal + bias)
    h_t = loss**0.5 * (np.cos(g_t) + 1j * eta / 2 * np.sin(g_t))

    output.signal = output.signal * h_t
    if output.noise is not None:
        output.noise = output.noise * h_t

    if pol == "x" and output.n_pol == 2:
        output.signal[1] = 0
        if output.noise is not None:
            output.noise[1] = 0
    elif pol == "y" and output.n_pol == 2:
        output.signal[0] = 0
        if output.noise is not None:
            output.noise[0] = 0

    if BW is not None:
        output = BPF(
            output, BW
        )  # Filter the modulated optical signal and add the execution time of the filter

    output.execution_time = toc()
    return output


def BPF(input: optical_signal, BW: float, n: int = 4):
    r"""
    **Optical Band-Pass Filter**

    Filters the input optical signal, allowing only the desired frequency band to pass.
    Bessel filter model.

    Parameters
    ----------
    input : optical_signal
        The optical signal to be filtered.
    BW : float
        The bandwidth of the filter in Hz.
    n : int, default: 4
        The order of the filter.

    Returns
    -------
    optical_signal
        The filtered optical signal.
    """
    tic()

    if not isinstance(input, optical_signal):
        raise TypeError("`input` must be of type (optical_signal).")

    sos_band = sg.bessel(
        N=n, Wn=BW / 2, btype="low", fs=gv.fs, output="sos", norm="mag"
    )

    output = input[:]  # copy the input signal

    padlen = min(3 * (2 * len(sos_band) + 1), input.len() - 1)  # scipy's default edge padding grows with the order, short inputs only have len-1 samples to give

    output.signal = sg.sosfiltfilt(sos_band, input.signal, axis=-1, padlen=padlen)

    if output.noise is not None:
        output.noise = sg.sosfiltfilt(sos_band, input.noise, axis=-1, padlen=padlen)

    output.execution_time = toc()
    return output


def EDFA(input: optical_signal, G: float, NF: float, BW: float=None):
    r"""
    **Erbium Doped Fiber**

    Amplifies the optical signal at the input, adding amplified spontaneous emission (ASE) noise in two polarizations at the output.
    Simplest model (no saturation output power).

    Parameters
    ----------
    input : optical_signal
        The optical signal to be amplified.
    G : float
        The gain of the amplifier, in dB.
    NF : float
        The noise figure of the amplifier, in dB.
    BW : float, optional
        The bandwidth of the amplifier, in Hz. If ``None`` bandwidth will be ``gv.fs``.

    Returns
    -------
    optical_signal
        The amplified optical signal.

    Raises
    ------
    TypeError
        If ``input`` is not an optical_signal.

    Notes
    -----
    ASE noise power must be theoretically:

    .. math:: 
        P_\text{ase} = \text{NF} h f_0 (G-1) BW

    where :math:`h` is the Planck constant and :math:`f_0` is the central frequency of communication 
    (by default ``gv.f0`` is taken, if you wish change this value, you can change ``wavelength`` 
    parameter in ``gv()``). Noise is generated for two polarizations xy as a complex signal, with a
    distribution :math:`\mathcal{N}(0, P_\text{ase}/4)` for real and imaginary parts.  

    Examples
    --------
    Following picture show the input-output of EDFA from a sinusoidal signal. For values of example, the output noise power 
    must be :math:`P_{ase} \approx -27` dBm.

    .. plot::
        :include-source:
        :alt: DM example 1
        :align: center

        from opticomlib.devices import EDFA
        from opticomlib import optical_signal, gv, np, plt

        gv(sps=256, R=1e9, N=5, G=20, NF=5, BW=50e9)

        x = optical_signal(
            signal=[
                (1e-3)*np.sin(2*np.pi*gv.R*gv.t), 
                np.zeros_like(gv.t)
            ], 
            n_pol=2
        )

        y = EDFA(x, G=gv.G, NF=gv.NF, BW=gv.BW)

        fig, axs = plt.subplots(2,1, sharex=True, figsize=(8,6))
        plt.suptitle(f"EDFA input-output (G={gv.G} dB, NF={gv.NF} dB, BW={gv.BW*1e-9} GHz)")

        axs[0].set_title('Input')
        axs[0].plot(gv.t*1e9, x.signal.T)
        axs[0].set_ylim(-0.015, 0.015)

        axs[1].set_title('Output')
        axs[1].plot(gv.t*1e9, y.signal.T + y.noise.T.real)
        axs[1].set_ylim(-0.015, 0.015)

        plt.legend(['x-pol', 'y-pol'])
        plt.xlabel('t [ns]')
        plt.show()

    >>> from opticomlib import dbm
    >>> print(dbm(y.power('noise').sum())) # print sum of power of two polarizations
    -28.068263005828555

    We can see that noise power is a little less than theoretical prediction, this is because 
    the filter used in the EDFA is not a rectangular response filter (it's a 4th order Bessel filter).
    """
    tic()

    if not isinstance(input, optical_signal):
        raise TypeError("`input` must be of type (optical_signal).")

    output = optical_signal(signal=input.signal, noise=input.noise, n_pol=2) * np.sqrt( idb(G) )
    if output.noise is not None:
        output.noise = output.noise * np.sqrt( idb(G) )  # the `*` operator scales only the signal component
    
    if input.n_pol == 1:
        output.signal[1] = np.zeros_like(output.signal[0])  # y-polarization of signal is set to zeros.
        if output.noise is not None:
            output.noise[1] = np.zeros_like(output.noise[0])  # and so is the y-polarization of the input's noise

    # generate ASE noise (2-polarizations with real and imaginary parts)
    # gv.fs is taken as initial bandwidth of noise 
    P_ase = idb(NF) * h * gv.f0 * (idb(G) - 1) * gv.fs

    # generate 4 vectors for, x-polarization real and imaginary parts and y-polarization real and imaginary parts
    ase = np.sqrt(P_ase/4) * np.random.randn(4, input.len())
    ase = ase[:2] + 1j*ase[2:]

    if output.noise is not None:
        output.noise = output.noise + ase
    else:
        output.noise = ase

    if BW is not None:
        output = BPF(output, BW)

    output.execution_time = toc()
    return output


def DM(input: optical_signal, D: float, retH: bool = False):
    r"""
    **Dispersive Medium**

    Emulates a medium with only the dispersion property, i.e., only :math:`\beta_2` different from zero.

    Parameters
    ----------
    input : optical_signal
        The input optical signal.
    D : float
        The dispersion coefficient of the medium (:math:`\beta_2z`), in [ps^2].
    retH : bool, default: False
        If True, the frequency response of the medium is also returned.

    Returns
    -------
    optical_signal
        The output optical signal.
    H : ndarray
        The frequency response of the medium. If ``retH=True``.

    Raises
    ------
    TypeError
        If ``input`` is not an optical signal.

    Notes
    -----
    Frequency response of the medium is given by:

    .. math:: H(\omega) = e^{-j \frac{D}{2} \omega^2}

    The output signal is simply a fase modulation in the frequency domain of the input signal:

    .. math :: E_{out}(t) = \mathcal{F}^{-1} \left\{ H(\omega) \cdot \mathcal{F} \left\{ E_{in}(t) \right\} \right\}

    Example
    -------
    .. plot::
        :include-source:
        :alt: DM example 1
        :align: center

        from opticomlib.devices import DM, DAC
        from opticomlib import optical_signal, gv, idbm, bode

        import matplotlib.pyplot as plt
        import numpy as np

        gv(N=7, sps=32, R=10e9)

        signal = DAC('0,0,0,1,0,0,0', pulse_shape='gaussian')
        input = optical_signal( signal.signal/signal.power()**0.5*idbm(20)**0.5, n_pol=2 )

        output, H = DM(input, D=4000, retH=True)

        t = gv.t*1e9

        plt.style.use('dark_background')
        fig, ax = plt.subplots(2, 1, sharex=True, gridspec_kw={'hspace': 0.05})

        ax[0].plot(t, input.abs()[0], 'r-', lw=3, label='input')
        ax[0].plot(t, output.abs()[0], 'b-', lw=3, label='output')

        ax[0].set_ylabel(r'$|E(t)|$')

        ax[1].plot(t[:-1], np.diff(input.phase()[0])/gv.dt*1e-9, 'r-', lw=3)
        ax[1].plot(t[:-1], np.diff(output.phase()[0])/gv.dt*1e-9, 'b-', lw=3)

        plt.xlabel('Time (ns)')
        plt.ylabel(r'$f_i(t)$ (GHz)')
        plt.ylim(-150, 150)
        plt.show()
    """
    tic()

    if not isinstance(input, optical_signal):
        raise TypeError("The input must be an optical signal!")

    # Convert units of D:
    D = D * 1e-12**2

    H = np.exp(-1j * input.w() ** 2 * D / 2)

    output = (input("w") * H)("t")

    if retH:
        H = np.exp(-1j * input.w() ** 2 * D / 2)
        return output, fftshift(H)
    
    output.execution_time = toc()
    return output


def FIBER(
    input: optical_signal,
    length: float,
    alpha: float = 0.0,
    beta_2: float = 0.0,
    beta_3: float = 0.0,
    gamma: float = 0.0,
    phi_max: float = 0.05,
    show_progress=False,
):
    r"""
    **Optical Fiber**

    Simulates the transmission through an optical fiber, solving Schrödinger's equation numerically,
    by using split-step Fourier method with adaptive step (method based on limiting the nonlinear phase rotation) [#first]_.
    Polarization mode dispersion (PMD) is not considered in this model.

    Parameters
    ----------
    input : optical_signal
        Input optical signal.
    length : float
        Length of the fiber, in [km].
    alpha : float, default: 0.0
        Attenuation coefficient of the fiber, in [dB/km].
    beta_2 : float, default: 0.0
        Second-order dispersion coefficient of the fiber, in [ps^2/km].
    beta_3 : float, default: 0.0
        Third-order dispersion coefficient of the fiber, in [ps^3/km].
    gamma : float, default: 0.0
        Nonlinearity coefficient of the fiber, in [(W·km)^-1].
    phi_max : float, default: 0.05
        Upper bound of the nonlinear phase rotation, in [rad].
    show_progress : bool, default: False
        Show algorithm progress bar.

    Returns
    -------
    optical_signal
        Output optical signal.

    Raises
    ------
    TypeError
        If ``input`` is not an optical signal.

    References
    ----------
    .. [#] O.V. Sinkin; R. Holzlohner; J. Zweck; C.R. Menyuk, "Optimization of the split-step Fourier method in modeling optical-fiber communications systems," vol. 21, no. 1, pp. 61-68, Jan. 2003, doi: https://doi.org/10.1109/JLT.2003.808628

    Example
    -------
    .. plot::
        :include-source:
        :alt: FIBER example 1
        :align: center
        :caption: The input signal is a 10 Gbps NRZ signal with 20 dBm of power. The fiber has a length of 50 km, an attenuation of 0.01 dB/km,
                    a second-order dispersion of -20 ps^2/km, and a nonlinearity coefficient of 0.1 (W·km)^-1. The output signal is shown in blue.

        from opticomlib.devices import FIBER, DAC
        from opticomlib import optical_signal, gv, idbm

        gv(sps=32, R=10e9)

        signal = DAC('0,0,0,1,0,0,0', pulse_shape='gaussian')
        input = optical_signal( signal.signal/signal.power()**0.5*idbm(20)**0.5, n_pol=2)

        output = FIBER(input, length=50, alpha=0.01, beta_2=-20, gamma=0.1, show_progress=True)

        input.plot('r-', label='input', lw=3)
        output.plot('b-', label='output', lw=3).show()
    """

    tic()
    if not isinstance(input, optical_signal):
        raise TypeError("`input` must be of type (optical_signal).")

    alpha = alpha * np.log(10) / 10  # [1/km]

    w = input.w() * 1e-12  # [rad/ps]
    D_op = -alpha / 2 - 1j / 2 * beta_2 * w**2 - 1j / 6 * beta_3 * w**3

    A = input.signal

    h = (
        length
        if (alpha == 0 and beta_2 == 0 and beta_3 == 0) or gamma == 0
        else phi_max / (gamma * np.sum(np.abs(np.atleast_2d(A)) ** 2, axis=0)).max()
    )
    h = min(h, length)  # a weak signal allows a step longer than the fiber: one step of the whole length

    x_length = h

    if show_progress:
        barra_progreso = tqdm(total=100)

    while True:
        exp_NL = np.exp(1j * gamma * (h / 2) * np.abs(A) ** 2)
        exp_L = np.exp(D_op * h)
        A = exp_NL * ifft(
            exp_L * fft(exp_NL * A)
        )  # Symmetric Split-Step Fourier Method

        if show_progress:
            barra_progreso.update(100 * h / length)

        h = (
            phi_max / (gamma * np.sum(np.abs(np.atleast_2d(A)) ** 2, axis=0)).max()
            if gamma != 0
            else length
        )

        if x_length + h > length:
            break

        x_length += h

    h = length - x_length

    if h != 0:
        exp_NL = np.exp(1j * gamma * (h / 2) * np.abs(A) ** 2)
        exp_L = np.exp(D_op * h)
        A = exp_NL * ifft(exp_L * fft(exp_NL * A))

        if show_progress:
            barra_progreso.update(100 * h / length)

    output = optical_signal(A, input.noise)
    output.execution_time = toc()
    return output


def LPF(
    input: Union[np.ndarray, electrical_signal],
    BW: float,
    n: int = 4,
    fs: float = None,
    retH: bool = False,
):
    r"""
    **Low Pass Filter**

    Filters the input electrical signal, allowing only the desired frequency band to pass.
    Bessel filter model.

    Parameters
    ----------
    input : ndarray or electrical_signal
        Electrical signal to be filtered.
    BW : float
        Filter bandwidth or cutoff frequency, in [Hz].
    n : int, default: 4
        Filter order.
    fs : float, default: gv.fs
        Sampling frequency of the input signal.
    retH : bool, default: False
        If True, the frequency response of the filter is also returned.

    Returns
    -------
    electrical_signal
        Filtered electrical signal.

    Raises
    ------
    TypeError
        If ``input`` is not of type ndarray or electrical_signal.

    Example
    -------
    .. plot::
        :include-source:
        :alt: LPF example 1
        :align: center

        from opticomlib.devices import LPF
        from opticomlib import gv, electrical_signal
        import matplotlib.pyplot as plt
        import numpy as np

        gv(N = 10, sps=128, R=1e9)

        t = gv.t
        c = 20e9/t[-1]   # frequency chirp from 0 to 20 GHz

        input = electrical_signal( np.sin( np.pi*c*t**2) )
        output = LPF(input, 10e9)

        input.psd('r', label='input', lw=2)
        output.psd('b', label='output', lw=2)

        plt.xlim(-30,30)
        plt.ylim(-20, 5)
        plt.annotate('-6 dB', xy=(10, -5), xytext=(10, 2), c='r', arrowprops=dict(arrowstyle='<->'), fontsize=12, ha='center', va='center')
        plt.show()
    """
    tic()

    if not isinstance(input, (np.ndarray, electrical_signal)):
        raise TypeError("`input` must be of type (ndarray or electrical_signal).")

    elif isinstance(input, electrical_signal):
        signal = input.signal
        noise = input.noise
    else:
        input = electrical_signal(input)
        signal = input.signal
        noise = None

    if not fs:
        fs = gv.fs

    sos_band = sg.bessel(N=n, Wn=BW, btype="low", fs=fs, output="sos", norm="mag")

    output = input[:]

    padlen = min(3 * (2 * len(sos_band) + 1), signal.size - 1)  # scipy's default edge padding grows with the order, short inputs only have len-1 samples to give

    # integer samples (e.g. the uint8 slots of a binary_sequence) are filtered as floats: the odd edge extension 2*x[0]-x[k] wraps in an unsigned type
    output.signal = sg.sosfiltfilt(sos_band, signal.astype(np.result_type(signal, float)), padlen=padlen).real

    if noise is not None:
        output.noise = sg.sosfiltfilt(sos_band, noise.astype(np.result_type(noise, float)), padlen=padlen).real

    if retH:
        _, H = sg.sosfreqz(sos_band, worN=signal.size, fs=fs, whole=True)
        return output, fftshift(H)
    
    output.execution_time = toc()
    return output


def PD(
    input: optical_signal,
    BW: float,
    r: float = 1.0,
    T: float = 300.0,
    R_load: float = 50.0,
    include_noise: Literal[
        "ase-only",
        "thermal-only",
        "shot-only",
        "ase-thermal",
        "ase-shot",
        "thermal-shot",
        "all",
    ] = "all",
    i_dark: float = 10e-9,
    Fn=0,
):
    r"""
    **P-I-N Photodetector**

    Simulates the detection of an optical signal by a P-I-N photodetector.

    Parameters
    ----------
    input : :obj:`optical_signal`
        Optical signal to be photodetected.
    BW : :obj:`float`
        Detector bandwidth in [Hz].
    r : :obj:`float`, optional
        Detector responsivity in [A/W]. Default: 1.0.
    T : :obj:`float`, optional
        Detector temperature in [K]. Default: 300.0.
    R_load : :obj:`float`, optional
        Detector load resistance in [:math:`\Omega`]. Default: 50.0.
    include_noise : :obj:`str`, optional
        Type of noise to include in the simulation. Default: 'all'.
        Options include:

        - ``'ase-only'``: only include ASE noise
        - ``'thermal-only'``: only include thermal noise
        - ``'shot-only'``: only include shot noise
        - ``'ase-thermal'``: include ASE and thermal noise
        - ``'ase-shot'``: include ASE and shot noise
        - ``'thermal-shot'``: include thermal and shot noise
        - ``'all'``: include all types of noise

    i_dark : :obj:`float`, optional
        Dark current of the photodetector in [A]. Default: 10e-9 [10 nA].
    Fn : :obj:`float`, optional
        Noise figure of Photodetector amplifiers states, in [dB]. Default: 0 dB

    Returns
    -------
    electrical_signal
        The detected electrical signal, in [v].

    Raises
    ------
    TypeError
        If ``input`` is not of type optical_signal.
        If ``r``, ``T``, or ``R_load`` are not scalar values.
        If ``include_noise`` is not a string.
    ValueError
        If ``r`` is not between (0, 1].
        If ``T`` or ``R_load`` are negative values.
        If ``include_noise`` argument is not one of the valid options.

    Notes
    -----
    The total photodetected current is given by:

    .. math::
        i_{ph} = \mathcal{R}P_{in} + i_{th} + i_{sh} + i_{dark}

    where :math:`\mathcal{R}` is the responsivity of the photodetector, :math:`P_{in}` is the input power, :math:`i_{th}` and :math:`i_{sh}` are thermal and shot noise
    respectively and :math:`i_{dark}` is the dark current of photodetector.

    The input power :math:`P_{in}` is determinated as:

    .. math::
        P_{in} &= |E_x + n_x|^2 + |E_y + n_y|^2 \\
        P_{in} &= |E_x|^2 + |E_y|^2 + E_x n_x^* + E_x^* n_x + E_y n_y^*+E_y^* n_y + |n_x|^2 + |n_y|^2 \\
        P_{in} &= P_\text{sig} + P_\text{sig-ase} + P_\text{ase-ase} \\

    where :math:`E_x` and :math:`E_y` are the amplitudes of x-polarization and y-polarization modes respectively
    and :math:`n_x` and :math:`n_y` are the noise of x-polarization and y-polarization modes respectively.

    The thermal and shot noises are random variables with normal distribution and variance given by [Agrawal]_:

    .. math::
        \sigma_{th}^2 &= \frac{4k_B T}{R_L}F_n \Delta f \\
        \sigma_{sh}^2 &= 2e\left[ r(P_\text{sig} + P_\text{ase-ase}) + i_{dark} \right]\Delta f

    where :math:`k_B` is the Boltzmann constant, :math:`T` is the temperature of the photodetector, :math:`R_L` is the load resistance,
    :math:`F_n` is the noise figure of the photodetector, :math:`\Delta f` is the bandwidth of the photodetector, :math:`e` is the electron charge.

    .. math::
        i_{ph} &= \mathcal{R}P_{sig} + \mathcal{R}P_{sig-ase} + \mathcal{R}P_{ase-ase} + i_{th} + i_{sh} + i_{dark} \\
        i_{ph} &= i_\text{sig} + i_\text{sig-ase} + i_\text{ase-ase} + i_{th} + i_{sh} + i_{dark}
    
    Finally, the output voltage is given by:

    .. math::
        v_{ph} = i_{ph}R_L

    References
    ----------
    .. [Agrawal] Agrawal, G.P., "Fiber-Optic Communication Systems". Chapter 4.4 (1997).

    """
    tic()
    # check inputs
    if not isinstance(input, optical_signal):
        raise TypeError("`input` must be of type (optical_signal).")

    if not isinstance(r, (int, float)):
        raise TypeError("`r` must be a scalar value.")
    elif r <= 0 or r > 1:
        raise ValueError("`r` must be in the range (0,1]")

    if not isinstance(T, (int, float)):
        raise TypeError("`T` must be a scalar value.")
    elif T < 0:
        raise ValueError("`T` must be a positive value.")

    if not isinstance(R_load, (int, float)):
        raise TypeError("`R_load` must be a scalar value.")
    elif R_load < 0:
        raise ValueError("`R_load` must be a positive value.")

    if not isinstance(include_noise, str):
        raise TypeError("`include_noise` must be a string.")

    # function body
    i_sig = r * input.abs("signal") ** 2

    if input.n_pol == 2:
        i_sig = i_sig.sum(axis=0)

    include_noise = include_noise.lower()  # This allow write in upper or lower case

    if "thermal" in include_noise or "all" in include_noise:
        S_T = 4 * kB * T * gv.fs/2 * idb(Fn) / R_load  # thermal noise variance, in [A^2]
        i_T = np.random.normal(0, S_T**0.5, input.len())  # thermal noise current, in [A]

    if "shot" in include_noise or "all" in include_noise:
        if input.noise is not None:
            i_ase = r * input.power("noise").sum()
        else:
            i_ase = 0

        S_N = 2 * e * (i_sig.mean() + i_ase + i_dark) * gv.fs/2  # shot noise variance, in [A^2]
        i_N = np.random.normal(0, S_N**0.5, input.len())  # shot noise current, in [A]

    if "ase" in include_noise or "all" in include_noise:
        if input.noise is not None:
            i_s_n = r * (input.signal * input.noise.conj() + input.noise * input.signal.conj()).real  # SIG-Noise term
            i_n_n = r * input.abs("noise") ** 2  # Noise-Noise term

            if input.n_pol == 2:
                i_s_n = i_s_n.sum(axis=0)
                i_n_n = i_n_n.sum(axis=0)
        else:
            i_s_n = np.zeros(input.len())
            i_n_n = np.zeros(input.len())

    if include_noise == "ase-only":
        i_noise = i_s_n + i_n_n + i_dark
    elif include_noise == "thermal-only":
        i_noise = i_T + i_dark
    elif include_noise == "shot-only":
        i_noise = i_N + i_dark
    elif include_noise == "ase-shot":
        i_noise = i_s_n + i_n_n + i_N + i_dark
    elif include_noise == "ase-thermal":
        i_noise = i_s_n + i_n_n + i_T + i_dark
    elif include_noise == "thermal-shot":
        i_noise = i_T + i_N + i_dark
    elif include_noise == "all":
        i_noise = i_s_n + i_n_n + i_N + i_T + i_dark
    else:
        raise ValueError(
            "The argument `include_noise` must be one of the following: 'ase-only','thermal-only','shot-only','ase-thermal','ase-shot','thermal-shot','all'."
        )

    output = electrical_signal(signal=i_sig*R_load, noise=i_noise*R_load)
    
    output = LPF(output, BW)

    output.execution_time = toc()
    return output


def ADC(
    input: electrical_signal | np.ndarray, 
    fs: float = None,
    n: int = 8,
    otype: Literal['v', 'n'] = 'v'
) -> binary_sequence:
    r"""
    **Analog-to-Digital Converter**

    Converts an analog electrical signal into a quantized :math:`2^n` bits digital signal, sampled at a frequency `fs`.

    Parameters
    ----------
    input : electrical_signal | np.array
        Electrical signal to be quantized.
    fs : float, default: None
        Sampling frequency of the output signal. If None, signal is not sampled.
    n : int, default: 8
        Bits of quantization. Default is 8 bits.
    otype : str, default: 'v'
        Signal output type. If 'v' discrete amplitudes are return, if 'n' integer amplitudes between 0 and 2**n-1 are return. 

    Returns
    -------
    electrical_signal
        Quantized digital signal.

    Example
    -------
    .. plot::
        :include-source:
        :alt: ADC
        :align: center

        from opticomlib.devices import ADC
        from opticomlib import gv, electrical_signal
        import numpy as np

        gv(sps=64, R=1e9, N=2)

        y = electrical_signal( np.sin(2*np.pi*gv.R*gv.t) )

        yn = ADC(y, n=2)

        y.plot(
            style='light', 
            grid=True, 
            lw=5,
            label = 'analog signal'
        )
        yn.plot('.-', style='light', lw=2, label=' 2 bits quantized signal').show()
    """
    tic()

    if isinstance(input, electrical_signal):
        if input.noise is not None:
            signal = input.signal + input.noise
        else:
            signal = input.signal
    else:
        signal = input

    if fs is not None:
        signal = sg.resample(signal, int(input.len() * fs / input.fs()))

    V_min, V_max = shortest_int(signal, 99.99)
    
    dig_signal = np.round(
        ((signal - V_min) / (V_max - V_min) * (2**n - 1)).clip(0, 2**n - 1) # saturate before the cast: a huge or infinite ratio (far outlier, zero-width range) has no integer value
    ).astype(int).clip(0, 2**n - 1)  # quantize signal between 0 and 2**n-1 (samples outside the range saturate)
    
    if otype == 'v':
        dig_signal = (
            dig_signal / (2**n - 1) * (V_max - V_min) + V_min
        )  # back to discrete amplitude 
    elif otype != 'n':
        raise ValueError("`otype` must be 'v' or 'n'.")

    output = electrical_signal(dig_signal)

    output.execution_time = toc()
    return output


def GET_EYE(
    input: electrical_signal | np.ndarray,
    nslots: int = 4096,
    sps_resamp: int = None,
):
    r"""
    **Get Eye Parameters Estimator**

    Estimates all fundamental parameters and metrics of the eye diagram 
    of the input electrical signal.

    Parameters
    ----------
    input : :obj:`electrical_signal` | :obj:`np.ndarray`
        Electrical or optical signal from which the eye diagram will be estimated.
    nslots : :obj:`int`, default: 4096
        Number of slots to consider for eye reconstruction.
    sps_resamp : :obj:`int`, default: None
        Number of samples per slot to interpolate the original signal. If None the signal is not interpolated.

    Returns
    -------
    :obj:`eye`
        Object of the eye class with all the parameters and metrics of the eye diagram.

    Raises
    ------
    ValueError
        If the ``input`` is a ndarray but dimention is >2.
    TypeError
        If the ``input`` is not of type `electrical_signal`, `optical_signal` or `np.ndarray`.

    Example
    -------
    .. code-block:: python
        :linenos:

        from opticomlib.devices import PRBS, DAC, GET_EYE
        from opticomlib import gv
        import numpy as np

        gv(sps=64, R=1e9)

        y = DAC( PRBS(order=7), pulse_shape='gaussian')
        y.noise = np.random.normal(0, 0.05, y.len())

        GET_EYE(y, sps_resamp=512).plot().show() # with interpolation

    .. image:: /_images/GET_EYE_example1.png
    """
    tic()

    def find_nearest(
        levels: np.ndarray, data: np.ndarray | float
    ) -> np.ndarray | float:
        r"""
        Find the element in 'levels' that is closest to each value in 'data'.

        Parameters
        ----------
        levels : np.ndarray
            Reference levels.
        data : Union[np.ndarray, float]
            Values to compare.

        Returns
        -------
        Union[np.ndarray, float]
            Vector or float with the values from 'levels' corresponding to each value in 'data'.
        """

        if isinstance(data, (float, np.float64)):
            return levels[np.argmin(np.abs(levels - data))]
        else:
            return levels[
                np.argmin(
                    np.abs(
                        np.repeat([levels], len(data), axis=0) - np.reshape(data, (-1, 1))
                    ),
                    axis=1,
                )
            ]

    #########################
    ## Preprocessing input ##
    #########################

    eye_dict = {}

    if not isinstance(input, electrical_signal):
        input = electrical_signal(input)

    eye_dict["sps"] = sps = input.sps()
    eye_dict["dt"] = dt = input.dt()

    # truncate
    n = input.len() % sps  # a partial slot at the end
    if n: # if rest is not zero
        input = input[:-n] # ignore last 'n' samples
                              
    nslots = min( int(input.len() // sps), nslots) # determine the minimum between slots of signal and 'nslots' parameter
    input = input[: nslots * sps] # truncate signal

    input = (
        (input.signal + input.noise).real
        if input.noise is not None
        else input.signal.real
    ) # add noise to signal, if there is noise

    if nslots % 2:  # odd number of slots: the eye folds two slots per trace, so the record is continued by its first slot (it is periodic: the devices are FFT based)
        input = np.concatenate([input, input[:sps]])
        nslots += 1

    input = np.roll(input, -sps // 2 + 1)  # roll (-sps/2) to focus the eye in center of figure
    y_set = np.unique(input) # take a set of signal values

    # resampled the signal to obtain a higher resolution in both axes
    if sps_resamp:
        input = sg.resample(input, nslots * sps_resamp)
        eye_dict["y"] = input
        eye_dict["sps_resamp"] = sps_resamp
        eye_dict["t"] = t = np.kron(np.ones(nslots // 2), np.linspace(-1, 1 - 1/sps_resamp, 2 * sps_resamp))
    else:
        eye_dict["y"] = input
        eye_dict["t"] = t = np.kron(np.ones(nslots // 2), np.linspace(-1, 1 - 1/sps, 2 * sps))

    ###############
    ## Algorithm ##
    ###############

    kmeans = sk.KMeans(n_clusters=2, n_init=10) # A model of sklearn to separete clusters

    # Obtain centroide of data (y): the two clusters start at the extremes of the record - a least-squares split with a random
    # start halves the noise cloud of one level when the other level holds only a handful of samples
    levels = sk.KMeans(n_clusters=2, n_init=1, init=np.array([[input.min()], [input.max()]]))
    vm = np.mean(levels.fit(input.reshape(-1,1)).cluster_centers_)

    # we obtain the shortest interval of the upper half that contains 50% of the samples
    eye_dict["top_int"] = top_int = shortest_int(input[input > vm], percent=50)
    # We obtain the LMS of level 1
    state_1 = np.mean(top_int)
    # we obtain the shortest interval of the lower half that contains 50% of the samples
    eye_dict["bot_int"] = bot_int = shortest_int(input[input < vm], percent=50)
    # We obtain the LMS of level 0
    state_0 = np.mean(bot_int)

    # We obtain the amplitude between the two levels 0 and 1
    d01 = state_1 - state_0

    # We take 75% threshold level
    v75 = state_1 - 0.25 * d01

    # We take 25% threshold level
    v25 = state_0 + 0.25 * d01

    t_set = np.unique(t)

    try:
        # The following vectors will be used only to determine the crossing times
        # and crossing amplitude
        cond = (input > v25) & (input < v75)

        # amplitudes are normalized to the distance between levels, so that the clustering
        # of the (t, y) points does not depend on the unit/scale of the signal
        ty = np.vstack([t[cond], (input[cond] - state_0) / d01]).T
        # every crossing repeats one slot later: its image, wrapped into the two-slot trace, is clustered with it, so that both
        # crossings of the trace are populated whatever the parity of the slots the transitions fall on
        ty = np.concatenate([ty, np.vstack([(t[cond] + 2) % 2 - 1, ty[:,1]]).T])

        # We get centroids of 2 clusters for t,y
        kmeans.fit(ty)
        ty_c = kmeans.cluster_centers_
        ty_c[:,1] = ty_c[:,1] * d01 + state_0 # back to the units of the signal

        left = np.argmin(ty_c[:,0])
        right = np.argmax(ty_c[:,0])

        eye_dict["t_left"] = t_left = find_nearest(t_set, ty_c[left,0])
        eye_dict["t_right"] = t_right = find_nearest(t_set, ty_c[right,0])
        eye_dict["t_opt"] = t_center = find_nearest(t_set, ty_c[:,0].mean())
        
        eye_dict["y_left"] = find_nearest(y_set, ty_c[left,1])
        eye_dict["y_right"] = find_nearest(y_set, ty_c[right,1])

        eye_dict["y_25_75"] = y_25_75 = input.copy()
        y_25_75[~cond] = np.nan

    except ValueError:
        eye_dict["t_left"] = t_left = -0.5
        eye_dict["t_right"] = t_right = 0.5
        eye_dict["t_opt"] = t_center = 0.0

        eye_dict["y_left"] = None
        eye_dict["y_right"] = None

    except Exception as e:
        raise e

    # For 10% of the center of the eye diagram
    eye_dict["t_dist"] = t_dist = t_right - t_left
    eye_dict["t_span0"] = t_span0 = t_center - 0.05 * t_dist
    eye_dict["t_span1"] = t_span1 = t_center + 0.05 * t_dist

    # Within the 10% of the data in the center of the eye diagram, we separate into two clusters top and bottom
    y_center = (state_0 + state_1) / 2

    # We obtain the optimum time for down sampling
    if sps_resamp:
        instant = np.abs(t - t_center).argmin() - sps_resamp // 2 + 1
        instant = int(instant / sps_resamp * sps)
    else:
        instant = np.abs(t - t_center).argmin() - sps // 2 + 1
    eye_dict["i"] = instant

    # We obtain the upper cluster
    centre = np.abs((t - t_center + 0.5) % 1 - 0.5) < 0.05 * t_dist  # the same window in every slot of the two-slot trace
    cond = (input > y_center) & centre
    y_top = input.copy()
    y_top[~cond]=np.nan
    eye_dict["y_top"] = y_top

    # We obtain the lower cluster
    cond = (input < y_center) & centre
    y_bot = input.copy()
    y_bot[~cond]=np.nan
    eye_dict["y_bot"] = y_bot

    # For each cluster we calculated the means and standard deviations
    eye_dict["mu1"] = mu1 = np.mean(y_top, where=~np.isnan(y_top))
    eye_dict["s1"] = s1 = np.std(y_top, where=~np.isnan(y_top))
    eye_dict["mu0"] = mu0 = np.mean(y_bot, where=~np.isnan(y_bot))
    eye_dict["s0"] = s0 = np.std(y_bot, where=~np.isnan(y_bot))

    # compute umbral: the valley is searched between the bulks of the two populations (two deviations inside each level), where
    # a dip of the density INSIDE one population (a level split by inter-symbol interference, a handful of samples) cannot be taken for it
    x = np.linspace(mu0 + 2*s0, mu1 - 2*s1, 500) if mu0 + 2*s0 < mu1 - 2*s1 else np.linspace(mu0, mu1, 500)
    y = input[centre]
    
    try:
        pdf = gaussian_kde(y).evaluate(x)
        i_min = np.argmin(pdf)
        # the valley between the two levels is an interior minimum; a density that only falls or rises over [mu0, mu1] (a handful of samples) has none
        eye_dict["threshold"] = x[i_min] if 0 < i_min < len(x) - 1 else (mu0 + mu1) / 2
    except:
        eye_dict["threshold"] = None

    # We obtain the extinction ratio
    eye_dict["er"] = 10 * np.log10(mu1 / mu0) if mu0 > 0 else np.inf if mu0 == 0 else np.nan

    # We obtain the eye opening
    eye_dict["eye_h"] = mu1 - 3 * s1 - mu0 - 3 * s0

    eye_dict["execution_time"] = toc()
    return eye(**eye_dict)


def SAMPLER(input: electrical_signal, instant: int):
    """**Digital sampler**

    Receives an electrical signal and an eye object and performs the sampling of the signal
    at the optimal instant determined by the eye object.

    Args:
        input: The electrical signal to be sampled.
        instant: slot instant to take the sample [0, gv.sps].

    Returns:
        electrical_signal: The sampled electrical signal at one sample per slot.
    """
    tic()
    output = input[instant :: gv.sps]

    output.execution_time = toc()
    return output


def FBG(
    input: optical_signal,
    neff: float = 1.45,
    v: float = 1.0,
    landa_D: float = None,
    fc: float = None,
    kL: float = None,
    L: float = None,
    N: int = None,
    dneff: float = None,
    vdneff: float = None,
    apodization: Union[
        Literal["uniform", "rcos", "gaussian", "parabolic"], Callable
    ] = "uniform",
    F: float = 0,
    print_params: bool = True,
    filtfilt: bool = True,
    retH: bool = False,
):
    r"""**Fiber Bragg Grating**.

    This function numerically calculates the reflectivity (transfer function :math:`H(f)` in reflection) of the grating by
    solving the coupled-wave equations using `Runge-Kutta` method with help of ``signal.integrate.solve_ivp()`` function. See Notes_ 
    section for more details.
    
    In order to design the grating, combination of the following parameters can be used:
    
    1. ``neff``, ``v``, ``fc``, (``dneff`` or ``vdneff``), (``N`` or ``kL`` or ``L``)
    2. ``neff``, ``v``, ``landaD``, (``dneff`` or ``vdneff``), (``N`` or ``kL`` or ``L``)
    3. ``neff``, ``v``, ``landaD``, ``kL``, (``N`` or ``L``)

    Bandwidth is governed essentially by three parameters:

    1. Bragg wavelength (:math:`\lambda_D`). Bandwidth is proportional to :math:`\lambda_D`.
    2. Product of visibility and effective index change (:math:`v\delta n_{eff}`). If :math:`v\delta n_{eff}` is small, the bandwidth is small.
    3. Length of the grating (:math:`L`). Bandwidth is inversely proportional to :math:`L`.

    On the other hand, chirp parameter :math:`F` can increase the bandwidth of the grating as well.

    Parameters
    ----------
    input : :obj:`optical_signal`
        The input optical signal.
    neff : :obj:`float`, optional
        Effective refractive index of core fiber. Default is 1.45.
    v : :obj:`float`, optional
        Visibility of the grating. Default is 1.
    landa_D : :obj:`float`, optional
        Bragg wavelength (resonance wavelength). Default is None.
    fc : :obj:`float`, optional
        Center frequency of the grating. Default is None. 
    kL : :obj:`float`, optional
        Product of the coupling coefficient and the length of the grating. Default is None.
    L : :obj:`float`, optional
        Length of the grating.  Default is None.
    N : :obj:`int`, optional
        Number of period along grating length. Default is None.
    dneff : :obj:`float`, optional
        Effective index change. Default is None.
    vdneff : :obj:`float`, optional 
        Effective index change multiplied by visibility (case of approximation σ->0). Default is None.
    apodization : :obj:`str` or :obj:`callable`
        Apodization function. Can be an string with the name of the apodization function or a custom function. Default is ``'uniform'``.
        
        The following apodization functions are available:

        * ``'uniform'``: Uniform apodization, ``f(z) = 1``.
        * ``'rcos'``: Raised cosine apodization, ``f(z) = 1/2*(1 + np.cos(pi*z))``.
        * ``'gaussian'``: Gaussian apodization, ``f(z) = np.exp(-4*np.log(2)*(3*z)**2)``.
        * ``'parabolic'``: Parabolic apodization, ``f(z) = 1 - (2*z)**2``.
        
        If a custom function is used, it must be a function of the form ``f(z)`` 
        where ``z`` is the position along the grating length normalized by ``L`` (i.e. ``z = z/L``),
        and the function must be defined in the range ``-0.5 <= z <= 0.5``.  

    F : :obj:`float`, optional
        Chirp parameter. Default is 0.
    filtfilt : :obj:`bool`, optional
        If True, group delay will be corrected in output signal. Default is True.
    retH : :obj:`bool`, optional
        If True, the function will return the reflectivity (H(w)) of the grating. Default is False.

    Returns
    -------
    output: :obj:`optical_signal`
        The reflected optical signal
    H: :obj:`np.ndarray`, optional
        Frequency response of grating fiber H(w), only returned if ``retH=True`` 

    Raises
    ------
    TypeError
        If ``input`` is not an :obj:`optical_signal`.
    ValueError
        If the parameters are not correctly specified.

    Warns
    -----
    UserWarning
        If the apodization function is not recognized, a warning will be issued and the function will use uniform apodization.
    UserWarning
        If bandwith is too large, the function will issue a warning and will use a default bandwidth of `fs`.

    Notes
    -----
    .. _Notes:   

    Following coupled-wave theory, we assume a periodic, single-mode
    waveguide with an electromagnetic field which can be represented by
    two contradirectional coupled waves in the form [#first]_:

    .. math:: E(z) = A(z)e^{-j\beta_0 z} + B(z)e^{j\beta_0 z}

    where A and B are slowly varying amplitudes of mode traveling in :math:`+z` and math:`-z` directions, respectively
    These amplitudes are linked by the standard coupled-wave equations:

    .. math::
        R' &= j\hat{\sigma} R + j\kappa S \\
        S' &= -j\hat{\sigma} S - j\kappa R

    where :math:`R` and :math:`S` are :math:`R(z) = A(z)e^{j\delta z - \phi/2}` and :math:`S(z) = B(z)e^{-j\delta z + \phi/2}`. 
    In these equations :math:`\kappa` is the “AC” coupling coefficient and :math:`\hat{\sigma}` is a general “dc” self-coupling coefficient defined as
    
    .. math:: \hat{\sigma} = \delta + \sigma - \frac{1}{2}\phi'

    The detuning :math:`\delta`, which is independent of :math:`z` for all gratings, is defined to be

    .. math:: \delta = 2\pi n_{eff} \left( \frac{1}{\lambda} - \frac{1}{\lambda_{D}} \right)

    where :math:`\lambda_D = 2n_{eff}\Lambda` is the “design wavelength” for Bragg scattering by an infinitesimally weak grating :math:`(\delta n_{eff}\rightarrow 0)` with
    a period :math:`\Lambda`.

    For a single-mode Bragg reflection grating:

    .. math::
        \sigma &= \frac{2\pi}{\lambda}\delta n_{eff} \\
        \kappa &= \frac{v}{2}\sigma = \frac{\pi}{\lambda}v\delta n_{eff}
        
    If the grating is uniform along :math:`z`, then :math:`\delta n_{eff}` is a constant and :math:`\phi' = 0`, 
    and thus :math:`\kappa`, :math:`\sigma`, and :math:`\hat{\sigma}` constants.

    For apodized gratings, :math:`\delta n_{eff}` is a function of :math:`z`, and therefore :math:`\kappa`, :math:`\sigma`, and :math:`\hat{\sigma}` are also functions of :math:`z`.

    If phase chirp is present, :math:`\phi` and :math:`\phi'` are also a function of :math:`z`. This implementation considers only linear chirp, so:

    .. math:: \phi'(z) = 2Fz/L^2

    where :math:`F` is a dimensionless "chirp parameter", given by [#second]_:
    
    .. math:: F = \pi N \Delta \Lambda/\Lambda 

    or 

    .. math:: F = \pi N \Delta \lambda_D/\lambda_D = 2\pi n_{eff} \frac{\Delta \lambda_D}{\lambda_D^2}L

    where 
    
    .. math:: \Delta \lambda_D = \lambda_D(z=-L/2) - \lambda_D(z=L/2)

    ODE resolution is performed using `scipy.integrate.solve_ivp` function:

    - Dimensionless variables are used: :math:`z = z/L`, :math:`\delta = \delta L`, :math:`\kappa = \kappa L`, :math:`\sigma = \sigma L`, :math:`\phi' = \phi' L`.
    - The integration is performed from :math:`z = 1/2` to :math:`z = -1/2`.
    - The initial conditions are :math:`R(1/2) = 1` and :math:`S(1/2) = 0`.
    - The output is the relation :math:`\rho = S(-1/2)/R(-1/2)`. 

    References
    ----------
    .. [#] Turan Erdogan, "Fiber Grating Spectra," VOL. 15, NO. 8, AUGUST 1997. doi: https://doi.org/10.1109/50.618322
    .. [#] H. KOGELNIK, "Filter Response of Nonuniform Almost-Periodic Structures" Vol. 55, No. 1, January 1976. doi: https://doi.org/10.1002/j.1538-7305.1976.tb02062.x 
    
    Examples
    --------

    .. code-block:: python
        :linenos:
    
        from opticomlib import optical_signal, gv, pi, db, plt, np
        from opticomlib.devices import FBG

        gv(fs=100e9)

        x = optical_signal(np.ones(2**12))
        f = x.w(shift=True)/2/pi*1e-9

        for apo in ['uniform', 'parabolic', 'rcos', 'gaussian']:
            _,H = FBG(x, fc=gv.f0, vdneff=1e-4, kL=16, apodization=apo, retH=True)
            plt.plot(f, db(np.abs(H)**2), lw=2, label=apo)

        plt.xlabel('Frequency (Hz)')
        plt.ylabel('Magnitude (dB)')
        plt.legend()
        plt.grid(alpha=0.3)
        plt.ylim(-100,)
        plt.xlim(-20, 20)
        plt.show()

    .. image:: /_images/FBG_example1.svg
        :align: center
    """
    tic()

    if not isinstance(input, optical_signal):
        raise TypeError("`input` must be of type (optical_signal).")

    if fc:
        if dneff:
            if not (L or kL or N):
                raise ValueError(
                    "If `fc` and `dneff` are specified, `L`, `kL` or `N` must be specified."
                )

            landa_D = 1 / (1 + dneff / neff) * c / fc
            vdneff = dneff * v

            if kL:
                L = kL / (pi * dneff * v / landa_D)
            elif N:
                L = N * landa_D / (2 * neff)

        elif vdneff:
            if not (L or kL or N):
                raise ValueError(
                    "If `fc` and `vdneff` are specified, `L`, `kL` or `N` must be specified."
                )

            landa_D = c / fc
            dneff = 0

            if kL:
                L = kL / (pi * vdneff / landa_D)
            elif N:
                L = N * landa_D / (2 * neff)
        else:
            raise ValueError(
                "If `fc` is specified, `dneff` or `vdneff` must be specified."
            )

    elif landa_D:
        if dneff:
            if not (L or kL or N):
                raise ValueError(
                    "If `landa_D` and `dneff` are specified, `L`, `kL` or `N` must be specified."
                )

            vdneff = dneff * v

            if kL:
                L = kL / (pi * vdneff / landa_D)
            elif N:
                L = N * landa_D / (2 * neff)

        elif vdneff:
            if not (L or kL or N):
                raise ValueError(
                    "If `landa_D` and `vdneff` are specified, `L`, `kL` or `N` must be specified."
                )

            dneff = 0

            if kL:
                L = kL / (pi * vdneff / landa_D)
            elif N:
                L = N * landa_D / (2 * neff)

        elif kL:
            if not (L or N):
                raise ValueError(
                    "If `landa_D` and `kL` are specified, `L` or `N` must be specified."
                )
            if N:
                L = N * landa_D / (2 * neff)

            vdneff = kL * landa_D / (pi * L)
            dneff = vdneff / v

        else:
            raise ValueError(
                "If `landa_D` is specified, `dneff`, 'vdneff' or `kL` must be specified."
            )

    else:
        raise ValueError("Either `fc` or `landa_D` must be specified.")

    λ_D = landa_D  # Bragg wavelength
    Λ = λ_D / (2 * neff)  # period of the grating

    λc = (1 + dneff / neff) * λ_D  # center wavelength of the grating
    fc = c / λc  # center frequency of the grating

    λ = (
        2 * pi * c / (input.w(shift=True) + 2 * pi * gv.f0)
    )  # wavelength vector, centered at global variable f0
    δλ = λ[1] - λ[0]  # wavelength resolution

    N = int(L / Λ)  # number of periods of the grating

    kL = pi / λ_D * vdneff * L

    δ = 2 * pi * neff * (1 / λ - 1 / λ_D) * L
    s = 2 * pi * dneff / λ * L  # self-coupling coefficient DC
    k = pi * vdneff / λ * L  # self-coupling coefficient AC

    def ode_system(
        z, rho, δ, s, k, F=0, apo_func=None
    ):  # ODE function, normalized to L (z/L, δL, σL, kL)
        R = rho[: len(rho) // 2]
        S = rho[len(rho) // 2 :]

        if apo_func is not None:
            p = apo_func(z)
            s = s * p
            k = k * p

        s_ = δ + s - F * z

        dRdz = 1j * (s_ * R + k * S)
        dSdz = -1j * (s_ * S + k * R)
        return [dRdz, dSdz]

    δ = δ[:, np.newaxis]
    s = s[:, np.newaxis]
    k = k[:, np.newaxis]

    # initial conditions
    S0 = np.zeros(input.len(), dtype=complex)
    R0 = np.ones(input.len(), dtype=complex)
    y0 = np.concatenate([R0, S0])

    if apodization == "rcos":

        def apo_func(z):
            return rcos(z, alpha=1, T=2)

    elif apodization == "gaussian":

        def apo_func(z):
            return np.exp(-4 * np.log(2) * (3 * z) ** 2)

    elif apodization == "parabolic":

        def apo_func(z):
            return 1 - (2 * z) ** 2

    elif apodization == "uniform":
        apo_func = None
    elif callable(apodization):  # custom apodization function
        apo_func = apodization
    elif isinstance(apodization, str):
        warnings.warn("Apodization function not recognized. Using uniform apodization.")
        apo_func = None
    else:
        raise ValueError("Apodization must be a string or a function.")

    sol = solve_ivp(
        ode_system,
        t_span=[0.5, -0.5],
        y0=y0,
        method="RK45",
        args=(δ, s, k, F, apo_func),
        vectorized=True,
        max_step=0.02,
    )

    y = sol.y[:, -1]
    R = y[: len(y) // 2]
    S = y[len(y) // 2 :]

    H = S / R

    y = np.abs(H)  # reflectivity of the grating

    ic = np.argmin(np.abs(λ - c / fc))

    peaks, _ = sg.find_peaks(y)
    H_max = y[ic]

    if (y > 0.5).all():
        warnings.warn(
            "Bandwidth of the grating is too large for current sampling rate (`fs`). Consider increasing `fs`."
        )
        bandwith_str = f' - Δf = >{si(gv.fs, "Hz")} (Δλ = >{si(gv.fs*c/fc**2, "m")})'
    # elif (y<0.01).all():
    #     raise ValueError("Maximum reflectivity is less than 1%.")
    elif len(peaks):
        r = sg.peak_widths(y, peaks)

        BW_λ = r[0].max() * δλ
        BW_f = fc**2 * BW_λ / c

        bandwith_str = f' - Δf = {si(BW_f, "Hz")} (Δλ = {si(BW_λ, "m")})'
    else:
        warnings.warn("No peaks found in the reflectivity of the grating.")
        bandwith_str = " - Δf = -- GHz (Δλ = -- nm)"

    D = dispersion(H, gv.fs, fc)[ic]  # dispersion in ps/nm

    # Print parameters of the grating
    if print_params:
        print("\n*** Fiber Bragg Grating Features ***")
        print(f' - Λ = {si(Λ, "m")}')
        print(f" - N = {N}")
        print(f' - L = {si(L, "m")}')
        print(f' - λc = {si(c/fc, "m", 4)}')
        print(bandwith_str)
        print(f" - ρo = {y.max():.2f}")
        print(f" - loss = {-db(H_max**2):.1f} dB")
        print(f" - vδneff = {vdneff:.1e}")
        print(f" - kL = {kL:.1f}")
        print(f" - D(λc) = {D:.1f} ps/nm")
        if F:
            print(f" - F = {F:.1f}")
            print(f' - ΔΛ = {si(np.abs(Λ*F/(2*pi*N)), "m")}')
        print("************************************\n")

    if filtfilt:  # correct H(w)
        H = H * np.exp(
            -1j * input.w(shift=True) * tau_g(H, gv.fs)[ic] * 1e-12
        )  # corrected H(w)

    # apply to input optical signal
    output = ifft(fft(input.signal) * ifftshift(H))
    output = optical_signal(output)

    if retH:
        return output, H
    
    output.execution_time = toc()
    return output


# algunas funciones de prueba
def animated_fiber_propagation(
    input: optical_signal,
    M: int,
    length_: float,
    alpha_: float = 0.0,
    beta_2_: float = 0.0,
    beta_3_: float = 0.0,
    gamma_: float = 0.0,
    phi_max: float = 0.05,
):
    from matplotlib.animation import FuncAnimation

    # cambio las unidades
    length = length_ * 1e3
    alpha = alpha_ * 1 / (4.343 * 1e3)
    beta_2 = beta_2_ * 1e-12**2 / 1e3
    beta_3 = beta_3_ * 1e-12**3 / 1e3
    gamma = gamma_ * 1 / 1e3

    w = input.w()
    D_op = -alpha / 2 - 1j / 2 * beta_2 * w**2 - 1j / 6 * beta_3 * w**3

    A = input.signal[0]

    h = (
        length
        if (beta_2 == 0 and beta_3 == 0) or gamma == 0
        else phi_max / (gamma * np.abs(A) ** 2).max()
    )

    x_length = h
    A_z = [A]
    hs = [0]

    while True:
        exp_NL = np.exp(1j * gamma * (h / 2) * np.abs(A) ** 2)
        exp_L = np.exp(D_op * h)
        A = exp_NL * ifft(exp_L * fft(exp_NL * A))
        A_z.append(A)
        hs.append(h)

        h = phi_max / (gamma * np.abs(A) ** 2).max() if gamma != 0 else length

        if x_length + h > length:
            break

        x_length += h

    h = length - x_length

    if h > 0:
        exp_NL = np.exp(1j * gamma * (h / 2) * np.abs(A) ** 2)
        exp_L = np.exp(D_op * h)
        A = exp_NL * ifft(exp_L * fft(exp_NL * A))
        A_z.append(A)
        hs.append(h)

    t = input.t() * gv.slot_rate

    fig, ax = plt.subplots()

    (line,) = ax.plot(t, np.abs(A_z[0]), lw=2, color="red", ls="--")
    (line,) = ax.plot([], [], lw=2, color="k")

    plt.suptitle(
        r"Fiber: $\alpha = {:.2f}$ dB/km, $\beta_2 = {}$ ps^2/km, $\gamma = {}$ (W·km)^-1".format(
            alpha_, beta_2_, gamma_
        )
    )
    ax.set_xlabel(r"$t/T_{slot}$")
    ax.set_ylabel("|A(z,t)|")
    ax.set_xlim((0, t.max()))
    ax.set_ylim((abs(A_z[0]).min() * 0.95, np.abs(A_z).max() * 1.05))

    time_text = ax.text(0.05, 0.9, "", transform=ax.transAxes)

    def init():
        line.set_data([], [])
        time_text.set_text("z = 0.0 Km")
        for i in t[:: M * gv.sps]:
            plt.axvline(i, color="k", ls="--")
        for i in t[:: gv.sps]:
            plt.axvline(i, color="k", ls="--", alpha=0.3, lw=1)
        return [line, time_text]

    def animate(i):
        y = np.abs(A_z[i])
        line.set_data(t, y)
        time_text.set_text("z = {:.2f} Km".format(np.cumsum(hs)[i] / 1e3))
        return [line, time_text]

    FuncAnimation(
        fig,
        animate,
        init_func=init,
        frames=len(A_z),
        interval=100,
        blit=True,
        repeat=False,
    )
    plt.show()


def animated_fiber_propagation_with_psd(
    input: optical_signal,
    M: int,
    length_: float,
    alpha_: float = 0.0,
    beta_2_: float = 0.0,
    beta_3_: float = 0.0,
    gamma_: float = 0.0,
    phi_max: float = 0.05,
    n: int = None,
):
    from matplotlib.animation import FuncAnimation

    n = input.len() if n is None else n * M * input.sps()

    length = length_
    alpha = alpha_ / 4.343
    beta_2 = beta_2_
    beta_3 = beta_3_
    gamma = gamma_

    w = input.w() * 1e-12  # rad/ps
    D_op = -alpha / 2 - 1j / 2 * beta_2 * w**2 - 1j / 6 * beta_3 * w**3

    A = input.signal[0]

    h = (
        length
        if (beta_2 == 0 and beta_3 == 0) or gamma == 0
        else phi_max / (gamma * np.abs(A) ** 2).max()
    )

    x_length = h
    A_z = [A]
    A_z_w = [fft(A)]
    hs = [0]

    while True:
        exp_NL = np.exp(1j * gamma * (h / 2) * np.abs(A) ** 2)
        exp_L = np.exp(D_op * h)
        A = exp_NL * ifft(exp_L * fft(exp_NL * A))
        A_z.append(A * np.exp(alpha * x_length / 2))
        A_z_w.append(fft(A * np.exp(alpha * x_length / 2)))
        hs.append(h)

        h = phi_max / (gamma * np.abs(A) ** 2).max() if gamma != 0 else length

        if x_length + h > length:
            break

        x_length += h

    h = length - x_length

    if h > 0:
        exp_NL = np.exp(1j * gamma * (h / 2) * np.abs(A) ** 2)
        exp_L = np.exp(D_op * h)
        A = exp_NL * ifft(exp_L * fft(exp_NL * A))
        A_z.append(A * np.exp(alpha * length / 2))
        A_z_w.append(fft(A * np.exp(alpha * length / 2)))
        hs.append(h)

    t = input.t() * gv.slot_rate

    fig, (ax1, ax2) = plt.subplots(2, 1, figsize=(6, 6))

    (line1,) = ax1.plot(t[:n], np.abs(A_z[0])[:n], lw=2, color="red", ls="--")
    (line1,) = ax1.plot([], [], lw=2, color="k")

    plt.suptitle(
        r"Fiber: $\alpha = {:.2f}$ dB/km, $\beta_2 = {}$ ps^2/km, $\gamma = {}$ (W·km)^-1".format(
            alpha_, beta_2_, gamma_
        )
    )
    ax1.set_xlabel("t/T")
    ax1.set_ylabel("|A(z,t)|")
    ax1.set_xlim((0, t[:n].max()))
    ax1.set_ylim((0, np.abs(A_z[:n]).max()))

    z_text = ax2.text(0.05, 0.9, "", transform=ax2.transAxes)

    f = fftshift(w / 2 / np.pi) * 1e3  # GHz
    y = fftshift(np.abs(A_z_w[0]) ** 2)

    (line2,) = ax2.plot(f, y / input.len(), "--g", lw=2)
    (line2,) = ax2.plot([], [], "k", lw=2)

    ax2.set_xlabel("f [GHz]")
    ax2.set_ylabel(r"$|A(z,w)|^2$")
    sigma = -f[
        np.cumsum(np.abs(fftshift(A_z_w[0])) ** 2)
        < 0.001 * np.sum(np.abs(A_z_w[0]) ** 2)
    ][-1]
    ax2.set_xlim((-2 * sigma, 2 * sigma))
    ax2.set_ylim((0, np.abs(A_z_w).max() ** 2 * 1.05 / input.len()))
    ax2.grid()

    plt.tight_layout()

    def init():
        line1.set_data([], [])
        z_text.set_text("z = 0.0 Km")
        for i in t[: n : M * gv.sps]:
            ax1.axvline(i, color="k", ls="--")
        for i in t[: n : gv.sps]:
            ax1.axvline(i, color="k", ls="--", alpha=0.3, lw=1)
        return [line1, z_text]

    def animate(i):
        y = np.abs(A_z[i])
        line1.set_data(t[:n], y[:n])
        z_text.set_text("z = {:.2f} Km".format(np.cumsum(hs)[i]))

        y = fftshift(np.abs(A_z_w[i]) ** 2) / input.len()
        line2.set_data(f, y)
        return [line1, line2, z_text]

    FuncAnimation(
        fig,
        animate,
        init_func=init,
        frames=len(A_z),
        interval=100,
        blit=True,
        repeat=False,
    )
    plt.show()


if __name__ == "__main__":
    pass
