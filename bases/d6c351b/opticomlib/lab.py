"""
.. rubric:: Functions
.. autosummary::

   search_inst
   SYNC                  
   GET_EYE_v2            

.. rubric:: Classes
.. autosummary::

   PPG3204         
"""
import numpy as np
import scipy.signal as sg
from scipy.stats import gaussian_kde

from .typing import binary_sequence, electrical_signal, eye, Array_Like, Number
from typing import Literal, Union
from .utils import tic, toc, str2array, nearest

import pyvisa as visa
import warnings
import time


def search_inst():
    """**Intruments search**
    
    Search for the available instruments in the system and print the IDs.
    """
    rm = visa.ResourceManager()
    print(rm.list_resources())

def connect_inst(addr_ID: str):
    inst = visa.ResourceManager().open_resource(addr_ID)
    inst.timeout = 10000 # timeout in milliseconds
    try:
        print(inst.query('*IDN?'))
    except:
        print('No identification received!!')
    return inst


def SYNC(signal_rx: electrical_signal | np.ndarray, 
         slots_tx: binary_sequence | np.ndarray, 
         sps: int = None):
    r"""**Signal Synchronizer**

    Synchronizes the received signal with the transmitted signal to determine the starting position in the received signal for further processing. 
    This is done by performing a correlation between the received signal and the transmitted signal and finding the maximum correlation position
    and shifting the received signal to that position (deleting the samples before the maximum correlation position).

    Parameters
    ----------
    signal_rx : :obj:`electrical_signal` | :obj:`np.ndarray`
        The received digital signal (from the oscilloscope or an ADC).
    slots_tx : :obj:`binary_sequence` | :obj:`np.ndarray`
        The transmitted slots sequence.
    sps : :obj:`int`, optional
        Number of samples per slot of the digitalized signal ``signal_rx``.

    Returns
    -------
    :obj:`tuple` [:obj:`electrical_signal`, :obj:`int`]
        A tuple containing the synchronized digital signal and the position in the ``signal_rx`` array from which synchronization was performed.

    Raises
    ------
    TypeError
        The ``sps`` must be an integer to perform synchronization.
    BufferError
        If the number of received slots have to be greater than the transmitted slots.
    ValueError
        If no correlation maximum is found.
    """
    
    tic()
    if isinstance(signal_rx, electrical_signal):
        sps = signal_rx.sps()
        signal_rx = signal_rx.signal
    elif isinstance(signal_rx, np.ndarray):
        if sps is None:
            raise ValueError('"sps" must be provided to perform synchronization.')
    else: 
        raise TypeError('The "signal_rx" must be of type `electrical_signal` or `np.ndarray`.')

    if isinstance(slots_tx, binary_sequence):
        slots_tx = slots_tx.data
    elif not isinstance(slots_tx, np.ndarray):
        raise TypeError('The "slots_tx" must be of type `binary_sequence` or `np.ndarray`.')

    signal_tx = np.kron(slots_tx, np.ones(sps))

    if len(signal_rx)<len(signal_tx): 
        raise BufferError('The length of the received vector must be greater than the transmitted vector!!')

    l = signal_tx.size
    corr = sg.fftconvolve(signal_rx[:2*l], signal_tx[l::-1], mode='valid') # Correlation of the transmitted signal with the received signal in a window of 2*l (sufficient to find a maximum)

    if np.max(corr) < 3*np.std(corr): 
        raise ValueError('No correlation maximum found!!') # false positive
    
    i = np.argmax(corr[:l]) # delays 0..l-1: lag l is the alignment of lag 0 one pattern later (it ties with it and would leave an empty signal)

    signal_sync = electrical_signal(signal_rx[i:-(l-i)])
    signal_sync.execution_time = toc()
    return signal_sync, i


def GET_EYE_v2(
        sync_signal: electrical_signal | np.ndarray, 
        slots_tx: binary_sequence | np.ndarray, 
        nslots: int = 4096,
):
    r"""**Eye diagram parameters v2**

    Estimate the means and standard deviations of levels 0 and 1 in the ``sync_signal`` 
    by knowing the transmitted sequence ``slots_tx``. It separates the received signal levels
    corresponding to transmitted level 0 and 1 and estimates the means and standard deviations,
    different to ``devices.GET_EYE()`` that assume transmitted bits are not known. 

    Parameters
    ----------
    sync_signal : electrical_signal
        Synchronized digital signal in time with the transmitted signal.
    slots_tx : binary_sequence
        Transmitted bit sequence.
    nslots : int, default: 8192
        Number of slots to use for estimation.

    Returns
    -------
    dict
        A dictionary containing the following keys:

            - ``sps``: Samples per slot of the digital signal.
            - ``y``: Synchronized digital signal.
            - ``unos``: Received signal levels corresponding to transmitted level 1.
            - ``zeros``: Received signal levels corresponding to transmitted level 0.
            - ``t0``: Time instants for level 0.
            - ``t1``: Time instants for level 1.
            - ``i``: Position in the 'signal' vector from which synchronization was performed.
            - ``mu0``: Mean of level 0.
            - ``mu1``: Mean of level 1.
            - ``s0``: Standard deviation of level 0.
            - ``s1``: Standard deviation of level 1.
    """
    tic()

    #########################
    ## Preprocessing input ##
    #########################
    
    input = sync_signal
    
    if not isinstance(input, electrical_signal):
        input = electrical_signal(input)
    
    if not isinstance(slots_tx, binary_sequence):
        slots_tx = binary_sequence(slots_tx)

    eye_dict = {}

    eye_dict['sps'] = sps = input.sps()
    eye_dict['dt'] = dt = input.dt()

    # truncate
    n = input.len() % (2 * sps)  # we obtain the rest %(2*sps)
    if n: # if rest is not zero
        input = input[:-n] # ignore last 'n' samples

    nslots = min( int(input.len() // sps), nslots) # determine the minimum between slots of signal and 'nslots' parameter
    input = input[: nslots * sps] # truncate signal

    input = (input.signal + input.noise).real if input.noise is not None else input.signal.real # add noise to signal, if there is noise

    eye_dict["y"] = np.roll(input, -sps // 2 + 1)
    eye_dict['t'] = t = np.kron(np.ones(nslots // 2), np.linspace(-1, 1 - 1/sps, 2 * sps), )
    
    ###############
    ## Algorithm ##
    ###############

    ref = np.kron(slots_tx.data[:nslots], np.ones(sps))

    eye_dict['ones'] = ones = input[ref==1]
    eye_dict['zeros'] = zeros = input[ref==0]

    eye_dict['t0'] = t0 = np.kron(np.ones(zeros.size//sps), np.linspace(-0.5, 0.5, sps, endpoint=False))
    eye_dict['t1'] = t1 = np.kron(np.ones(ones.size//sps), np.linspace(-0.5, 0.5, sps, endpoint=False))

    eye_dict['i']=sps//2
    eye_dict["t_left"] = -0.5
    eye_dict["t_right"] = 0.5

    eye_dict["y_left"] = None
    eye_dict["y_right"] = None

    eye_dict["t_dist"] = t_dist = 1
    eye_dict["t_opt"] = t_opt = 0
    eye_dict["t_span0"] = t_span0 = t_opt - 0.05 * t_dist
    eye_dict["t_span1"] = t_span1 = t_opt + 0.05 * t_dist

    ones_ = ones[(t1>t_span0) & (t1<t_span1)]
    zeros_ = zeros[(t0>t_span0) & (t0<t_span1)]

    eye_dict['mu0'] = mu0 = np.mean(zeros_).real
    eye_dict['mu1'] = mu1 = np.mean(ones_).real

    eye_dict['s0'] = s0 = np.std(zeros_).real
    eye_dict['s1'] = s1 = np.std(ones_).real

    # compute umbral
    x = np.linspace(mu0, mu1, 500)
    pdf = gaussian_kde(zeros_.tolist() + ones_.tolist()).evaluate(x)
    eye_dict["threshold"] = x[np.argmin(pdf)]

    # We obtain the extinction ratio
    eye_dict["er"] = 10 * np.log10(mu1 / mu0) if mu0 > 0 else np.inf if mu0 == 0 else np.nan

    # We obtain the eye opening
    eye_dict["eye_h"] = mu1 - 3 * s1 - mu0 - 3 * s0
    
    eye_dict["execution_time"] = toc()
    return eye(**eye_dict)


class PPG3204():
    """**Tektronix Programmable Pattern Generator PPG3204**
    
    The `PPG3204 <https://download.tek.com/manual/PPG1600-PPG3000-PPG3200-Pattern-Generator-User-Manual-077109001.pdf>`_ 
    is a Programmable Pattern Generator. It is a 4-channel pattern generator with 32 Gb/s maximum data rate. 
    This class provides a set of methods to control the PPG3204.

    .. image:: _images/lab/PPG3204.png 
        :width: 80%
        :align: center

    The PPG3204 has the following features:
        
    .. rubric:: Attributes
    .. autosummary::

        ~PPG3204.inst
        CHANNELS
        PATT_LEN_MIN
        PATT_LEN_MAX
        AMPLITUDE_MIN
        AMPLITUDE_MAX
        OFFSET_MIN
        OFFSET_MAX
        FREQ_MIN
        FREQ_MAX
        PATT_TYPE
        PRBS_ORDERS
        MAX_MEMORY_LEN
        MAX_CHUNK_LEN
        MIN_SKEW
        MAX_SKEW
        
    .. rubric:: Methods
    .. autosummary::

        __init__
        reset
        set_patt_len
        get_patt_len
        set_mode
        get_mode
        set_prbs_order
        get_prbs_order
        set_data
        get_data
        set_bits_shift
        get_bits_shift
        enable_outputs
        disable_outputs
        set_freq
        get_freq
        set_skew
        get_skew
        set_output_voltage
        get_output_voltage
        set_offset
        get_offset
        __call__
        config
    """
    CHANNELS = 4 
    """Number of channels of the PPG3204, 4 channels."""
    PATT_LEN_MIN = 2
    """Pattern length minimum value, 2 bit."""
    PATT_LEN_MAX = 2**21
    """Pattern length maximum value, 2^21 = 2097152 (2M) bits."""
    AMPLITUDE_MIN = 0.3
    """Minimum amplitude of the output signal, 0.3 V."""
    AMPLITUDE_MAX = 2
    """Maximum amplitude of the output signal, 2 V."""
    OFFSET_MIN = -2
    """Minimum offset of the output signal, -2 V."""
    OFFSET_MAX = 3
    """Maximum offset of the output signal, 3 V."""
    FREQ_MIN = 1.5e9
    """Minimum frequency, 1.5 GHz."""
    FREQ_MAX = 32e9
    """Maximum frequency, 32 GHz."""
    PATT_TYPE = ['DATA', 'PRBS']
    """Mode of the pattern generator, ['DATA', 'PRBS']"""
    PRBS_ORDERS = [7,9,11,15,23,31]
    """The order of polynomial generator for PRBS mode, [7,9,11,15,23,31]"""
    MAX_MEMORY_LEN = 2**21
    """Maximum length of the memory of the PPG3204, 2^21 = 2097152 (2M) for each channel."""
    MAX_CHUNK_LEN = 1024
    """Maximum length of the data to send in a single command, 1024 bits."""
    MIN_SKEW = -25e-12
    """Minimum skew, -25 ps"""
    MAX_SKEW = 25e-12
    """Maximum skew, 25 ps"""

    def __init__(self, addr_ID: str = None):
        """ Initialize the PPG3204.
        
        If ``addr_ID`` is not passed as argument, methods will print the commands 
        instead of sending them to the PPG. This is useful for debugging. 

        Parameters
        ----------
        addr_ID : :obj:`str`, optional
            VISA resource of the PPG (e.g. 'USB::0x0699::0x3130::9211219::INSTR'). Default is None.
        """
        if addr_ID: 
            self.inst = visa.ResourceManager().open_resource(addr_ID)
            """A connection (session) to the PPG instrument (if `addr_ID` is provided)."""
            self.inst.timeout = 10000 # timeout in milliseconds
            print(self._query('*IDN?'))
        
    def __del__(self):
        try:
            self.inst.clear()
            self.inst.close()
        except AttributeError:
            pass
        except Exception as e:
            print(e)

    def _query(self, command: str):
        """Query the PPG."""
        try:
            resp = self.inst.query(command)
            if resp == '\n\n':
                raise EOFError(f'Invalid command {command}')  # invalid command
            if resp == '\n':
                return True  # when write commands are executed
            return resp  # when query commands are executed
        except AttributeError:
            print(command)
            return 0
        except Exception as e:
            raise e
    
    def _check_channels(self, channels):
        """Check if channels are in the correct format and return it as array."""
        if channels is not None and not isinstance(channels, (int,) + Array_Like):
            raise ValueError('`channels` is not in the correct format')
        
        if channels is not None:
            if isinstance(channels, int):
                channels = np.array([channels], dtype=int)
            else:
                channels = np.array(channels, dtype=int)

            if (channels < 1).any() or (channels > self.CHANNELS).any() or channels.size > self.CHANNELS:
                channels = channels.clip(1, self.CHANNELS)[:self.CHANNELS]
                msg = f'The channels number is out of the range of the PPG3204. Setting to the limits {channels}.'
                warnings.warn(msg)
        else:
            channels = np.arange(1, self.CHANNELS+1)
        return channels


    def reset(self):
        """Reset the PPG to its default state."""
        self._query('*RST')


    def set_patt_len(self, patt_len: Union[int, list[int]], CHs: Union[int, list[int]] = None):
        """Set the length of the pattern

        Fix a pattern length for each channel passed as argument. 
        
        - Range: 2 to 2097152 bits (2 Mbits/channel). 
        - Resolution: 1 bit.
        
        Parameters
        ----------
        patt_len : :obj:`int` or :obj:`Array_Like(int)`
            Pattern length for every channel specified in ``CHs``.
        CHs : :obj:`int` or :obj:`Array_Like(int)`, optional
            List of channels to set the pattern length.

        Raises
        ------
        ValueError
            If ``patt_len`` is not in the correct format or type.
        
        Warn
        ----
        UserWarning
            If the pattern length is out of range.
        """
        if not isinstance(patt_len, (int,) + Array_Like):
            raise ValueError('`patt_len` is not in the correct format')
        
        CHs = self._check_channels(CHs)

        if isinstance(patt_len, int):
            patt_len = np.tile([patt_len], CHs.size)
        else:
            patt_len = np.array(patt_len)
        
        if (patt_len < self.PATT_LEN_MIN).any() or (patt_len > self.PATT_LEN_MAX).any():
            patt_len = patt_len.clip(self.PATT_LEN_MIN, self.PATT_LEN_MAX) 
            msg = f'The pattern length is out of the range of the PPG3204. Setting to the limits {patt_len}.'
            warnings.warn(msg)
        
        for ch, pl in zip(CHs, patt_len):
            self._query(f':DIG{ch}:PATT:LENG {pl}')


    def get_patt_len(self, CHs: Union[int, list[int]]=None):
        """Get the current length of pattern for specified channels
        
        Parameters
        ----------
        CHs : :obj:`int` or :obj:`Array_Like(int)`, optional
            List of channels to get the pattern length. 
        
        Returns
        -------
        patt_len : :obj:`np.ndarray`
            Every channel pattern length.
        """
        CHs = self._check_channels(CHs)
        return np.array([int(self._query(f':DIG{ch}:PATT:LENG?')) for ch in CHs])


    def set_mode(self, mode: Literal['data', 'prbs'], CHs: Union[int, list[int]] = None):
        """Set mode of the PPG3204 for each channels specified.

        Parameters
        ----------
        mode : :obj:`str` {``'DATA'``, ``'PRBS'``} 
            Work mode of the PPG.    
        CHs : :obj:`int` or :obj:`Array_Like(int)`, optional
            List of channels to get the mode.
        """
        CHs = self._check_channels(CHs)
        
        if mode.upper() not in ['DATA', 'PRBS']:
            raise ValueError('`mode` must be "data" or "prbs"')
        
        mode = np.tile([mode.upper()], CHs.size)
        
        for ch, t in zip(CHs, mode):
            self._query(f':DIG{ch}:PATT:TYPE {t}')


    def get_mode(self, CHs: Union[int, list[int]] = None):
        """Get mode of the PPG3204 for each channels specified, can be 'DATA' or 'PRBS'

        Parameters
        ----------
        CHs : :obj:`int` or :obj:`Array_Like(int)`, optional
            List of channels to get the mode.

        Returns
        -------
        mode : :obj:`np.ndarray`
            Every channel mode.
        """
        CHs = self._check_channels(CHs)
        return np.array([self._query(f':DIG{ch}:PATT:TYPE?') for ch in CHs])
    

    def set_prbs_order(self, order: Union[int, list[int]], CHs: Union[int, list[int]] = None):
        """Set the order of polynomial generator for PRBS mode.
        
        Parameters
        ----------
        order : :obj:`int` or :obj:`Array_Like(int)`
            order of the polynomial generator.
        CHs : :obj:`int` or :obj:`Array_Like(int)`, optional
            List of channels to set the order.

        Raises
        ------
        ValueError
            If ``order`` is not in the correct format.

        Notes
        -----

        **PRBS pattern lengths** Independently selected for each channel.

        - :math:`2^7-1` bits. Polynomial :math:`= X^7 + X^6 + 1`
        - :math:`2^9-1` bits. Polynomial :math:`= X^9 + X^5 + 1`
        - :math:`2^{11}-1` bits. Polynomial :math:`= X^{11} + X^9 + 1`
        - :math:`2^{15}-1` bits. Polynomial :math:`= X^{15} + X^{14} + 1`
        - :math:`2^{23}-1` bits. Polynomial :math:`= X^{23} + X^{18} + 1`
        - :math:`2^{31}-1` bits. Polynomial :math:`= X^{31} + X^{28} + 1`
        """
        CHs = self._check_channels(CHs)
        
        if not isinstance(order, (int,) + Array_Like):
            raise ValueError('`order` is not in the correct format')
        
        if isinstance(order, int):
            order = np.tile([order], CHs.size)
        else:
            order = np.array(order)
        
        for ch, ord in zip(CHs, order):
            if ord not in self.PRBS_ORDERS:
                old_ord = ord
                ord = nearest(self.PRBS_ORDERS, int(ord)) 
                msg = f'PRBS order {old_ord} in CH:{ch} is not correct, it will be set to nearest value {ord}'
                warnings.warn(msg)
            self._query(f':DIG{ch}:PATT:PLEN {ord}')

    
    def get_prbs_order(self, CHs: Union[int, list[int]] = None):
        """Get the prbs polynomial order for each channel specified
        
        Parameters
        ----------
        CHs : :obj:`int` or :obj:`Array_Like(int)`, optional
            List of channels to get the order.

        Returns
        -------
        order : :obj:`np.ndarray`
            Every channel order.
        """
        CHs = self._check_channels(CHs)
        return np.array([int(self._query(f':DIG{ch}:PATT:PLEN?')) for ch in CHs])
    

    def set_data(self, data: Union[str, np.ndarray], start_addrs: int=1, CHs: Union[int, list[int]] = None):
        """Set the data of the pattern.

        Programs the pattern data memory. Each byte of pattern data is a character (0 or 1)
        representing one bit of pattern data. The start address can be any bit location, MAX_MEMORY_LEN - 1.
        MAX_MEMORY_LEN is :math:`2^{21} = 2097152` (2M) for each channel. 
        
        Parameters
        ----------
        data : :obj:`str` or :obj:`Array_Like(int)`
            Data to set to the specified channels (use :obj:`str` type only when ``CHs`` is :obj:`int` or ``None``).
        start_addrs : :obj:`int`, optional
            Start address of the data to set in the pattern memory. The range is from 1 to 2^21. Default is 1.
        CHs : :obj:`int` or :obj:`Array_Like`, optional
            Channels to set the data. If ``CHs=None`` data will be fixed in all channels.

        Raises
        ------
        ValueError
            If ``data`` is not in the correct format.

        Warns
        -----
        UserWarning
            If the length of the data is out of the range of the PPG3204.

        Examples
        --------
        In this examples we don't pass the argument ``addr_ID`` in order to print the commands output. For communication with a device this parameter is requered.

        .. code-block:: python

            >>> from opticomlib.lab import PPG3204
            >>>
            >>> ppg = PPG3204()
            >>>
            >>> ppg.set_data('000111000111', CHs=2)
            :DIG2:PATT:DATA 1,12,#212000111000111
            >>>
            >>> ppg.set_data('000111000111')
            :DIG1:PATT:DATA 1,12,#212000111000111
            :DIG2:PATT:DATA 1,12,#212000111000111
            :DIG3:PATT:DATA 1,12,#212000111000111
            :DIG4:PATT:DATA 1,12,#212000111000111
            >>>
            >>> ppg.set_data([[1,0,1,0],[0,1,0,1]], CHs=[3,4])
            :DIG3:PATT:DATA 1,4,#141010
            :DIG4:PATT:DATA 1,4,#140101

        """
        CHs = self._check_channels(CHs)
        
        if start_addrs < 1 or start_addrs > self.MAX_MEMORY_LEN: # the same range as in get_data
            msg = f'`start_addrs` must been between 1 and {self.MAX_MEMORY_LEN}. Setting to the nearest value.'
            warnings.warn(msg)
            start_addrs = int(np.clip(start_addrs, 1, self.MAX_MEMORY_LEN))

        if not isinstance(data, (str,) + Array_Like):
            raise ValueError('`data` is not in the correct format')
        
        if isinstance(data, str):
            data = str2array(data, bool).astype(np.uint8)
        else:
            data = np.array(data, dtype=bool).astype(np.uint8)
        
        if data.ndim == 1:
            data = np.tile(data, (CHs.size, 1))

        if data.shape[-1] > self.MAX_MEMORY_LEN-start_addrs+1: # bits per channel (not rows, not characters) against the room left in the memory
            msg = 'The length of the data is greater than the maximum memory length minus the start address. Setting to the nearest value.'
            warnings.warn(msg)
            data = data[:, :self.MAX_MEMORY_LEN-start_addrs+1]
        
        for ch, data_ch_i in zip(CHs, data):

            if data_ch_i.size > self.MAX_CHUNK_LEN:
                chunks = np.split(data_ch_i, np.arange(self.MAX_CHUNK_LEN, data_ch_i.size, self.MAX_CHUNK_LEN))
            else:
                chunks = [data_ch_i]
            
            addr = start_addrs
            for chunk in chunks:
                p = addr # memory position
                n = chunk.size # data length
                k = len(str(n)) # n digits number
                data_ = ''.join(chunk.astype(str)) # binary data string
                self._query(f':DIG{ch}:PATT:DATA {p},{n},#{k}{n}{data_}')
                addr += n


    def get_data(self, size: int, start_addrs: int=1, CHs: Union[int, list[int]] = None):
        """Get the data of the pattern for each specified channel 
        
        Parameters
        ----------
        size : :obj:`int`
            Size of the data to get from the pattern memory.
        start_addrs : :obj:`int`, optional
            Start address of the data to get from the pattern memory. The range is from 1 to 2^21. Default is 1.
        CHs : :obj:`int` or :obj:`Array_Like(int)`, optional
            List of channels to get the data.

        Returns
        -------
        data : :obj:`np.ndarray`, shape (n_channels, n_bits)
            Data of the pattern for each channel.

        Warns
        -----
        UserWarning
            If the start address or the size is out of the range of the PPG3204.

        Raises
        ------
        ValueError
            If ``start_addrs`` or ``size`` are not integers.
        """
        CHs = self._check_channels(CHs)

        if not isinstance(start_addrs, int):
            raise ValueError('`start_addrs` must be an integer')
        if not isinstance(size, int):
            raise ValueError('`size` must be an integer')
        
        if start_addrs < 1 or start_addrs > self.MAX_MEMORY_LEN:
            msg = f'`start_addrs` must been between 1 and {self.MAX_MEMORY_LEN}. Setting to the nearest value.'
            warnings.warn(msg)
            start_addrs = np.clip(start_addrs, 1, self.MAX_MEMORY_LEN)

        if size < 1 or size > self.MAX_MEMORY_LEN - start_addrs + 1:
            msg = f'`size` must been between 1 and (MAX_MEMORY_LEN - start_addrs+1)={self.MAX_MEMORY_LEN - start_addrs + 1}. Setting to the nearest value.'
            warnings.warn(msg)
            size = np.clip(size, 1, self.MAX_MEMORY_LEN - start_addrs + 1)

        if size > self.MAX_CHUNK_LEN:
            bits_count = np.tile([self.MAX_CHUNK_LEN], size//self.MAX_CHUNK_LEN)
            if size%self.MAX_CHUNK_LEN:
                bits_count = np.concatenate((bits_count, [size%self.MAX_CHUNK_LEN]))
        else:
            bits_count = [size]

        data = []
        for ch in CHs:
            addr = start_addrs
            data_ch = []
            
            for bit_count in bits_count:
                b = self._query(f':DIG{ch}:PATT:DATA? {addr},{bit_count}')
                k = int(b[1])
                data_ch.append( str2array(b[k+2:-1], bool).astype(np.uint8) )
                addr += bit_count

            data.append(np.concatenate(data_ch))
        return np.array(data)


    def set_bits_shift(self, bsh: Union[int, list[int]], CHs: Union[int, list[int]] = None):
        r"""Set the bits shift of the pattern
        
        Parameters
        ----------
        bsh : :obj:`int` or :obj:`Array_Like(int)`
            Bits shift to set to the specify channels
        CHs : :obj:`int` or :obj:`Array_Like(int)`, optional
            Channels to set the bits shift. If ``CHs=None`` bits shift will be fixed in all channels.
        
        Raises
        ------
        ValueError
            If ``bsh`` is not in the correct format.

        Notes
        -----
        **Pattern shift** advance or delay. This is equivalent to unlimited shifting since this range allow shifting the longest pattern to any position. 
            - **Range**: :math:`\pm(2^{30}-1)`
            - **Resolution**: 1 bit
        """
        CHs = self._check_channels(CHs)
        
        if not isinstance(bsh, Number + Array_Like):
            raise ValueError('`bsh` is not in the correct format')
        
        if isinstance(bsh, Number):
            bsh = np.tile([bsh], CHs.size)
        else:
            bsh = np.array(bsh)
        
        for ch, b in zip(CHs, bsh):
            self._query(f':DIG{ch}:PATT:BSH {b}')


    def get_bits_shift(self, CHs: Union[int, list[int]] = None):
        """Get the bits shift of the pattern for each specified channel
        
        Parameters
        ----------
        CHs : :obj:`int` or :obj:`Array_Like(int)`, optional
            List of channels to get the bits shift.

        Returns
        -------
        bsh : :obj:`np.ndarray`
            Every channel bits shift.
        """
        CHs = self._check_channels(CHs)
        return np.array([int(self._query(f':DIG{ch}:PATT:BSH?')) for ch in CHs])


    def enable_outputs(self, CHs: Union[int, list[int]] = None):
        """Enable the output of the channels
        
        Parameters
        ----------
        CHs : :obj:`int` or :obj:`Array_Like(int)`, optional
            Channels to enable the output. If ``CHs=None`` all channels will be enabled.
        """
        CHs = self._check_channels(CHs)   
        for ch in CHs:
            self._query(f':OUTP{ch} ON')


    def disable_outputs(self, CHs: Union[str, int, list[str], list[int]] = None):
        """Disable the output of the channels.
        
        Parameters
        ----------
        CHs : :obj:`int` or :obj:`Array_Like(int)`, optional
            Channels to disable the output. If ``CHs=None`` all channels will be disabled.
        """
        CHs = self._check_channels(CHs)
        for ch in CHs:
            self._query(f':OUTP{ch} OFF')


    def set_freq(self, freq: float):
        r"""Set the bit rate of the pattern

        - *Range*: 1.5 GHz to 32 GHz
        - *Resolution*: 10 kb/s
        - *Accuracy*: :math:`\pm 5` ppm
        
        Parameters
        ----------
        freq : :obj:`float`
            Frequency of the pattern in Hz. The range is from 1.5 GHz to 32 GHz.

        Warns
        -----
        UserWarning
            If the frequency is out of the range of the PPG3204.
        """
        if freq < self.FREQ_MIN or freq > self.FREQ_MAX:
            freq = np.clip(freq, self.FREQ_MIN, self.FREQ_MAX)
            msg = f'The frequency is out of the range of the PPG3204. Setting to the limits {freq:.2e} Hz.'
            warnings.warn(msg)

        self._query(f':FREQ {freq:.5e}')
    

    def get_freq(self):
        """Get the frequency of the pattern.
        
        Returns
        -------
        freq: :obj:`float`
            Bit Rate of the pattern in bits/s.
        """
        return float(self._query(':FREQ?'))
    

    def set_skew(self, skew: Union[float, list[float]], CHs: Union[int, list[int]] = None):
        """Set the skew of the channels
        
        The channel skew is the timing of the data output. 

        - *Range*: -25 to 25 ps
        - *Resolution*: 0.1 ps
        
        Parameters
        ----------
        skew : :obj:`float` or :obj:`Array_Like(float)`
            Skew to set to the specify channels
        CHs : :obj:`int` or :obj:`Array_Like(int)`, optional
            Channels to set the skew. If ``CHs=None`` skew will be fixed in all channels.

        Raises
        ------
        ValueError
            If ``skew`` is not in the correct format.
        """
        CHs = self._check_channels(CHs)

        if not isinstance(skew, Number + Array_Like):
            raise ValueError('`skew` is not in the correct format')
        
        if isinstance(skew, Number):
            skew = np.tile([skew], CHs.size)
        else:
            skew = np.array(skew)

        if (skew < self.MIN_SKEW).any() or (skew > self.MAX_SKEW).any():
            skew = skew.clip(self.MIN_SKEW, self.MAX_SKEW)
            msg=f'The skew is out of the range of the PPG3204. Setting to the limits {skew}.'
            warnings.warn(msg)
        
        for ch, s in zip(CHs, skew):
            self._query(f':SKEW{ch} {s}')


    def get_skew(self, CHs: Union[int, list[int]] = None):
        """Get the skew of the channels
        
        Parameters
        ----------
        CHs : :obj:`int` or :obj:`Array_Like(int)`, optional
            List of channels to get the skew.
        
        Returns
        -------
        skew : :obj:`np.ndarray`
            Every channel skew.
        """
        CHs = self._check_channels(CHs)
        return np.array([float(self._query(f':SKEW{ch}?')) for ch in CHs])


    def set_output_voltage(self, amplitude: Union[float, list[float]], CHs: Union[int, list[int]] = None):
        """Set the peak-to-peak output voltage of each channel, in volts.
        
        Parameters
        ----------
        amplitude : :obj:`float` or :obj:`Array_Like`
            Amplitude to set to the specify channels
        CHs : :obj:`int` or :obj:`Array_Like`, optional
            Channels to set the amplitude. If ``CHs=None`` amplitude will be fixed in all channels.
        """
        CHs = self._check_channels(CHs)
        
        if not isinstance(amplitude, Number + Array_Like):
            raise ValueError('`amplitude` is not in the correct format')
        
        if isinstance(amplitude, Number):
            amplitude = np.tile([amplitude], CHs.size)
        else:
            amplitude = np.array(amplitude)

        if (amplitude < self.AMPLITUDE_MIN).any() or (amplitude > self.AMPLITUDE_MAX).any():
            amplitude = amplitude.clip(self.AMPLITUDE_MIN, self.AMPLITUDE_MAX) 
            msg = f'The amplitude is out of the range of the PPG3204. Setting to the limits {amplitude}.'
            warnings.warn(msg)
        
        for ch, amp in zip(CHs, amplitude):
            self._query(f':VOLT{ch}:POS {amp:.1f}v')

    def get_output_voltage(self, CHs: Union[int, list[int]] = None):
        """Get the peak-to-peak output voltage of each channel, in volts.
        
        Parameters
        ----------
        CHs : :obj:`int` or :obj:`Array_Like(int)`, optional
            List of channels to get the amplitude.

        Returns
        -------
        Vout : :obj:`np.ndarray`
            Every channel output voltage.
        """
        CHs = self._check_channels(CHs)
        return np.array([float(self._query(f':VOLT{ch}:POS?')) for ch in CHs])


    def set_offset(self, offset: Union[float, list[float]], CHs: Union[int, list[int]] = None):
        """Set the offset of the channels
        
        Parameters
        ----------
        offset : :obj:`float` or :obj:`Array_Like(float)`
            Offset to set to the specify channels
        CHs : :obj:`int` or :obj:`Array_Like(int)`, optional
            Channels to set the offset. If ``CHs=None`` offset will be fixed in all channels.

        Raises
        ------
        ValueError
            If ``offset`` is not in the correct format.

        Warns
        -----
        UserWarning
            If the offset is out of the range of the PPG3204.

        Notes
        -----
        
        **Offset adjust** relative to nominal position. 
            - **Range**: -2 to 3 V
        """
        CHs = self._check_channels(CHs)

        if not isinstance(offset, Number + Array_Like):
            raise ValueError('`offset` is not in the correct format')
        
        if isinstance(offset, Number):
            offset = np.tile([offset], CHs.size)
        else: 
            offset = np.array(offset)
        
        if (offset < self.OFFSET_MIN).any() or (offset > self.OFFSET_MAX).any():
            offset = offset.clip(self.OFFSET_MIN, self.OFFSET_MAX)
            msg = f'The offset is out of the range of the PPG3204. Setting to the limits {offset}.'
            warnings.warn(msg)

        for ch, off in zip(CHs, offset):
            if off < 0:
                self._query(f':VOLT{ch}:NEG:OFFS {off:.1f}v')
            else:
                self._query(f':VOLT{ch}:POS:OFFS {off:.1f}v')


    def get_offset(self, CHs: Union[int, list[int]] = None):
        """Get the offset of the channels
        
        Parameters
        ----------
        CHs : :obj:`int` or :obj:`Array_Like(int)`, optional
            List of channels to get the offset.
        
        Returns
        -------
        offset : :obj:`np.ndarray`
            Every channel offset.
        """
        CHs = self._check_channels(CHs)
        return np.array([float(self._query(f':VOLT{ch}:OFFS?')) for ch in CHs])


    def __call__(self, 
               freq: float = None, 
               patt_len: Union[int, list[int]] = None, 
               Vout: Union[float, list[float]] = None,
               offset: Union[float, list[float]] = None,
               bsh: Union[int, list[int]] = None, 
               skew: Union[float, list[float]] = None,
               mode: Literal['DATA', 'PRBS'] = None, 
               order: Union[int, list[int]] = None, 
               data: Union[np.ndarray, list[np.ndarray]] = None,
               CHs: Union[int, list[int]] = None):
        """ Configure the PPG3204 with the specified parameters for specified channels.

        Parameters
        ----------
        freq : :obj:`float`, optional
            Frequency of the pattern in Hz. The range is from 1.5 GHz to 32 GHz.
        patt_len : :obj:`int` or :obj:`Array_Like(int)`, optional
            Pattern length for every channel specified in ``CHs``.
        Vout : :obj:`float` or :obj:`Array_Like(float)`, optional
            Amplitude to set to the specify channels
        offset : :obj:`float` or :obj:`Array_Like(float)`, optional
            Offset to set to the specify channels
        bsh : :obj:`int` or :obj:`Array_Like(int)`, optional
            Bits shift to set to the specify channels
        skew : :obj:`float` or :obj:`Array_Like(float)`, optional
            Skew to set to the specify channels
        mode : :obj:`str`, optional
            Work mode of the PPG.
        order : :obj:`int` or :obj:`Array_Like(int)`, optional
            order of the polynomial generator. If ``mode='PRBS'``.
        data : :obj:`np.ndarray` or :obj:`Array_Like(np.ndarray)`, optional
            Data to set to the specify channels. If ``mode='DATA'``.
        CHs : :obj:`int` or :obj:`Array_Like(int)`, optional
            Channels to set the configuration.

        Examples
        --------
        In this examples we don't pass the argument ``addr_ID`` in order to print the commands output. For communication with a device this parameter is required.

        .. code-block:: python

            >>> from opticomlib.lab import PPG3204
            >>> 
            >>> ppg = PPG3204()
            >>> ppg(freq=10e9, patt_len=1000, Vout=1.5, offset=0.5, bsh=10, skew=0.5e-12, mode='PRBS', order=7, CHs=2)
            :FREQ 1.0e+10
            :DIG2:PATT:LENG 1000
            :VOLT2:POS 1.5v
            :VOLT2:POS:OFFS 0.5v
            :DIG2:PATT:BSH 10
            :SKEW2 5e-13
            :DIG2:PATT:TYPE PRBS
            :DIG2:PATT:PLEN 7
        """
        if freq is not None:
            self.set_freq(freq)

        if patt_len is not None:
            self.set_patt_len(patt_len, CHs)
        
        if Vout is not None:
            self.set_output_voltage(Vout, CHs)

        if offset is not None:
            self.set_offset(offset, CHs)

        if bsh is not None:
            self.set_bits_shift(bsh, CHs)

        if skew is not None:
            self.set_skew(skew, CHs)

        if mode is not None:
            self.set_mode(mode, CHs)

        if order is not None and mode == 'PRBS':
            self.set_prbs_order(order, CHs)
        
        if data is not None and mode == 'DATA':
            self.set_data(data, CHs=CHs)
        return 'Done'
    
    def config(self, 
               freq: float = None, 
               patt_len: Union[int, list[int]] = None, 
               Vout: Union[float, list[float]] = None,
               offset: Union[float, list[float]] = None,
               bsh: Union[int, list[int]] = None, 
               skew: Union[float, list[float]] = None,
               mode: Literal['DATA', 'PRBS'] = None, 
               order: Union[int, list[int]] = None, 
               data: Union[np.ndarray, list[np.ndarray]] = None,
               CHs: Union[int, list[int]] = None):
        """ Configure the PPG3204 with the specified parameters for specified channels.
        
        Parameters
        ----------
        freq : :obj:`float`, optional
            Frequency of the pattern in Hz. The range is from 1.5 GHz to 32 GHz.
        patt_len : :obj:`int` or :obj:`Array_Like(int)`, optional
            Pattern length for every channel specified in ``CHs``.
        Vout : :obj:`float` or :obj:`Array_Like(float)`, optional
            Amplitude to set to the specify channels
        offset : :obj:`float` or :obj:`Array_Like(float)`, optional
            Offset to set to the specify channels
        bsh : :obj:`int` or :obj:`Array_Like(int)`, optional
            Bits shift to set to the specify channels
        skew : :obj:`float` or :obj:`Array_Like(float)`, optional
            Skew to set to the specify channels
        mode : :obj:`str`, optional
            Work mode of the PPG.
        order : :obj:`int` or :obj:`Array_Like(int)`, optional
            order of the polynomial generator. If ``mode='PRBS'``.
        data : :obj:`np.ndarray` or :obj:`Array_Like(np.ndarray)`, optional
            Data to set to the specify channels. If ``mode='DATA'``.
        CHs : :obj:`int` or :obj:`Array_Like(int)`, optional
            Channels to set the configuration.

        Examples
        --------
        In this examples we don't pass the argument ``addr_ID`` in order to print the commands output. For communication with a device this parameter is required.

        .. code-block:: python

            >>> from opticomlib.lab import PPG3204
            >>> 
            >>> ppg = PPG3204()
            >>> ppg(freq=10e9, patt_len=1000, Vout=1.5, offset=0.5, bsh=10, skew=0.5e-12, mode='PRBS', order=7, CHs=2)
            :FREQ 1.0e+10
            :DIG2:PATT:LENG 1000
            :VOLT2:POS 1.5v
            :VOLT2:POS:OFFS 0.5v
            :DIG2:PATT:BSH 10
            :SKEW2 5e-13
            :DIG2:PATT:TYPE PRBS
            :DIG2:PATT:PLEN 7
        """
        self.__call__(freq, patt_len, Vout, offset, bsh, skew, mode, order, data, CHs)
