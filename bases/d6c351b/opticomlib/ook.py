"""
.. rubric:: Functions
.. autosummary::

   THRESHOLD_EST       
   DSP                  
   BER_analizer          
   theory_BER           
"""

from numpy import ndarray
from typing import Literal, Union

import numpy as np

from .devices import GET_EYE, SAMPLER, LPF
from .typing import binary_sequence, electrical_signal, eye, gv
from .utils import Q, tic, toc



def THRESHOLD_EST(eye_obj: eye):
    """Threshold estimator

    Estimates the decision threshold for OOK from the means and standard deviations of the eye diagram.

    Parameters
    ----------
    eye_obj : :obj:`eye`
        Object with the parameters of the eye diagram.

    Returns
    -------
    :obj:`float`
        Decision threshold for OOK.

    Notes
    -----
    The decision threshold is estimated as the value of amplitud that minimizes the probability of error
    given the means and standard deviations of the eye diagram. This is done by minimizing the probability function [th]_:

    .. math::
        f(r) = \\frac{1}{2} Q\\left(\\frac{\\mu_1 - r}{\\sigma_1}\\right) + \\frac{1}{2} Q\\left(\\frac{r - \\mu_0}{\\sigma_0}\\right)

    where :math:`\\mu_0` and :math:`\\mu_1` are the means of the eye diagram, :math:`\\sigma_0` and :math:`\\sigma_1` are the standard deviations
    and :func:`~opticomlib.utils.Q` is the Q-function.

    References
    ----------
    .. [th] Armando Palacio Romeu, "Comunicaciones ópticas entre satélites LEO y GEO", chapter 2.4. link: https://ricabib.cab.cnea.gov.ar/1143/1/1Palacio_Romeu.pdf
    """

    mu0 = eye_obj.mu0
    mu1 = eye_obj.mu1
    s0 = eye_obj.s0
    s1 = eye_obj.s1

    r = np.linspace(mu0, mu1, 1000)
    pe = 0.5*(Q((mu1-r)/s1) + Q((r-mu0)/s0))
    ties = np.flatnonzero(pe == np.nanmin(pe))  # every minimiser: for a nearly noise-free eye the cost underflows to 0 over a stretch of the grid
    umbral = r[ties[len(ties)//2]]  # the middle one (argmin would take the first, next to mu0)
    return umbral


def DSP(input: electrical_signal, BW: float = None):
    """On-Off Keying Digital Signal Processing
    
    Performs the decision task of the photodetected electrical signal. 

    1. If ``BW`` is provided bessel filter will be applied to the signal (:func:`opticomlib.devices.LPF`)
    2. eye diagram parameters are estimated from the input electrical signal with function :func:`opticomlib.devices.GET_EYE`.
    3. it subsamples the electrical signal to 1 sample per bit using function :func:`opticomlib.devices.SAMPLER`. 
    4. Then, it compares the amplitude of the subsampled signal with optimal threshold. The optimal threshold is obtained from function :func:`opticomlib.ook.THRESHOLD_EST`. 
    5. Finally, it returns the received binary sequence, eye object and optimal threshold.

    Parameters
    ----------
    input : :obj:`electrical_signal`
        Photodetected electrical signal.
    BW : :obj:`float`, optional
        Bandwidth of DSP filter. If not specified, signal won't be filtered.

    Returns
    -------
    output : :obj:`binary_sequence`
        Received bits.
    eye_obj : :obj:`eye`
        Eye diagram parameters.
    rth : :obj:`float`
        Decision threshold for OOK.

    Examples
    --------
    .. plot::
        :include-source:
        :alt: DSP OOK
        :align: center
        :width: 720

        from opticomlib.devices import DAC, gv
        from opticomlib.ook import DSP

        import numpy as np
        import matplotlib.pyplot as plt

        gv(sps=64, R=1e9)

        x = DAC('01000100100000', 1, pulse_shape='gaussian')
        x.noise = np.random.normal(0, 0.1, x.len())

        y, eye_, xth = DSP(x)

        x.plot('y', label='Photodetected signal')
        DAC(y).plot(c='r', lw=2, label='Received sequence')
        plt.axhline(xth, color='b', linestyle='--', label='Threshold')
        plt.legend(loc='upper right')
        plt.show()
    """
    tic()
    if BW is not None:
        x = LPF(input, BW)
    else:
        x = input
        x.execution_time = 0

    eye_obj = GET_EYE(x, nslots=8192, sps_resamp=128)
    rth = THRESHOLD_EST(eye_obj)

    x = SAMPLER(x, gv.sps//2) # one sample per bit 
    
    output = x > rth
    
    output.execution_time = toc()
    return output, eye_obj, rth


def BER_analizer(mode: Literal['counter', 'estimator'], **kargs):
    """BER Analizer
    
    Calculates the bit error rate (BER), either by error counting (comparing the received sequence with the transmitted one) 
    or by estimation (using estimated means and variances from the eye diagram and substituting those values into the theoretical expressions).

    Parameters
    ----------
    mode : :obj:`str`
        Mode in which the Bit Error Rate (BER) will be determined.

    Other Parameters
    ----------------
    Tx : :obj:`binary_sequence`, optional
        Transmitted binary sequence. Required if `mode='counter'`.
    Rx : :obj:`binary_sequence`, optional
        Received binary sequence. Required if `mode='counter'`.
    eye_obj : :obj:`eye`, optional
        `eye` object with the estimated parameters of the eye diagram. Required if `mode='estimator'`.

    Returns
    -------
    :obj:`float`
        BER.
    
    Examples
    --------
    .. code-block:: python
        
        from opticomlib.devices import DAC, gv, binary_sequence
        from opticomlib.ook import DSP, BER_analizer

        import numpy as np

        gv(sps=64, R=1e9)

        tx = binary_sequence('01000100100000')
        x = DAC(tx, pulse_shape='gaussian')
        x.noise = np.random.normal(0, 0.1, x.len())

        rx, eye_, xth = DSP(x)
        BER_count = BER_analizer('counter', Tx=tx, Rx=rx)
        BER_est = BER_analizer('estimator', eye_obj=eye_)

        print(f'BER by counting: {BER_count:.1e}')
        print(f'BER by estimation: {BER_est:.1e}')
    
    Output:
        
    ::
        
        BER by counting: 0.0e+00
        BER by estimation: 3.7e-07
    """

    if mode == 'counter':
        assert 'Rx' in kargs.keys() and 'Tx' in kargs.keys(), "`Tx` and `Rx` are required arguments for `mode='counter'`."
        Rx = kargs['Rx']
        Tx = kargs['Tx']

        if not isinstance(Rx, binary_sequence):
            Rx = binary_sequence( Rx )
        if not isinstance(Tx, binary_sequence):
            Tx = binary_sequence( Tx )

        Tx = Tx[:Rx.len()]
        assert Tx.len() == Rx.len(), "Error: `Tx` and `Rx` must have the same length."

        return np.sum(Tx.data != Rx.data)/Tx.len()

    elif mode == 'estimator':
        assert 'eye_obj' in kargs.keys(), "`eye_obj` is a required argument for `mode='estimator'`."

        eye_obj = kargs['eye_obj']

        I1 = eye_obj.mu1
        I0 = eye_obj.mu0
        s1 = eye_obj.s1
        s0 = eye_obj.s0
        um = THRESHOLD_EST(eye_obj)

        return 0.5*(Q((I1-um)/s1) + Q((um-I0)/s0))

    else:
        raise TypeError('Invalid mode. Use `counter` or `estimator`.')
    


def theory_BER(mu1: Union[int, ndarray], s0: Union[int, ndarray], s1: Union[int, ndarray]):
    r"""Calculates the theoretical bit error probability for an OOK system.

    Parameters
    ----------
    mu1 : :obj:`float`
        Average current (or voltage) value of the signal corresponding to a bit 1.
    s0 : :obj:`float`
        Standard deviation of current (or voltage) of the signal corresponding to a bit 0.
    s1 : :obj:`float`
        Standard deviation of current (or voltage) of the signal corresponding to a bit 1.

    Returns
    -------
    :obj:`float`
        Theoretical bit error probability (BER).

    Notes
    -----
    The theoretical bit error probability is calculated using the following expression:

    .. math::
        P_e = \frac{1}{2} \left[Q\left(\frac{\mu_1 - r_{th}}{\sigma_1}\right) + Q\left(\frac{r_{th}}{\sigma_0}\right)\right]

    Examples
    --------
    >>> from opticomlib.ook import theory_BER
    >>> theory_BER(mu1=1, s0=0.1, s1=0.1)
    2.8674468224390994e-07
    """
    @np.vectorize
    def fun(mu1_,s0_,s1_):
        r = np.linspace(0,mu1_,1000)
        return 0.5*np.min(Q((mu1_-r)/s1_) + Q(r/s0_))
                     
    return fun(mu1,s0,s1)