"""
.. rubric:: Functions
.. autosummary::

   PPM_ENCODER           
   PPM_DECODER           
   HDD                   
   SDD                   
   THRESHOLD_EST         
   DSP                   
   BER_analizer          
   theory_BER           
"""

import numpy as np
from typing import Literal, Union
from numpy import ndarray
from scipy.integrate import quad
from scipy.constants import pi

from .devices import GET_EYE, SAMPLER, LPF
from .typing import binary_sequence, electrical_signal, eye, gv, Array_Like
from .utils import tic, toc, str2array, dec2bin, Q, _soft_ser



def PPM_ENCODER(input: Union[str, list, tuple, ndarray, binary_sequence], M: int) -> binary_sequence:
    r"""PPM Encoder

    Converts an input binary sequence into a binary sequence PPM encoded.

    Parameters
    ----------
    input : :obj:`binary_sequence`
        Input binary sequence.
    M : :obj:`int`
        Number of slots that a symbol contains.

    Returns
    -------
    ppm_seq : :obj:`binary_sequence`
        Encoded binary sequence in PPM.

    Notes
    -----
    The input binary sequence is converted into a PPM sequence by grouping each :math:`\log_2{M}` bits 
    and converting them into decimal. Then, the decimal values are the positions of ON slots into the PPM symbols of
    length :math:`M`.

    Examples
    --------
    >>> from opticomlib.ppm import PPM_ENCODER
    >>> PPM_ENCODER('01111000', 4).data.astype(int)
    array([0, 1, 0, 0, 0, 0, 0, 1, 0, 0, 1, 0, 1, 0, 0, 0])

    """
    tic()

    if isinstance(input, binary_sequence):
        input = input.data
    elif isinstance(input, str):
        input = str2array(input, bool)
    elif isinstance(input, Array_Like):
        input = np.array(input, dtype=bool)
    else:
        raise TypeError("`input` must be of type (str, list, tuple, ndarray, binary_sequence)")

    k = int(np.log2(M))

    input = input[:len(input)//k*k] 

    decimal = np.sum(input.reshape(-1,k)*2**np.arange(k)[::-1], axis=-1) # convert bits to decimal
    ppm_s = np.zeros(decimal.size*M, dtype=bool)

    ppm_s[np.arange(decimal.size)*M + decimal] = 1 # coded the symbols
   
    output = binary_sequence(ppm_s) 
    output.execution_time = toc()
    return output



def PPM_DECODER(input: Union[str, list, tuple, np.ndarray, binary_sequence], M: int) -> binary_sequence:
    """PPM Decoder

    Receives a binary sequence encoded in PPM and decodes it.

    Parameters
    ----------
    input : binary sequence in form of a string, list, tuple, ndarray or binary_sequence
        Binary sequence encoded in PPM.
    M : :obj:`int`
        Order of PPM modulation.

    Returns
    -------
    :obj:`binary_sequence`
        Decoded binary sequence.

    Examples
    --------
    >>> from opticomlib.ppm import PPM_DECODER
    >>> PPM_DECODER('0100000100101000', 4).data.astype(int)
    array([0, 1, 1, 1, 1, 0, 0, 0])
    """
    tic()

    if isinstance(input, binary_sequence):
        input = input.data
    elif isinstance(input, str):
        input = str2array(input, bool)
    elif isinstance(input, Array_Like):
        input = np.array(input, dtype=bool)
    else:
        raise TypeError("`input` must be of type (str, list, tuple, ndarray, binary_sequence)")
    
    k = int(np.log2(M))

    decimal = np.where(input==1)[0]%M # get decimals

    output = np.array(list(map(lambda x: dec2bin(x,k), decimal))).ravel() # convert decimals to bits
    output= binary_sequence(output)

    output.execution_time = toc()
    return output


def HDD(input: Union[str, list, tuple, np.ndarray, binary_sequence], M: int):
    """Hard Decision Decoder

    Estimates the most probable PPM symbols from the given binary sequence.

    - If there is any symbol without ON slots, then one of them is raised randomly
    - If there is any symbol with more tan one ON slots, then one of them is selected randomly
    - Other case algorithm do nothing.   

    Parameters
    ----------
    input : binary sequence in form of a string, list, tuple, ndarray or binary_sequence
        Binary sequence to estimate.

    Returns
    -------
    :obj:`binary_sequence`
        Sequence of estimated symbols ready to decode.

    Raises
    ------
    ValueError
        If `M` is not a power of 2.
    ValueError
        If the length of `input` is not a multiple of `M`.

    Examples
    --------
    >>> from opticomlib.ppm import HDD, binary_sequence
    >>> 
    >>> HDD(binary_sequence('0100 0111 0000'), 4).data.astype(int)
    array([0, 1, 0, 0, 0, 0, 0, 1, 0, 0, 0, 1])
    """
    tic()

    if isinstance(input, binary_sequence):
        input = input.data
    elif isinstance(input, str):
        input = str2array(input, bool)
    elif isinstance(input, Array_Like):
        input = np.array(input, dtype=bool)
    else:
        raise TypeError("`input` must be of type (str, list, tuple, ndarray, binary_sequence)")

    if M < 1 or not M & (M-1) == 0:
        raise ValueError("`M` must be a power of 2.")

    if input.size % M != 0:
        raise ValueError("The length of `input` must be a multiple of `M`.")

    n_simb = int(input.size/M) # number of symbols

    s = np.sum(input.reshape(n_simb, M), axis=-1) # number of ON slots per symbol

    output = input.copy() 

    for i in np.where(s==0)[0]: 
        output[i*M + np.random.randint(M)] = 1  # raise one slot randomly for each symbol without ON slots

    for i in np.where(s>1)[0]: 
        j = np.where(output[i*M:(i+1)*M]==1)[0]
        output[i*M:(i+1)*M] = 0
        output[i*M + np.random.choice(j)]=1  # select one ON slot randomly for each symbol with more than one ON slots

    output = binary_sequence(output)
    output.execution_time = toc()
    return output



def SDD(input: electrical_signal, M: int) -> binary_sequence:
    """Soft Decision Decoder

    Estimates the most probable PPM symbols from the given electrical signal without sampling.
    It integrate the signal in slots and then, it selects the slot with the highest energy.

    Parameters
    ----------
    input : :obj`electrical_signal`
        Unsampled electrical signal.

    Returns
    -------
    :obj`binary_sequence`
        Sequence of estimated symbols ready to decode.

    Raises
    ------
    ValueError
        If `M` is not a power of 2.
    ValueError
        If the length of `input` is not a multiple of `M*sps`.

    Examples
    --------
    >>> from opticomlib.ppm import SDD, electrical_signal, gv
    >>> import numpy as np
    >>>
    >>> x = np.kron([0.1,1.2,0.1,0.2,  0.1,0.9,1.0,1.1,  0.1,0.1,0.1,0.2], np.ones(gv.sps))
    >>> SDD(electrical_signal(x), M=4).data.astype(int)
    array([0, 1, 0, 0, 0, 0, 0, 1, 0, 0, 0, 1])
    """
    tic()

    if M < 1 or not M & (M-1) == 0:
        raise ValueError("`M` must be a power of 2.")
    
    if isinstance(input, electrical_signal):
        if input.noise is not None:
            input = input.signal + input.noise
        else:
            input = input.signal

    elif isinstance(input, Array_Like):
        input = np.array(input)
    
    if input.size % (M*gv.sps) != 0:
        raise ValueError("The length of `input` must be a multiple of `M*sps`.")

    signal = np.sum( input.reshape(-1, gv.sps), axis=-1)

    i = np.argmax( signal.reshape(-1, M), axis=-1)

    output = np.zeros_like(signal, dtype=np.uint8)
    output[np.arange(i.shape[0])*M+i] = 1

    output = binary_sequence(output)
    output.execution_time = toc()
    return output



def THRESHOLD_EST(eye_obj: eye, M: int):
    """Threshold Estimator
    
    Estimates the decision threshold for M-PPM from means and standard deviations of ``eye_obj``.

    Parameters
    ----------
    eye_obj : :obj:`eye`
        `eye` object with the parameters of the eye diagram.
    M : :obj:`int`
        Order of PPM.

    Returns
    -------
    :obj:`float`
        Estimated threshold.

    Raises
    ------
    ValueError
        If `M` is not a power of 2.
    TypeError
        If `eye_obj` is not of type `eye`.
    
    Examples
    --------
    >>> from opticomlib.ppm import THRESHOLD_EST, eye
    >>>
    >>> eye_obj = eye({'mu0':0.1, 'mu1':1.1, 's0':0.1, 's1':0.1})
    >>> THRESHOLD_EST(eye_obj, M=4)
    """
    if not M & (M-1) == 0:
        raise ValueError("`M` must be a power of 2.")
    
    if not isinstance(eye_obj, eye):
        raise TypeError("`eye_obj` must be of type `eye`.")

    mu0 = eye_obj.mu0
    mu1 = eye_obj.mu1
    s0 = eye_obj.s0
    s1 = eye_obj.s1

    r = np.linspace(mu0, mu1, 1000)
    # 1 - P(ON above r) * P(OFF below r)**(M-1), written without the subtraction from one (which has no resolution below 1e-16)
    umbral = r[np.argmin(Q((mu1-r)/s1) - Q((r-mu1)/s1) * np.expm1((M-1)*np.log1p(-Q((r-mu0)/s0))))]
    return umbral



def DSP(input: electrical_signal, M :int, decision: Literal['hard','soft']='hard', threshold=None):
    """PPM Digital Signal Processor
    
    Performs the decision task of the photodetected electrical signal. 

    1. eye diagram parameters are estimated from the input electrical signal with function :func:`opticomlib.devices.GET_EYE`.
    2. it subsamples the electrical signal to 1 sample per slot using function :func:`opticomlib.devices.SAMPLER`. 
    3. if ``decision='hard'`` it compares the amplitude of the subsampled signal with optimal threshold. The optimal threshold is obtained from function :func:`opticomlib.ppm.THRESHOLD_EST`. 
    4. then, it make the decision (:func:`opticomlib.ppm.HDD` if ``decision='hard'`` or :func:`opticomlib.ppm.SDD` if ``decision='soft'``).
    5. Finally, it returns the received binary sequence, eye object and optimal threshold.

    Parameters
    ----------
    input : :obj:`electrical_signal`
        Filtered and digitalized electrical signal.
    M : :obj:`int`
        Order of PPM modulation.
    decision : :obj:`str`, optional
        Type of decision to make. Default is 'hard'.
    threshold: :obj:`float`, optional
        Threshold for PPM-HDD. If not provided, optimal threshold is estimated.

    Returns
    -------
    output : :obj:`binary_sequence`
        Received bits.
    eye_obj : :obj:`eye`, optional
        Eye diagram parameters, only if ``decision='hard'``.
    rth : :obj:`float`, optional
        Decision threshold for PPM, only if ``decision='hard'``.

    Raises
    ------
    TypeError
        If `input` is not of type `electrical_signal` or `Array_Like`.
    ValueError
        If `input` has less samples than `sps`.
    ValueError
        If `M` is not a power of 2.
    ValueError
        If `decision` is not 'hard' or 'soft'.
    
    Examples
    --------
    .. plot::
        :include-source:
        :alt: DSP PPM
        :align: center
        :width: 720

        from opticomlib.devices import DAC, gv
        from opticomlib.ppm import DSP

        import numpy as np
        import matplotlib.pyplot as plt

        gv(sps=64, R=1e9)

        x = DAC('0100 1010 0000', pulse_shape='gaussian')
        x.noise = np.random.normal(0, 0.1, x.len())

        y = DSP(x, M=4, decision='soft')

        DAC(y).plot(c='r', lw=3, label='Received sequence').show()
    """
    tic()

    if not isinstance(input, (electrical_signal,) + Array_Like):
        raise TypeError("`input` must be of type `electrical_signal` or `Array_Like`.")
    
    if not isinstance(input, electrical_signal):
        input = electrical_signal(input)
    
    if input.len() < gv.sps:
        raise ValueError("`input` must have at least `sps` samples.")
    
    if not M & (M-1) == 0:
        raise ValueError("`M` must be a power of 2.")

    x = input

    if decision.lower() == 'hard':
        
        if threshold is not None:
            rth = threshold
        else:
            eye_obj = GET_EYE(x, nslots=8192)
            if eye_obj.threshold is not None:
                rth = eye_obj.threshold
            else:
                rth = THRESHOLD_EST(eye_obj, M)
        
        y = SAMPLER(x, gv.sps//2)

        output = y > rth
        simbols = HDD(output, M)
        output = PPM_DECODER(simbols, M)
    
    elif decision.lower() == 'soft':
        simbols = SDD(x, M)
        output = PPM_DECODER(simbols, M)

    else:
        raise ValueError('`decision` must be "hard" or "soft"')
    
    output.execution_time = toc()
    return output



def BER_analizer(mode: Literal['counter', 'estimator'], **kwargs):
    """BER Analizer
    
    Calculates the bit error rate (BER), either by error counting (comparing the received sequence with the transmitted one) 
    or by estimation (using estimated means and variances from the eye diagram and substituting those values into the theoretical expressions).

    Parameters
    ----------
    mode : :obj:`str`
        Mode in which the Bit Error Rate (BER) will be determined.

    Other Parameters
    ----------------
    Tx : :obj:`binary_sequence`, optional
        Transmitted binary sequence. Required if `mode='counter'`.
    Rx : :obj:`binary_sequence`, optional
        Received binary sequence. Required if `mode='counter'`.
    eye_obj : :obj:`eye`, optional
        `eye` object with the estimated parameters of the eye diagram. Required if `mode='estimator'`.
    M : :obj:`int`, optional
        Order of PPM modulation. Required if `mode='estimator'`.
    decision : :obj:`str`, optional
        Type of decision to make, 'hard' or 'soft'. Default is 'soft'. Required if `mode='estimator'`.

    Returns
    -------
    :obj:`float`
        BER.

    Raises
    ------
    ValueError
        If `mode` is not 'counter' or 'estimator'.
    ValueError
        If `decision` is not 'hard' or 'soft'.
    KeyError
        If `Tx` or `Rx` are not provided when `mode='counter'`.
    KeyError
        If `eye_obj` or `M` are not provided when `mode='estimator'`.
    ValueError
        If `M` is not a power of 2.
    """
        
    if mode.lower() == 'counter':
        Tx = kwargs.get('Tx', None)
        Rx = kwargs.get('Rx', None)

        if Tx is None or Rx is None:
            raise KeyError("`Tx` and `Rx` are required arguments for `mode='counter'`.")

        if not isinstance(Rx, binary_sequence):
            Rx = binary_sequence( Rx )
        if not isinstance(Tx, binary_sequence):
            Tx = binary_sequence( Tx )

        Tx = Tx[:Rx.len()]
        assert Tx.len() == Rx.len(), "Error: `Tx` and `Rx` must have the same length."

        return np.sum(Tx.data != Rx.data)/Tx.len()

    elif mode.lower() == 'estimator':
        eye_obj = kwargs.get('eye_obj', None)
        M = kwargs.get('M', None)
        decision = kwargs.get('decision', 'soft')

        if eye_obj is None or M is None:
            raise KeyError("`eye_obj` and `M` are required arguments for `mode='estimator'`.")

        if not M & (M-1) == 0:
            raise ValueError("`M` must be a power of 2.")

        if decision.lower() not in ['hard', 'soft']:
            raise ValueError("`decision` must be 'hard' or 'soft'.")
        decision = decision.lower()

        I1 = eye_obj.mu1
        I0 = eye_obj.mu0
        s1 = eye_obj.s1
        s0 = eye_obj.s0
        um = THRESHOLD_EST(eye_obj, M)

        if decision == 'hard':
            Pe_sym = 1 - Q((um-I1)/s1) * (1-Q((um-I0)/s0))**(M-1)
        elif decision == 'soft':
            Pe_sym = _soft_ser(I1-I0, s0, s1, M)
        return M/2/(M-1)*Pe_sym

    else:
        raise ValueError('Invalid mode. Use `counter` or `estimator`.')


def theory_BER(mu1: Union[float, ndarray], s0: Union[float, ndarray], s1: Union[float, ndarray], M: int, decision: Literal['soft','hard']='soft'):
    r"""
    Calculates the theoretical bit error probability for a PPM system.

    Parameters
    ----------
    mu1 : :obj:`float` or :obj:`ndarray`
        Average current (or voltage) value of the signal corresponding to a bit 1.
    s0 : :obj:`float` or :obj:`ndarray`
        Standard deviation of current (or voltage) of the signal corresponding to a bit 0.
    s1 : :obj:`float` or :obj:`ndarray`
        Standard deviation of current (or voltage) of the signal corresponding to a bit 1.
    M : :obj:`int`
        Order of PPM modulation.
    decision : :obj:`str`, optional
        Type of PPM decoding. Default is 'soft'.

    Returns
    -------
    :obj:`float`
        Theoretical bit error probability (BER).

    Raises
    ------
    ValueError
        If `M` is not a power of 2.
    ValueError
        If `decision` is not 'hard' or 'soft'.

    Notes
    -----
    The theoretical bit error probability is calculated using the following expression:

    .. math::
        P_e = \frac{M/2}{(M-1)}P_{e_{sym}}

    where :math:`P_{e_{sym}}` is the symbol error probability, and is calculated as follows for ``decision='soft'``:

    .. math::
        P_{e_{sym}} = 1 - \frac{1}{\sqrt{2\pi}}\int_{-\infty}^{\infty} \left( 1-Q\left( \frac{\mu_1+s_1x}{s_0} \right) \right) ^{M-1} e^{-x^2/2}dx

    and for ``decision='hard'``:

    .. math::
        P_{e_{sym}} = 1 - Q\left( \frac{r_{th}-\mu_1}{s_1} \right) \left( 1-Q\left( \frac{r_{th}}{s_0} \right) \right)^{M-1}

    Examples
    --------
    >>> from opticomlib.ppm import theory_BER
    >>> theory_BER(mu1=1, s0=0.1, s1=0.1, M=8, decision='hard')
    8.515885763544466e-07
    >>> theory_BER(mu1=1, s0=0.1, s1=0.1, M=8, decision='soft')
    3.074810247686141e-12

    """
    if not M & (M-1) == 0:
        raise ValueError("`M` must be a power of 2.")

    if decision == 'soft':
        fun = np.vectorize( lambda mu1,s0,s1,M: _soft_ser(mu1, s0, s1, M) )
    elif decision == 'hard':
        @np.vectorize
        def fun(mu1_,s0_,s1_,M_):
            r = np.linspace(0,mu1_,1000)
            return np.min(1 - Q((r-mu1_)/s1_) * (1-Q(r/s0_))**(M_-1))
    else:
        raise ValueError('`decision` must be `soft` or `hard`.')
    return fun(mu1,s0,s1,M)*0.5*M/(M-1)

