"""
.. rubric:: Classes
.. autosummary::

    global_variables
    binary_sequence
    electrical_signal
    optical_signal
    eye
"""

from numpy.fft import fft, ifft, fftfreq, fftshift, ifftshift
from pympler.asizeof import asizeof as sizeof

import numpy as np
from scipy.constants import c, pi

import matplotlib.pyplot as plt
plt.rcParams['font.family'] = 'serif' 

from matplotlib.widgets import Slider

from typing import Literal, Any, Iterable

import warnings

from .utils import (
    str2array, 
    dbm, 
    si, 
)

Array_Like = (list, tuple, np.ndarray)
Number = (int, float)

class global_variables():
    r"""**Global Variables (gv)**

    This object is used to store global variables that are used in the simulation.
    The global variables are used mainly to define the sampling frequency, the slot rate, 
    the number of samples per slot and the optical wavelength or frequency.

    .. Note:: 
        
        A slot is taken as the smallest time unit representing a binary value of the signal.
        For example, in PPM a bit is not the same as a slot. However, in OOK a bit and a slot are the same.

    This class don't need to be instantiated. It is already instantiated as ``gv``.
    For update or add a variable use the :meth:`__call__` method (i.e gv(\*\*kargs)).
    
    .. rubric:: Attributes
    .. autosummary::

        ~global_variables.sps
        ~global_variables.R
        ~global_variables.fs
        ~global_variables.dt
        ~global_variables.wavelength
        ~global_variables.f0
        ~global_variables.N
        ~global_variables.t
        ~global_variables.dw
        ~global_variables.w

        
    .. rubric:: Methods
    .. autosummary::

        __call__
        __str__
        print

    Examples
    --------
    >>> gv(R=10e9, sps=8, N=100).print()

    ::

        ------------------------
        *** Global Variables ***
        ------------------------
            sps :   8
            R   :   1.00e+10
            fs  :   8.00e+10
            λ0  :   1.55e-06
            f0  :   1.93e+14
            N   :   100
            dt  :   1.25e-11
            dw  :   6.28e+08
            t   :   [0.e+00 1.e-11 3.e-11 ... 1.e-08 1.e-08 1.e-08]
            w   :   [-3.e+11 -3.e+11 -3.e+11 ...  2.e+11  3.e+11  3.e+11]

    Also can be define new variables trough \*\*kwargs. If at least two of this arguments (``sps``, ``fs`` and ``R``) are not provided
    a warning will be raised and the default values will be used.

    >>> gv(alpha=0.5, beta=0.3).print()
    
    ::
    
        UserWarning: `sps`, `R` and `fs` will be set to default values (16 samples per slot, 1.00e+09 Hz, 1.60e+10 Samples/s)
        warnings.warn(msg)

        ------------------------------
        ***    Global Variables    ***
        ------------------------------
                sps :  16
                R   :  1.00e+09
                fs  :  1.60e+10
                λ0  :  1.55e-06
                f0  :  1.93e+14
        
        Custom
        ------
                alpha : 0.5
                beta : 0.3

    """

    def __init__(self):
        self.sps = 16
        """Number of samples per slot, ``16`` by default."""
        self.R = 1e9
        """Slot rate in Hz, ``1e9`` by default."""	
        self.fs = self.R*self.sps
        """Sampling frequency in Samples/s, ``R*sps=16e9`` by default."""	
        self.dt = 1/self.fs
        """Time step in seconds, ``1/fs=62.5e-12`` by default."""
        self.wavelength = 1550e-9
        """Optical communication central wavelength in meters, ``1550e-9`` by default."""
        self.f0 = c/self.wavelength
        """Optical communication central frequency in Hz, ``c/wavelength=193.4e12`` by default."""
        self.N = None
        """Number of slots to simulate (``None`` by default), if provided, it will set the instance's `N` attribute and calculate `t`, `dw`, and `w`."""
        self.t = None
        """Time array in seconds, ``None`` by default."""
        self.dw = None
        """Frequency step in Hz, ``None`` by default."""
        self.w = None
        """Frequency array in Hz, ``None`` by default."""


    def __call__(self, sps: int=None, R: float=None, fs: float=None, wavelength: float=1550e-9, N: int=None, **kargs) -> Any:
        """
        Configures the instance with the provided parameters.

        Parameters
        ----------
        sps : :obj:`int`, optional
            Samples per slot. If provided, it will set the instance's `sps` attribute.
        R : :obj:`float`, optional
            Rate in Hz. If provided, it will set the instance's `R` attribute.
        fs : :obj:`float`, optional
            Sampling frequency in Samples/s. If provided, it will set the instance's `fs` attribute.
        wavelength : :obj:`float`, optional
            Wavelength in meters. Default is 1550e-9.
        N : :obj:`int`, optional
            Number of samples. If provided, it will set the instance's `N` attribute and calculate `t`, `dw`, and `w`.
        **kargs : :obj:`dict`
            Additional attributes to set on the instance.

        Returns
        -------
        self
            The instance itself.

        Notes
        -----
        If `sps` is provided and either `R` or `fs` is provided, it will calculate the missing one.
        If `R` is provided and `fs` is provided, it will calculate `sps`.
        If only `fs` is provided, it will calculate `sps` using the instance's `R` attribute.
        If none of `sps`, `R`, or `fs` is provided, it will use the instance's default values.
        """
        if sps:
            self.sps = int(np.round(sps))
            if R:
                self.R = R
                self.fs = R*self.sps
            elif fs:
                self.fs = fs
                self.R = fs/self.sps
            else:
                msg = f'`R` will be set to default value ({self.R:.2e} Hz)'
                warnings.warn(msg)
                self.fs = self.R*self.sps

        elif R: 
            self.R = R
            if fs:
                self.fs = fs
                self.sps = int(np.round(fs/R))
            else:
                msg = f'`sps` will be set to default value ({self.sps} samples per slot)'
                warnings.warn(msg)
                self.fs = R*self.sps

        elif fs:
            msg = f'`sps` will be set to default value ({self.sps} samples per slot)'
            warnings.warn(msg)
            self.fs = fs
            self.sps = int(np.round(fs/self.R))

        else:
            msg = f'`sps`, `R` and `fs` will be set to previous values ({self.sps} samples per slot, {self.R:.2e} Hz, {self.fs:.2e} Samples/s)'
            warnings.warn(msg)

        self.dt = 1/self.fs

        if N is not None:
            self.N = N
        if self.N is not None: # keep t, dw and w consistent with the sps/fs now in force, also when `N` is not passed again
            self.t = np.linspace(0, self.N*self.sps*self.dt, self.N*self.sps, endpoint=True)
            self.dw = 2*pi*self.fs/(self.N*self.sps)
            self.w = 2*pi*fftshift(fftfreq(self.N*self.sps))*self.fs
        
        self.wavelength = wavelength
        self.f0 = c/wavelength

        if kargs:
            for key, value in kargs.items():
                setattr(self, key, value)
        
        return self
        
    def __str__(self):
        """ Returns a formatted string with the global variables of the instance."""
        title = 3*'*' + '    Global Variables    ' + 3*'*'
        sub = len(title)*'-'

        names = list(gv.__dict__.keys())
        others = [name for name in names if name not in ['sps', 'R', 'fs', 'wavelength', 'f0', 'N', 'dt', 'dw', 't', 'w']]

        msg = f'\n{sub}\n{title}\n{sub}\n\t' + \
            f'sps :  {self.sps}\n\t' + \
            f'R   :  {self.R:.2e}\n\t' + \
            f'fs  :  {self.fs:.2e}\n\t' + \
            f'dt  :  {self.dt:.2e}\n\t' + \
            f'λ0  :  {self.wavelength:.2e}\n\t' + \
            f'f0  :  {self.f0:.2e}\n'
        
        if self.N is not None:
            msg += '\t' + \
                f'N   :  {self.N}\n\t' + \
                f'dt  :  {self.dt:.2e}\n\t' + \
                f'dw  :  {self.dw:.2e}\n\t' + \
                f't   :  {self.t}\n\t' + \
                f'w   :  {self.w}\n'
            
        if others:
            msg += '  Custom\n  ------\n\t' + '\n\t'.join([f'{name} : {getattr(self, name)}' for name in others]) + '\n'

        return msg
    
    def print(self):
        """ Prints the global variables of the instance in a formatted manner.

        Prints the global variables including `sps`, `R`, `fs`, `wavelength`, `f0`, `N`, `dt`, `dw`, `t`, and `w`.
        If there are other attributes defined, they will be printed under the "Custom" section.

        Notes
        -----
        The variables are printed with a precision of 2 in scientific notation, except for `sps` and `N` which are integers.
        """
        np.set_printoptions(precision=0, threshold=10)
        print(self)
    
    def clean(self):
        """ Return all attributes to default values.
        
        """
        self.sps = 16
        self.R = 1e9
        self.fs = self.R*self.sps
        self.dt = 1/self.fs
        self.wavelength = 1550e-9
        self.f0 = c/self.wavelength
        self.N = None
        self.t = None
        self.dw = None
        self.w = None

        attrs = [attr for attr in vars(self) if not (attr in ['sps', 'R', 'fs', 'dt', 'wavelength', 'f0', 'N', 't', 'w', 'dw'])] # every custom attribute, whatever it holds (functions, classes and signal objects are callable)
        
        for attr in attrs:
            delattr(self, attr)


gv = global_variables()


class binary_sequence():
    r"""**Binary Sequence**

    This class provides methods and attributes to work with binary sequences. 
    The binary sequence can be provided as a string, list, tuple, or numpy array.

    .. rubric:: Attributes
    .. autosummary::

        ~binary_sequence.data
        ~binary_sequence.execution_time

    .. rubric:: Methods
    .. autosummary::

        __init__
        __str__
        __repr__
        print
        __len__
        __getitem__
        __eq__
        __add__
        __radd__
        __invert__
        len
        ones
        zeros
        type
        sizeof
    """

    __array_ufunc__ = None # numpy arrays defer to the reflected operators: ``ndarray + binary_sequence`` concatenates

    def __init__(self, data: str | Iterable): 
        """ Initialize the binary sequence object.

        Parameters
        ----------
        data : :obj:`str`, 1D array_like or scalar
            The binary sequence data.
        """
        if isinstance(data, str):
            data = str2array(data)
        else:
            data = np.array(data)

        if not np.all((data == 0) | (data == 1)): 
            raise ValueError("The array must contain only 0's and 1's!")
        if data.ndim > 1:
            raise ValueError(f"Binary sequence must be 1D array, invalid shape {data.shape}")
        if data.ndim == 0 and data.size == 1:
            data = data[np.newaxis]
        
        self.data = data.astype(np.uint8)
        """The binary sequence data, a 1D numpy array of boolean values."""
        self.execution_time = 0
        """The execution time of the last operation performed on the binary sequence."""

    def __str__(self, title: str=None): 
        """Return a formatted string with the binary sequence data, length, size in bytes and time if available."""
        if title is None:
            title = self.__class__.__name__
        
        title = 3*'*' + f'    {title}    ' + 3*'*'
        sub = len(title)*'-'

        np.set_printoptions(precision=0, threshold=100)
        data = str(self.data)

        msg = f'\n{sub}\n{title}\n{sub}\n\t' + \
            f'data  :  {data}\n\t' + \
            f'len   :  {self.len()}\n\t' + \
            f'size  :  {self.sizeof()} bytes\n'
        
        if self.execution_time is not None:
            msg += '\t' +\
                f'time  :  {si(self.execution_time, "s", 1)}\n'
        return msg
    
    def __repr__(self):
        np.set_printoptions(threshold=100)
        return f'binary_sequence({str(self.data)})'
    
    def print(self, msg: str=None): 
        """Print object parameters.

        Parameters
        ----------
        msg : str, opcional
            top message to show

        Returns
        -------
        :obj:`binary_sequence`
            The same object.
        """
        print(self.__str__(msg))
        return self
    
    def __len__(self):
        """Get number of slots of the binary sequence. ``len(self)``"""
        return self.len()

    def __getitem__(self, slice: int | slice):
        """Get a slice of the binary sequence (``self[slice]``). 
        
        Parameters
        ----------
        slice : :obj:`int` or :obj:`slice`
            The slice to get. 

        Returns
        -------
        :obj:`int` or :obj:`binary_sequence`
            The value of the slot if `slice` is an integer, or a new binary sequence object with the result of the slice.
        """ 
        return binary_sequence(self.data[slice])
    
    def __eq__(self, other):
        """Compare two binary sequences using ``==`` operator.

        Parameters
        ----------
        other : :obj:`str` or :obj:`binary_sequence` or :obj:`Array_Like`
            The binary sequence to compare.
            
        Returns
        -------
        :obj:`np.ndarray` of :obj:`bool`
            A boolean array with the result of the comparison. ``True`` if the elements are equal, ``False`` otherwise.
        """
        if isinstance(other, binary_sequence):
            other = other.data
        elif isinstance(other, str):
            other = str2array(other, bool)  
        else:
            other = np.array(other, dtype=bool)
            if other.ndim == 0:
                other = other[np.newaxis]

        if other.size != self.data.size and other.size != 1:
            raise ValueError(f"Can't compare binary sequences with shapes {self.data.shape} and {other.shape}")
        
        return np.array_equal(self.data, other)

    def __add__(self, other): 
        """ Concatenate two binary sequences, adding to the end (``+``).

        Parameters
        ----------
        other : :obj:`str` or :obj:`binary_sequence` or Array_Like
            The binary sequence to concatenate.

        Returns
        -------
        binary_sequence
            A new binary sequence object with the result of the concatenation.

        Raises
        ------
        ValueError
            If the sequence to concatenate it's not in an apropiate format.
        TypeError
            If the binary sequence to concatenate is not of type :obj:`str`, :obj:`binary_sequence` or :obj:`Array_Like`.
        
        See Also
        --------
        __radd__ : Concatenates two binary sequence, adding at the beginning (``+``).
        """
        if isinstance(other, binary_sequence):
            other = other.data
        elif isinstance(other, str):
            other = str2array(other)
        elif isinstance(other, Array_Like):
            other = np.array(other)
        else:
            raise TypeError("Can't concatenate binary_sequence with type {}".format(type(other)))
        
        if not np.all((other == 0) | (other == 1)): 
            raise ValueError("Sequence to concatenate must contain only 0's and 1's!")
        if other.ndim != 1:
            raise ValueError(f"Binary sequence must be 1D array, invalid shape {other.shape}")
        
        out = np.concatenate((self.data, other))
        return binary_sequence(out)
    
    def __radd__(self, other): 
        """ Concatenate two binary sequences, adding to the beginning (``+``).

        Parameters
        ----------
        other : :obj:`str` or :obj:`binary_sequence` or Array_Like
            The binary sequence to concatenate.

        Returns
        -------
        binary_sequence
            A new binary sequence object with the result of the concatenation.

        Raises
        ------
        ValueError
            If the sequence to concatenate it's not in an apropiate format.
        TypeError
            If the binary sequence to concatenate is not of type :obj:`str`, :obj:`binary_sequence` or :obj:`Array_Like`.
        
        See Also
        --------
        __add__ : Concatenates two binary sequence, adding at the end.
        """
        if isinstance(other, binary_sequence):
            other = other.data
        elif isinstance(other, str):
            other = str2array(other)
        elif isinstance(other, Array_Like):
            other = np.array(other)
        else:
            raise TypeError("Can't concatenate binary_sequence with type {}".format(type(other)))
        
        if not np.all((other == 0) | (other == 1)): 
            raise ValueError("Sequence to concatenate must contain only 0's and 1's!")
        if other.ndim != 1:
            raise ValueError(f"Binary sequence must be 1D array, invalid shape {other.shape}")

        out = np.concatenate((other, self.data))
        return binary_sequence(out)

    def __invert__(self):
        """Invert the binary sequence using the ``~`` operator. 
        
        Implement a bitwise not ``~`` operation on the binary sequence. Example: ``~binary_sequence([1,0,1,0])`` returns ``binary_sequence([0,1,0,1])``.

        Returns
        -------
        binary_sequence
            A new binary sequence object with the result of the inversion.
        """
        return binary_sequence(~self.data.astype(bool))

    def len(self): 
        """Get number of slots of the binary sequence.
        
        Returns
        -------
        :obj:`int`
            The number of slots of the binary sequence.
        """
        return self.data.size
    
    def ones(self):
        """Return the number of ones in the binary sequence.
        
        Returns
        -------
        :obj:`int`
            The number of ones in the binary sequence.
        """
        return np.sum(self.data)
    
    def zeros(self):
        """Return the number of zeros in the binary sequence.
        
        Returns
        -------
        :obj:`int`
            The number of zeros in the binary sequence.
        """
        return self.len() - self.ones()
    
    def type(self): 
        """Return de object type.
        
        Returns
        -------
        :obj:`type`
            The object type :obj:`binary_sequence`.
        """
        return type(self)
    
    def sizeof(self):
        """Get memory size of object in bytes."""
        return sizeof(self)


class electrical_signal():
    """**Electrical Signal**

    This class provides methods and attributes to work with electrical signals. 
    It has overloaded operators necessary to properly interpret 
    the ``+``, ``-``, ``*`` and ``/``` operations as any numpy array.

    .. rubric:: Attributes
    .. autosummary::

        ~electrical_signal.signal
        ~electrical_signal.noise
        ~electrical_signal.execution_time

    .. rubric:: Methods
    .. autosummary::

        __init__
        __call__
        print
        len
        type
        sizeof
        fs
        sps
        dt
        t
        w
        abs
        power
        phase
        apply
        copy
        plot
        psd
        grid
        legend
        show
    """

    def __init__(self, signal: str | Iterable, noise: str | Iterable = None, dtype: np.dtype=None) -> None:
        """ Initialize the electrical signal object.

        Parameters
        ----------
        signal : :obj:`str` or 1D array_like or scalar
            The signal values.
        noise : :obj:`str` or 1D array_like or scalar, optional
            The noise values. Defaults to `None`.

        Notes
        -----
        The signal and noise can be provided as a string, in which case it will be converted to a 
        ``numpy.array`` using the :func:`str2array` function. For example:
        
        .. code-block:: python

            >>> electrical_signal('1 2 3,4,5')  # separate values by space or comma indistinctly
            electrical_signal(signal=[1.+0.j 2.+0.j 3.+0.j 4.+0.j 5.+0.j],
                              noise=[0.+0.j 0.+0.j 0.+0.j 0.+0.j 0.+0.j])
            >>> electrical_signal('1+2j, 3+4j, 5+6j') # complex values
        """    
        if isinstance(signal, str):
            signal = str2array(signal)
        else: 
            signal = np.array(signal, dtype=dtype)
        if signal.dtype == bool and dtype is None:
            signal = signal.astype(int) # 0/1 text and booleans are the numbers 0 and 1 (numpy's bool arithmetic is logical)
        
        if noise is not None:
            if isinstance(noise, str):
                noise = str2array(noise)
            else: 
                noise = np.array(noise, dtype=dtype)
            if noise.dtype == bool and dtype is None:
                noise = noise.astype(int)
            
            if dtype is None:
                arrays_type = np.result_type(signal, noise) # obtain the most comprehensive type
            else:
                arrays_type = dtype

            signal = signal.astype(arrays_type)
            noise = noise.astype(arrays_type) 

            if signal.shape != noise.shape:
                raise ValueError(f"`signal` and `noise` must have the same shape, missmatch shapes {signal.shape} and {noise.shape}!")
        
        if noise is None and dtype is not None:
            signal = signal.astype(dtype)
            
        if self.__class__ == electrical_signal:
            if signal.ndim > 1 or signal.size < 1:
                raise ValueError(f"Signal must be scalar or 1D array for electrical_signal, invalid shape {signal.shape}")
            
            if signal.ndim == 0:
                signal = signal[np.newaxis]
                if noise is not None:
                    noise = noise[np.newaxis]
        
        self.signal = signal
        """The signal values, a 1D numpy array of complex values."""
        self.noise = noise
        """The noise values, a 1D numpy array of complex values."""
        self.execution_time = 0
        """The execution time of the last operation performed on the electrical signal."""

    def __str__(self, title: str=None): 
        """Return a formatted string with the electrical_signal data, length, size in bytes and time if available."""
        if title is None:
            title = self.__class__.__name__
        
        title = 3*'*' + f'    {title}    ' + 3*'*'
        sub = len(title)*'-'
        tab = 3*' '

        np.set_printoptions(precision=1, threshold=10)

        if self.signal.ndim == 1:
            signal = str(self.signal)
            noise = str(self.noise)
        else:
            signal = str(self.signal).replace('\n', '\n'+tab + 11*' ')
            noise = str(self.noise).replace('\n', '\n'+tab + 11*' ')
        
        msg = f'\n{sub}\n{title}\n{sub}\n'+ tab + \
            f'signal:    {signal}\n'+ tab + \
            f'noise:     {noise}\n'+ tab + \
            f'len:       {self.len()}\n' + tab + \
            f'elem_type: {self.signal.dtype}\n' + tab + \
            f'mem_size:  {self.sizeof()} bytes\n'
        
        if self.execution_time is not None:
            msg += tab + \
                f'time:      {si(self.execution_time, "s", 1)}\n'
        return msg
    
    def __repr__(self):
        np.set_printoptions(precision=1, threshold=20)
        
        if self.noise is not None:
            return f'electrical_signal({str(self.signal)})'
        return f'electrical_signal(signal={str(self.signal)},\n\t\t   noise={str(self.noise)})'

    def print(self, msg: str=None): 
        """Prints object parameters.
        
        Parameters
        ----------
        msg : :obj:`str`, opcional
            top message to show

        Returns
        -------
        self : electrical_signal
            The same object.
        """
        print(self.__str__(msg))
        return self

    def __len__(self): 
        return self.len()
    
    def __add__(self, other):
        """ Add two electrical signals (``+`` operator). Same that ``__radd__``.
        
        Parameters
        ----------
        other : :obj:`electrical_signal` or :obj:`Array_Like` or :obj:`Number`
            The signal to add.
        
        Returns
        -------
        :obj:`electrical_signal`
            A new electrical signal object with the result of the addition.
        """
        if not isinstance(other, self.type()):
            other = self.__class__(other) # only signal is considered
        
        if self.len() != other.len() and other.len() != 1:
            raise ValueError(f"Can't add {self.__class__.__name__}'s with shapes {self.signal.shape} and {other.signal.shape}")
        
        dtype = np.result_type(self.signal, other.signal)

        if self.noise is None and other.noise is None:
            return self.__class__(self.signal + other.signal, dtype=dtype)
        elif self.noise is None:
            return self.__class__(self.signal + other.signal, np.broadcast_to(other.noise, np.broadcast_shapes(self.signal.shape, other.noise.shape)), dtype=dtype) # a length-1 operand may carry the noise
        elif other.noise is None:
            return self.__class__(self.signal + other.signal, self.noise, dtype=dtype)
        return self.__class__(self.signal + other.signal, self.noise + other.noise, dtype=dtype)
        
    def __radd__(self, other):
        return self.__add__(other)
    
    def __sub__(self, other):
        """ Substract two electrical signals (``-`` operator).

        Parameters
        ----------
        other : :obj:`electrical_signal` or :obj:`Array_Like` or :obj:`Number`
            The signal to substract.

        Returns
        -------
        :obj:`electrical_signal`
            A new electrical signal object with the result of the substraction.        
        """
        if not isinstance(other, self.__class__):
            other = self.__class__(other) # only signal is considered
        
        if self.len() != other.len() and other.len() != 1:
            raise ValueError(f"Can't substract {self.__class__.__name__}'s with shapes {self.signal.shape} and {other.signal.shape}")
        
        dtype = np.result_type(self.signal, other.signal)

        if self.noise is None and other.noise is None:
            return self.__class__(self.signal - other.signal, dtype=dtype)
        elif self.noise is None:
            return self.__class__(self.signal - other.signal, np.broadcast_to(-other.noise, np.broadcast_shapes(self.signal.shape, other.noise.shape)), dtype=dtype) # a length-1 operand may carry the noise
        elif other.noise is None:
            return self.__class__(self.signal - other.signal, self.noise, dtype=dtype)
        return self.__class__(self.signal - other.signal, self.noise - other.noise, dtype=dtype)
        
    def __rsub__(self, other):
        if not isinstance(other, self.__class__):
            other = self.__class__(other) # only signal is considered
        
        if self.len() != other.len() and other.len() != 1:
            raise ValueError(f"Can't substract {self.__class__.__name__}'s with shapes {self.signal.shape} and {other.signal.shape}")
        
        dtype = np.result_type(self.signal, other.signal)

        if self.noise is None and other.noise is None:
            return self.__class__(-self.signal + other.signal, dtype=dtype)
        elif self.noise is None:
            return self.__class__(-self.signal + other.signal, np.broadcast_to(other.noise, np.broadcast_shapes(self.signal.shape, other.noise.shape)), dtype=dtype) # a length-1 operand may carry the noise
        elif other.noise is None:
            return self.__class__(-self.signal + other.signal, -self.noise, dtype=dtype)
        return self.__class__(-self.signal + other.signal, -self.noise + other.noise, dtype=dtype)
        
    def __mul__(self, other):
        """ Multiply two electrical signals (``*`` operator). Same that ``__rmul__``.
        
        Parameters
        ----------
        other : :obj:`electrical_signal` or :obj:`Array_Like` or :obj:`Number`
            The signal to multiply.

        Returns
        -------
        :obj:`electrical_signal`
            A new electrical signal object with the result of the multiplication.
        """
        if not isinstance(other, self.__class__):
            other = self.__class__(other) # only signal is considered
        
        if self.len() != other.len() and other.len() != 1:
            raise ValueError(f"Can't add {self.__class__.__name__}'s with shapes {self.signal.shape} and {other.signal.shape}")
        
        dtype = np.result_type(self.signal, other.signal)

        if self.noise is None and other.noise is None:
            return self.__class__(self.signal * other.signal, dtype=dtype)
        elif self.noise is None:
            return self.__class__(self.signal * other.signal, np.broadcast_to(other.noise, np.broadcast_shapes(self.signal.shape, other.noise.shape)), dtype=dtype) # a length-1 operand may carry the noise
        elif other.noise is None:
            return self.__class__(self.signal * other.signal, self.noise, dtype=dtype)
        return self.__class__(self.signal * other.signal, self.noise * other.noise, dtype=dtype)
        
    def __rmul__(self, other):
        return self.__mul__(other)
        
    def __getitem__(self, slice: int | slice):
        """Slice the signal.

        Parameters
        ----------
        slice : :obj:`int` or :obj:`slice`
            Index or slice to get.

        Returns
        -------
        out : :obj:`optical_signal`
            A new object with the result of the slicing.
        """
        if self.noise is None:
            return electrical_signal( self.signal[slice] ) 
        return electrical_signal( self.signal[slice], self.noise[slice] )

    def __call__(self, domain: Literal['t','w', 'f'], shift: bool=False):
        """ Return a new object with Fast Fourier Transform (FFT) of signal and noise of input object.

        Parameters
        ----------
        domain : {'t', 'w', 'f'}
            Domain to transform. 't' for time domain (ifft is applied), 'w' and 'f' for frequency domain (fft is applied).
        shift : :obj:`bool`, optional
            If True, apply the ``np.fft.fftshift()`` or ``np.fft.ifftshift`` functions as appropriate.

        Returns
        -------
        new_obj : :obj:`electrical_signal` or :obj:`optical_signal`
            A new electrical signal object with the result of the transformation.

        Raises
        ------
        TypeError
            If ``domain`` is not one of the following values ('t', 'w', 'f').
        """
        if domain == 'w' or domain == 'f':
            signal = fft(self.signal, axis=-1)
            if self.noise is not None:
                noise = fft(self.noise, axis=-1)
              
        elif domain == 't':
            signal = ifft(self.signal, axis=-1)
            if self.noise is not None:
                noise = ifft(self.noise, axis=-1)
        
        else:
            raise ValueError("`domain` must be one of the following values ('t', 'w', 'f')")
        
        if shift:
            if domain == 'w' or domain == 'f':
                signal = fftshift(signal, axes=-1)
                if self.noise is not None:
                    noise = fftshift(noise, axes=-1)
            else: 
                signal = ifftshift(signal, axes=-1)
                if self.noise is not None:
                    noise = ifftshift(noise, axes=-1)

        if self.noise is None:
            return self.__class__(signal)
        return self.__class__(signal, noise)
    
    def __gt__(self, other): 
        """ Compare the signal+noise with a threshold (``>`` operator).

        Parameters
        ----------
        other : array_like or :obj:`float`    
            The threshold to compare with. If other is an array, the comparison is element-wise.
        
        Returns
        -------
        out: binary_sequence
            A new binary sequence object with the result of the comparison.

        Raises
        ------
        ValueError
            If the arrays must have the same length.
        TypeError
            If `other` is not of type :obj:`electrical_signal`, :obj:`list`, :obj:`tuple`, :obj:`numpy.array`, :obj:`int` or :obj:`float`.
        """
        if not isinstance(other, electrical_signal):
            other = electrical_signal(other) # only signal is considered
        
        if self.len() != other.len() and other.len() != 1:
            raise ValueError(f"Can't compare electrical_signals with shapes {self.signal.shape} and {other.signal.shape}")

        return binary_sequence(self.abs() > other.abs())
        

    def __lt__(self, other):
        """ Compare the signal+noise with a threshold (``<`` operator).

        Parameters
        ----------
        other : array_like or :obj:`float`    
            The threshold to compare with. If other is an array, the comparison is element-wise.
        
        Returns
        -------
        out: binary_sequence
            A new binary sequence object with the result of the comparison.

        Raises
        ------
        ValueError
            If the arrays must have the same length.
        TypeError
            If `other` is not of type :obj:`electrical_signal`, :obj:`list`, :obj:`tuple`, :obj:`numpy.array`, :obj:`int` or :obj:`float`.
        """
        if not isinstance(other, electrical_signal):
            other = electrical_signal(other) # only signal is considered
        
        if self.len() != other.len() and other.len() != 1:
            raise ValueError(f"Can't compare electrical_signals with shapes {self.signal.shape} and {other.signal.shape}")

        return binary_sequence(self.abs() < other.abs())
             
    def len(self): 
        """Get number of samples of the electrical signal.
        
        Returns
        -------
        :obj:`int`
            The number of samples of the electrical signal.
        """
        if self.signal.ndim > 1:
            return self.signal.shape[1]
        return self.signal.size

    def type(self): 
        """Return de object type (``electrical_signal``).
        
        Returns
        -------
        :obj:`type`
            The object type (``electrical_signal``).
        """
        return type(self)

    def sizeof(self):
        """Get memory size of object in bytes.
        
        Returns
        -------
        :obj:`int`
            The memory size of the object in bytes.
        """
        return sizeof(self)

    def fs(self): 
        """Get sampling frequency of the electrical signal.
        
        Returns
        -------
        :obj:`float`
            The sampling frequency of the electrical signal (``gv.fs``).
        """
        return gv.fs
    
    def sps(self):
        """Get samples per slot of the electrical signal.
        
        Returns
        -------
        :obj:`int`
            The samples per slot of the electrical signal (``gv.sps``).
        """
        return gv.sps
    
    def dt(self): 
        """Get time step of the electrical signal.
        
        Returns
        -------
        :obj:`float`
            The time step of the electrical signal (``gv.dt``).
        """
        return gv.dt
    
    def t(self): 
        """Get time array for the electrical signal.
        
        Returns
        -------
        :obj:`np.ndarray`
            The time array for the electrical signal.
        """
        return np.linspace(0, self.len()*gv.dt, self.len(), endpoint=True)
    
    def w(self, shift: bool=False): 
        """Return angular frequency for spectrum representation.
        
        Parameters
        ----------
        shift : :obj:`bool`, optional
            If True, apply fftshift().

        Returns
        -------
        :obj:`np.ndarray`
            The angular frequency array for signals simulation.
        """
        w = 2*pi*fftfreq(self.len())*self.fs()
        if shift:
            return fftshift(w)
        return w
    
    def power(self, by: Literal['signal','noise','all']='all'): 
        """Get power of the electrical signal.
        
        Parameters
        ----------
        by : :obj:`str`, optional
            Defines from which attribute to obtain the power. If 'all', power of signal+noise is determined.
        
        Returns
        -------
        :obj:`float`
            The power of the electrical signal.
        """
        if by.lower() not in ['signal', 'noise', 'all']:
            raise ValueError('`by` must be one of the following values ("signal", "noise", "all")')
        return np.mean(self.abs(by)**2, axis=-1)
    
    def phase(self):
        """Get phase of the ``signal`` + `noise`.
        
        Returns
        -------
        :obj:`np.ndarray`
            The phase of the electrical signal.
        """
        if self.noise is None:
            return np.unwrap(np.angle(self.signal))
        return np.unwrap(np.angle(self.signal + self.noise))
    
    def apply(self, function, *args, **kargs):
        r"""Apply a function to signal and noise.
        
        Parameters
        ----------
        function : :obj:`callable`
            The function to apply.
        \*args : :obj:`iterable`
            Variable length argument list to pass to the function.
        \*\*kargs : :obj:`dict`
            Arbitrary keyword arguments to pass to the function.

        Returns
        -------
        out : :obj:`electrical_signal`
            A new electrical signal object with the result of the function applied to the signal and noise.
        """
        output = self.copy()
        output.signal = function(self.signal, *args, **kargs)
        if self.noise is not None:
            output.noise = function(self.noise, *args, **kargs)
        output.execution_time = self.execution_time
        return output

    def copy(self, n: int=None):
        """Return a copy of the object.
        
        Parameters
        ----------
        n : :obj:`int`, optional
            Index to truncate original object. If None, the whole object is copied.

        Returns
        -------
        cp : :obj:`electrical_signal`
            A copy of the object.
        """
        if n is None: 
            n = self.len()
        return self[:n]

    def abs(self, by: Literal['signal','noise','all']='all'):
        """Get absolute value of ``signal``, ``noise`` or ``signal+noise``.

        Parameters
        ----------
        by : :obj:`str`, optional
            Defines from which attribute to obtain the absolute value. If 'all', absolute value of ``signal+noise`` is determined.
        
        Returns
        -------
        out : :obj:`np.ndarray`, (1D or 2D, float)
            The absolute value of the object.
        """
        if not isinstance(by, str):
            raise TypeError('`by` must be a string.')
        by = by.lower()
        
        if by == 'signal':
            return np.abs(self.signal)
        elif by == 'noise':
            return np.abs(self.noise) if self.noise is not None else np.zeros(self.signal.shape, dtype=self.signal.dtype)
        elif by == 'all':
            return np.abs(self.signal + self.noise) if self.noise is not None else np.abs(self.signal)
        else:
            raise ValueError('`by` must be one of the following values ("signal", "noise", "all")')
    

    def plot(self, 
             fmt: str='-', 
             n: int=None, 
             xlabel: str=None, 
             ylabel: str=None, 
             style: Literal['dark', 'light'] = 'dark',
             grid: bool=False,
             hold: bool=True,
             **kwargs: dict): 
        r"""Plot real part of electrical signal.

        Parameters
        ----------
        fmt : :obj:`str`
            Format style of line. Example 'b-.', Defaults to '-'.
        n : :obj:`int`, optional
            Number of samples to plot. Defaults to the length of the signal.
        xlabel : :obj:`str`, optional
            X-axis label. Defaults to 'Time [ns]'.
        ylabel : :obj:`str`, optional
            Y-axis label. Defaults to 'Amplitude [V]'.
        style : :obj:`str`, optional
            Style of plot. Defaults to 'dark'.
        grid : :obj:`bool`, optional
            If show grid. Defaults to False.
        hold : :obj:`bool`, optional
            If hold the current plot. Defaults to True.
        \*\*kwargs : :obj:`dict`
            Aditional keyword arguments compatible with matplotlib.pyplot.plot().

        Returns
        -------
        self : :obj:`electrical_signal`
            The same object.
        """
        n = self.len() if not n else n
        t = self.t()[:n]*1e9

        if style == 'dark':
            plt.style.use('dark_background')
            c = 'white'
        elif style == 'light':
            plt.style.use('default')
            c = 'black'
        else:
            raise ValueError('`style` must be "dark" or "light".')
        
        if not hold:
            plt.figure()

        if self.noise is None:
            y = self[:n].signal.real
        else:
            y = (self[:n].signal + self[:n].noise).real
        
        plt.plot(t, y, fmt, **kwargs)
        plt.xlabel(xlabel if xlabel else 'Time [ns]')
        plt.ylabel(ylabel if ylabel else 'Amplitude [V]')

        if grid:
            for i in t[:n*gv.sps][::gv.sps]:
                plt.axvline(i, color=c, ls='--', alpha=0.3, lw=1)
            plt.axvline(t[-1] + gv.dt*1e9, color=c, ls='--', alpha=0.3, lw=1)
            plt.grid(alpha=0.3, axis='y')
        
        if 'label' in kwargs.keys():
            plt.legend()

        plt.style.use('default')
        return self
    

    def psd(self, 
            fmt: str='-', 
            n: int=None, 
            xlabel: str=None,
            ylabel: str=None,
            yscale: Literal['linear','dbm']='dbm', 
            style: Literal['dark', 'light'] = 'dark',
            grid: bool=True,
            hold: bool=True,
            **kwargs: dict):
        """Plot Power Spectral Density (PSD) of the electrical signal.

        Parameters
        ----------
        fmt : :obj:`str`
            Format style of line. Example 'b-.'. Defaults to '-'.
        n : :obj:`int`, optional
            Number of samples to plot. Defaults to the length of the signal.
        xlabel : :obj:`str`, optional
            X-axis label. Defaults to 'Frequency [GHz]'.
        ylabel : :obj:`str`, optional
            Y-axis label. Defaults to 'Power [dBm]' if ``yscale='dbm'`` or 'Power [W]' if ``yscale='linear'``.
        yscale : :obj:`str`, {'linear', 'dbm'}, optional
            Kind of Y-axis plot. Defaults to 'dbm'.
        style : :obj:`str`, {'dark', 'light'}, optional
            Style of plot. Defaults to 'dark'.
        grid : :obj:`bool`, optional
            If show grid. Defaults to True.
        hold : :obj:`bool`, optional
            If hold the current plot. Defaults to True.
        **kwargs : :obj:`dict`
            Aditional matplotlib arguments.

        Returns
        -------
        self : :obj:`electrical_signal`
            The same object.
        """
        n = self.len() if not n else n
        f = self[:n].w(shift=True)/2/pi * 1e-9

        psd = fftshift(self[:n]('w').abs('all')**2/n**2)

        if style == 'dark':
            plt.style.use('dark_background')
            c = 'white'
        elif style == 'light':
            plt.style.use('default')
            c = 'black'
        else:
            raise ValueError('`style` must be "dark" or "light".')
        
        if yscale == 'linear':
            args = (f, psd*1e3, fmt)
            ylabel = ylabel if ylabel else 'Power [mW]'
            ylim = (-0.1,)
        elif yscale == 'dbm':
            args = (f, dbm(psd), fmt)
            ylabel = ylabel if ylabel else 'Power [dBm]'
            ylim = (-100,)
        else:
            raise TypeError('`yscale` must be one of the following values ("linear", "dbm")')
        
        if not hold:
            plt.figure()

        plt.plot( *args, **kwargs )
        plt.ylabel( ylabel )
        plt.xlabel( xlabel if xlabel else 'Frequency [GHz]')
        plt.xlim(-3.5*gv.R*1e-9, 3.5*gv.R*1e-9)
        plt.ylim( *ylim )
        if grid: plt.grid(alpha=0.3, color=c)

        if 'label' in kwargs.keys():
            plt.legend()

        plt.style.use('default')
        return self
    
    def grid(self, **kwargs):
        r"""Add grid to the plot.

        Parameters
        ----------
        \*\*kwargs : :obj:`dict`
            Arbitrary keyword arguments to pass to the function.

        Returns
        -------
        self : :obj:`electrical_signal`
            The same object.
        """
        kwargs['alpha'] = kwargs.get('alpha', 0.3)
        plt.grid(**kwargs)
        return self
    
    def legend(self, *args, **kwargs):
        r"""Add a legend to the plot.

        Parameters
        ----------
        \*args : :obj:`iterable`
            Variable length argument list to pass to the function.
        \*\*kwargs : :obj:`dict`
            Arbitrary keyword arguments to pass to the function.

        Returns
        -------
        self : :obj:`electrical_signal`
            The same object.
        """
        plt.legend(*args, **kwargs)
        return self
    
    def show(self):
        """Show plots.
        
        Returns
        -------
        self : :obj:`electrical_signal`
            The same object.
        """
        plt.show()
        return self


class optical_signal(electrical_signal):
    """**Optical Signal**
    
    Bases: :obj:`electrical_signal`

    This class provides methods and attributes to work with optical signals.

    .. rubric:: Attributes
    .. autosummary::

        ~optical_signal.signal
        ~optical_signal.noise
        ~optical_signal.execution_time

    .. rubric:: Methods
    .. autosummary::

        __init__
        __call__
        print
        len
        type
        sizeof
        fs
        sps
        dt
        t
        w
        power
        phase
        apply
        copy
        abs
        plot
        psd
        grid
        legend
        show
    """

    def __init__(self, 
                 signal: str | Iterable, 
                 noise: str | Iterable = None, 
                 n_pol: Literal[1, 2] = None,
                 dtype: np.dtype=None):
        """ Initialize the optical signal object.

        Parameters
        ----------
        signal : :obj:`str` or array_like (1D, 2D) or scalar
            The signal values.
        noise : :obj:`str` or array_like (1D, 2D) or scalar, optional
            The noise values, default is `None`.
        n_pol : :obj:`int`, optional
            Number of polarizations. Defaults to 1.
        """
        if isinstance(signal, str):
            signal = str2array(signal)
        else:
            signal = np.array(signal, dtype=dtype)
        if signal.dtype == bool and dtype is None:
            signal = signal.astype(int) # 0/1 text and booleans are the numbers 0 and 1 (numpy's bool arithmetic is logical)

        if noise is not None:
            if isinstance(noise, str):
                noise = str2array(noise)
            else:
                noise = np.array(noise, dtype=dtype)
            if noise.dtype == bool and dtype is None:
                noise = noise.astype(int)

            if dtype is None:
                arrays_type = np.result_type(signal, noise) # obtain the most comprehensive type
            else:
                arrays_type = dtype
            
            signal = signal.astype(arrays_type)
            noise = noise.astype(arrays_type) 

            if signal.shape != noise.shape:
                raise ValueError(f"`signal` and `noise` must have the same shape, missmatch shapes {signal.shape} and {noise.shape}!")
            
        if noise is None and dtype is not None:
            signal = signal.astype(dtype)

        if self.__class__ == optical_signal:
            if signal.ndim>2 or (signal.ndim>1 and signal.shape[0]>2) or signal.size<1:
                raise ValueError(f"Signal must be a scalar, 1D or 2D array for optical_signal, invalid shape {signal.shape}")
            
            if signal.ndim == 0:
                if n_pol is None:
                    n_pol = 1
                
                if n_pol == 1:
                    signal = signal[np.newaxis]
                    if noise is not None:
                        noise = noise[np.newaxis]
                else:
                    signal = np.array([[signal], [signal]])
                    if noise is not None:
                        noise = np.array([[noise], [noise]])
            
            elif signal.ndim == 1:
                if n_pol is None:
                    n_pol = 1
                
                if n_pol == 2:
                    signal = np.array([signal, signal])
                    if noise is not None:
                        noise = np.array([noise, noise])
            
            elif signal.ndim == 2 and signal.shape[0] == 1:
                if n_pol is None:
                    n_pol = 2
                
                if n_pol == 1:
                    signal = signal[0]
                    if noise is not None:
                        noise = noise[0]
                else:
                    signal = np.array([signal[0], signal[0]])
                    if noise is not None:
                        noise = np.array([noise[0], noise[0]])
            
            elif signal.ndim == 2 and signal.shape[0] == 2:
                if n_pol is None:
                    n_pol = 2
                
                if n_pol == 1:
                    signal = signal[0]
                    if noise is not None:
                        noise = noise[0]
        
        self.n_pol = n_pol
        super().__init__( signal, noise, dtype=dtype)  
    
    def __repr__(self):
        np.set_printoptions(precision=1, threshold=20)

        if self.noise is not None:
            signal = str(self.signal).replace('\n', '\n' + 15*' ')
            return f'optical_signal({signal})'
        
        signal = str(self.signal).replace('\n', '\n' + 22*' ')
        noise = str(self.noise).replace('\n', '\n' + 22*' ')
        return f'optical_signal(signal={signal}\n' + 16*' '+ f'noise={noise})'

    
    def __getitem__(self, slice: int | slice): 
        """Slice the optical signal.

        Parameters
        ----------
        slice : :obj:`int` or :obj:`slice`
            Index or slice to get the new optical signal.

        Returns
        -------
        out : :obj:`optical_signal`
            A new optical signal object with the result of the slicing.
        """
        if self.n_pol == 1:
            if self.noise is None:
                return optical_signal( self.signal[slice] )
            return optical_signal( self.signal[slice], self.noise[slice] )
        
        elif isinstance(slice, (int, np.integer)):
            if self.noise is None:
                return optical_signal( self.signal[:,slice,np.newaxis] )
            return optical_signal( self.signal[:,slice,np.newaxis], self.noise[:,slice,np.newaxis] )
        
        if self.noise is None:
            return optical_signal( self.signal[:,slice] )
        return optical_signal( self.signal[:,slice], self.noise[:,slice] )
    
    def __gt__(self, other): 
        raise NotImplementedError('The > operator is not implemented for optical_signal objects.')
    
    def __lt__(self, other):
        raise NotImplementedError('The < operator is not implemented for optical_signal objects.')

    def plot(self, 
             fmt: str | list='-', 
             mode: Literal['x','y','both','abs']='abs', 
             n=None, 
             xlabel: str=None,
             ylabel: str=None,
             style: Literal['dark', 'light'] = 'dark',
             grid: bool=False,
             hold: bool=True,
             **kwargs): 
        r"""
        Plot intensity of optical signal for selected polarization mode.

        Parameters
        ----------
        fmt : :obj:`str`, optional
            Format style of line. Example 'b-.'. Default is '-'.
        mode : :obj:`str`
            Polarization mode to show. Default is 'abs'.

            - ``'x'`` plot polarization x.
            - ``'y'`` plot polarization y.
            - ``'both'`` plot both polarizations x and y in the same figure
            - ``'abs'`` plot intensity sum of both polarizations I(x) + I(y).

        n : :obj:`int`, optional
            Number of samples to plot. Default is the length of the signal.  
        xlabel : :obj:`str`, optional
            X-axis label. Default is 'Time [ns]'.
        ylabel : :obj:`str`, optional
            Y-axis label. Default is 'Power [mW]'.
        style : :obj:`str`, optional
            Style of plot. Default is 'dark'.

            - ``'dark'`` use dark background.
            - ``'light'`` use light background.
        
        grid : :obj:`bool`, optional
            If show grid. Default is ``False``.
        hold : :obj:`bool`, optional
            If hold the current figure. Default is ``True``.
        \*\*kwargs: :obj:`dict`
            Aditional matplotlib arguments.

        Returns
        -------
        self : :obj:`optical_signal`
            The same object.
        """
        n = self.len() if not n else n
        t = self.t()[:n]*1e9

        if style == 'dark':
            plt.style.use('dark_background')
            c = 'white'
        elif style == 'light':
            plt.style.use('default')
            c = 'black'
        else:
            raise ValueError('`style` must be "dark" or "light".')
        
        I = self[:n].abs('all')**2 *1e3

        if self.n_pol == 1:
            if not isinstance(fmt, str):
                warnings.warn('`fmt` must be a string for single polarization signals, using default value.')
                fmt = '-'
            args = (t, I, fmt)
        else: 
            if mode == 'x':
                if not isinstance(fmt, str):
                    warnings.warn('`fmt` must be a string for single polarization signals, using default value.')
                    fmt = '-'
                args = (t, I[0], fmt)
            elif mode == 'y':
                if not isinstance(fmt, str):
                    warnings.warn('`fmt` must be a string for single polarization signals, using default value.')
                    fmt = '-'
                args = (t, I[1], fmt)
            elif mode == 'both':
                if isinstance(fmt, (list, tuple)):
                    args = (t, I[0], fmt[0], t, I[1], fmt[1])
                elif isinstance(fmt, str):
                    args = (t, I[0], fmt, t, I[1], fmt)
                else:
                    warnings.warn('`fmt` must be a string or a list of strings for both polarizations signals, using default value.')
                    args = (t, I[0], '-', t, I[1], '-')
                    
            elif mode == 'abs':
                if not isinstance(fmt, str):
                    warnings.warn('`fmt` must be a string for single polarization signals, using default value.')
                    fmt = '-'
                args = (t, I[0] + I[1], fmt)
            else:
                raise TypeError('argument `mode` must to be one of the following values ("x","y","both","abs").')
        
        label = kwargs.pop('label', None) if mode == 'both' else None

        if not hold:
            plt.figure()

        ls = plt.plot( *args, **kwargs)
        plt.xlabel(xlabel if xlabel else 'Time [ns]')
        plt.ylabel(ylabel if ylabel else 'Power [mW]')
        
        if grid:
            for i in t[:n*gv.sps][::gv.sps]:
                plt.axvline(i, color=c, ls='--', alpha=0.3, lw=1)
            plt.axvline(t[-1] + gv.dt*1e9, color=c, ls='--', alpha=0.3, lw=1)
            plt.grid(alpha=0.3, axis='y')

        if label is not None:
            if isinstance(label, str):
                ls[0].set_label(label)
                ls[1].set_label(label)
            elif isinstance(label, (list, tuple)):
                ls[0].set_label(label[0])
                ls[1].set_label(label[1])
            else:
                raise ValueError('`label` must be a string or a list of strings.')
            plt.legend()
        if 'label' in kwargs.keys():
            plt.legend()

        plt.style.use('default')
        return self
    

    def psd(self, 
            fmt: str | list='-', 
            mode: Literal['x','y','both']='x', 
            n: int=None,
            xlabel: str=None,
            ylabel: str=None, 
            yscale: Literal['linear', 'dbm']='dbm', 
            style: Literal['dark', 'light'] = 'dark',
            grid: bool=True,
            hold: bool=True,
            **kwargs: dict):
        r"""Plot Power Spectral Density (PSD) of the electrical signal.

        Parameters
        ----------
        fmt : :obj:`str`
            Format style of line. Example 'b-.'. Default is '-'.
        mode : :obj:`str`
            Polarization mode to show. Default is 'x'.

            - ``'x'`` plot polarization x.
            - ``'y'`` plot polarization y.
            - ``'both'`` plot both polarizations x and y in the same figure.

        n : int, optional
            Number of samples to plot. Default is the length of the signal.
        xlabel : :obj:`str`, optional
            X-axis label. Default is 'Frequency [GHz]'.
        ylabel : :obj:`str`, optional
            Y-axis label.
        yscale : :obj:`str`, optional
            Kind of Y-axis plot. Default is 'dbm'.

            - ``'linear'`` plot linear scale.
            - ``'dbm'`` plot dBm scale.

        style : :obj:`str`, optional
            Style of plot. Default is 'dark'.

            - ``'dark'`` use dark background.
            - ``'light'`` use light background.

        grid : bool, optional
            If show grid. Default is ``True``.
        hold : bool, optional
            If hold the current figure. Default is ``True``.
        \*\*kwargs : :obj:`dict`
            Aditional matplotlib arguments.

        Returns
        -------
        self : :obj:`optical_signal`
            The same object.
        """
        n = self.len() if not n else n
        f = self[:n].w(shift=True)/2/pi * 1e-9

        psd = fftshift(self[:n]('w').abs('all')**2/n**2, axes=-1)

        if style == 'dark':
            plt.style.use('dark_background')
            c = 'white'
        elif style == 'light':
            plt.style.use('default')
            c = 'black'
        else:
            raise ValueError('`style` should be ("dark" or "light")')
        
        if yscale == 'linear':
            psd = psd*1e3
            ylabel = ylabel if ylabel else 'Power [mW]'
            ylim = (-0.1,)
        elif yscale == 'dbm':
            psd = dbm(psd)
            ylabel = ylabel if ylabel else 'Power [dBm]'
            ylim = (-100,)
        else:
            raise TypeError('argument `yscale` should be ("linear" or "log")')

        if self.n_pol == 1:
            if not isinstance(fmt, str):
                warnings.warn('`fmt` must be a string for single polarization signals, using default value.')
                fmt = '-'
            args = (f, psd, fmt)
        else:
            if mode == 'x':
                if not isinstance(fmt, str):
                    warnings.warn('`fmt` must be a string for single polarization signals, using default value.')
                    fmt = '-'
                args = (f, psd[0], fmt)
            elif mode == 'y':
                if not isinstance(fmt, str):
                    warnings.warn('`fmt` must be a string for single polarization signals, using default value.')
                    fmt = '-'
                args = (f, psd[1], fmt)
            elif mode == 'both':
                if isinstance(fmt, (list, tuple)):
                    args = (f, psd[0], fmt[0], f, psd[1], fmt[1])
                elif isinstance(fmt, str):
                    args = (f, psd[0], fmt, f, psd[1], fmt)
                else:
                    warnings.warn('`fmt` must be a string or a list of strings for both polarizations signals, using default value.')
                    args = (f, psd[0], '-', f, psd[1], '-')
            else:
                raise TypeError('argument `mode` should be ("x", "y" or "both")')    
        
        label = kwargs.pop('label', None) if mode == 'both' else None

        if not hold:
            plt.figure()

        ls = plt.plot( *args, **kwargs)
        plt.ylabel(ylabel)
        plt.xlabel(xlabel if xlabel else 'Frequency [GHz]')
        plt.xlim( -3.5*gv.R*1e-9, 3.5*gv.R*1e-9 )
        plt.ylim( *ylim )
        if grid: plt.grid(alpha=0.3, color=c)
        
        if label is not None:
            if isinstance(label, str):
                ls[0].set_label(label)
                ls[1].set_label(label)
            elif isinstance(label, (list, tuple)):
                ls[0].set_label(label[0])
                ls[1].set_label(label[1])
            else:
                raise ValueError('`label` must be a string or a list of strings.')
            plt.legend()
        if 'label' in kwargs.keys():
            plt.legend()

        plt.style.use('default')
        return self
    
class EyeShowOptions():
    def __init__(self, 
            averages : bool = None, 
            threshold : bool = None, 
            cross_points : bool = None, 
            legends : bool = None, 
            t_opt : bool = None
        ):
        self.averages = averages if averages is not None else True
        self.threshold = threshold if threshold is not None else True
        self.cross_points = cross_points if cross_points is not None else True
        self.legends = legends if legends is not None else True
        self.t_opt = t_opt if t_opt is not None else True

class eye():
    """**Eye Diagram Parameters**.

    This object contains the parameters of an eye diagram and methods to plot it.

    .. rubric:: Methods
    .. autosummary::

        __init__
        __str__
        print
        plot
        show

    Attributes
    ----------
    t : :obj:`np.ndarray`
        The time values resampled. Shape (Nx1).
    y : :obj:`np.ndarray`
        The signal values resampled. Shape (Nx1).
    dt : :obj:`float`
        Time between samples.
    sps : :obj:`int`
        Samples per slot.
    t_left : :obj:`float`
        Cross time of left edge.
    t_right : :obj:`float`
        Cross time of right edge.
    t_opt : :obj:`float`
        Optimal time decision.
    t_dist : :obj:`float`
        Time between slots.
    t_span0 : :obj:`float`
        t_opt - t_dist*5%.
    t_span1 : :obj:`float`
        t_opt + t_dist*5%.
    y_top : :obj:`np.ndarray`
        Samples of signal above threshold and within t_span0 and t_apan1.
    y_bot : :obj:`np.ndarray`
        Samples of signal below threshold and within t_span0 and t_apan1.
    mu0 : :obj:`float`
        Mean of y_bot.
    mu1 : :obj:`float`
        Mean of y_top.
    s0 : :obj:`float`
        Standard deviation of y_bot.
    s1 : :obj:`float`
        Standard deviation of y_top.
    er : :obj:`float`
        Extinction ratio.
    eye_h : :obj:`float`
        Eye height.
    """

    def __init__(self, **kwargs: dict):
        r""" Initialize the eye diagram object.

        Parameters
        ----------
        \*\*kwargs : :obj:`dict`, optional
            Dictionary with the eye diagram parameters.
        """

        if kwargs:
            for key, value in kwargs.items():
                setattr(self, key, value)
            self.empty = False
        else:
            self.empty = True
        
    def __str__(self, title: str=None): 
        """Return a formatted string with the eye diagram data."""
        if self.empty:
            raise ValueError('Empty eye diagram object.')

        if title is None:
            title = self.__class__.__name__
        
        title = 3*'*' + f'    {title}    ' + 3*'*'
        sub = len(title)*'-'

        np.set_printoptions(precision=1, threshold=10)

        msg = f'\n{sub}\n{title}\n{sub}\n ' + '\n '.join([f'{key} : {value}' for key, value in self.__dict__.items() if key != 'execution_time'])
        
        if self.execution_time is not None:
            msg += f'\n time  :  {si(self.execution_time, "s", 1)}\n'
        return msg
    
    def print(self, msg: str=None): 
        """Print object parameters.

        Parameters
        ----------
        msg : :obj:`str`, optional
            Top message to show.

        Returns
        -------
        self: :obj:`eye`
            Same object
        """
        print(self.__str__(msg))
        return self
    
    def plot(self, 
             show_options: EyeShowOptions=EyeShowOptions(),
             hlines: list=[],
             vlines: list=[], 
             style: Literal['dark', 'light']='dark', 
             cmap: Literal['viridis', 'plasma', 'inferno', 'cividis', 'magma', 'winter']='winter',
             title: str = '',
             savefig: str=None
        ):
        """ Plot eye diagram.

        Parameters
        ----------
        show_options : :obj:`typing.EyeShowOptions`, optional
            Options to show in the plot. Default show all.
        hlines : :obj:`list`, optional
            A list of time values in which hlines will be set.
        vlines : :obj:`list`, optional
            A list of voltage values in which vlines will be set.
        style : :obj:`str`, optional
            Plot style. 'dark' or 'light'.
        cmap : :obj:`str`, optional
            Colormap to plot.
        title : :obj:`str`, optional
            Title of plot.
        savefig : :obj:`str`, optional
            Name of the file to save the plot. If None, the plot is not saved.
            Input just the name of the file without extension (extension is .png by default).

        Returns
        -------
        self: :obj:`eye`
            Same object
        """
        if self.empty:
            raise ValueError('Empty eye diagram object.')

        ## SETTINGS

        if style == 'dark':
            plt.style.use('dark_background')
            t_opt_color = '#60FF86'
            means_color = 'white'
            bgcolor='black'
        elif style == 'light':
            plt.style.use('default')
            t_opt_color = 'green'#'#229954'
            means_color = '#5A5A5A'
            bgcolor='white'
        else:
            raise TypeError("The `style` argument must be one of the following values ('dark', 'light')")
        
        dt = self.dt

        fig, ax = plt.subplots(1,2, gridspec_kw={'width_ratios': [4,1],  
                                                'wspace': 0.03},
                                                figsize=(8,5))
        if title:
            plt.suptitle(f'Eye diagram {title}')
        
        ax[0].set_xlim(-1-dt,1)
        ax[0].set_ylim(self.mu0-4*self.s0, self.mu1+4*self.s1)
        ax[0].set_ylabel(r'Amplitude [V]', fontsize=12)
        ax[0].grid(color='grey', ls='--', lw=0.5, alpha=0.5)
        ax[0].set_xticks([-1,-0.5,0,0.5,1])
        ax[0].set_xlabel(r'Time [$t/T_{slot}$]', fontsize=12)
        
        if show_options.t_opt:
            ax[0].axvline(self.t_opt, color = t_opt_color, ls = '--', alpha = 0.7)
            ax[0].axvline(self.t_span0, color = t_opt_color, ls = '-', alpha = 0.4)
            ax[0].axvline(self.t_span1, color = t_opt_color, ls = '-', alpha = 0.4)

        # crossing points
        if show_options.cross_points:
            if self.y_right and self.y_left:
                ax[0].plot([self.t_left, self.t_right], [self.y_left, self.y_right], 'xr')

        # threshold
        if show_options.threshold:
            ax[0].axhline(self.threshold, c='r', ls='--')
            ax[1].axhline(self.threshold, c='r', ls='--', label='th')
            if show_options.legends:
                ax[1].legend()
        
        # horizontal lines
        for hl in hlines:
            ax[0].axhline(hl, c='y')
            ax[1].axhline(hl, c='y')
        
        # vertical lines
        for vl in vlines:
            ax[0].axvline(vl, c='y')
            ax[1].axvline (vl, c='y')
        
        # legend
        if show_options.legends: 
            ax[0].legend([r'$t_{opt}$'], fontsize=12, loc='upper right')
        
        # means
        if show_options.averages:
            ax[0].axhline(self.mu1, color = means_color, ls = ':', alpha = 0.7)
            ax[0].axhline(self.mu0, color = means_color, ls = '-.', alpha = 0.7)

            ax[1].axhline(self.mu1, color = means_color, ls = ':', alpha = 0.7, label=r'$\mu_1$')
            ax[1].axhline(self.mu0, color = means_color, ls = '-.', alpha = 0.7, label=r'$\mu_0$')
            if show_options.legends:
                ax[1].legend()

        ax[1].sharey(ax[0])
        ax[1].tick_params(axis='x', which='both', length=0, labelbottom=False)
        ax[1].tick_params(axis='y', which='both', length=0, labelleft=False)
        ax[1].grid(color='grey', ls='--', lw=0.5, alpha=0.5)


        ## ADD PLOTS
        y_ = self.y
        t_ = self.t

        ax[0].hexbin( # plot eye
            x = t_, 
            y = y_, 
            gridsize=500, 
            bins='log',
            alpha=0.7, 
            cmap=cmap 
        )
        
        ax[1].hist(  # plot vertical histogram 
            y_[(t_>self.t_opt-0.05*self.t_dist) & (t_<self.t_opt+0.05*self.t_dist)], 
            bins=200, 
            density=True, 
            orientation = 'horizontal', 
            color = t_opt_color, 
            alpha = 0.9,
            histtype='step',
        )

        if savefig: 
            if savefig.endswith('.png'):
                plt.savefig(savefig, dpi=300)
            else:
                plt.savefig(savefig)
        
        plt.style.use('default')
        return self

    def show(self):
        """Show plot
        
        Returns
        -------
        self : :obj:`eye`
            The same object.
        """
        plt.show()
        return self

