"""
.. rubric:: Functions
.. autosummary::
     
    dec2bin                
    str2array              
    get_time              
    tic                    
    toc                    
    db                     
    dbm                    
    idb                    
    idbm                   
    gaus                   
    Q                      
    phase                  
    tau_g                  
    dispersion             
    bode                   
    rcos                   
    si                     
    norm                   
    nearest  
    theory_BER
    p_ase
    average_voltages
    noise_variances
    optimum_threshold
    shortest_int              
"""

import re
import numpy as np
import timeit, time as tm
import scipy.special as sp # type: ignore
import scipy.signal as sg # type: ignore

from typing import Literal, Union

from scipy.constants import pi, c, h, e, k as kB # type: ignore

import matplotlib.pyplot as plt
from numpy.fft import fft, ifft, fftfreq, fftshift

import warnings

Array_Like = (list, tuple, np.ndarray)
Number = (int, float)



def dec2bin(num: int, digits: int=8):
    r"""
    Converts an integer to its binary representation.

    Parameters
    ----------
    num : int
        Integer to convert.
    digits : int, default: 8
        Number of bits of the binary representation.

    Returns
    -------
    binary_sequence
        Binary representation of ``num`` of length ``digits``.

    Raises
    ------
    ValueError
        If ``num`` is too large to be represented with ``digits`` bits.

    Example
    -------
    .. code-block:: python

        >>> dec2bin(5, 4)
        array([0, 1, 0, 1], dtype=uint8)
    """

    binary = np.zeros(digits, np.uint8)
    if num > 2**digits-1: raise ValueError(f'The number is too large to be represented with {digits} bits.')
    i = digits - 1
    while num > 0 and i >= 0:
        binary[i] = num % 2
        num //= 2
        i -= 1
    return binary

def _get_type_array_from_str(string):
    # just 0 and 1 without +/- --> bool
    if re.match(r'^[0-1,;\s]+$', string):
        return bool
    # just numbers with +/- and without dots --> int
    if re.match(r'^[0-9,;\-\+\s]+$', string):
        return int
    # just numbers with +/- and dots --> float
    if re.match(r'^[0-9,;.\+\-\s]+$', string): 
        return float
     # just numbers with +/-, dots and j --> complex
    if re.match(r'^[0-9,;.\+\-\sji]+$', string):
        return complex
    return None

def str2array(string: str, dtype: bool | int | float | complex | None = None): 
    r"""
    Converts a string to array of numbers. Use comma (``,``) or whitespace (`` ``) as element separators and semicolon (``;``) as row separator.
    Also, ``i`` or ``j`` can be used to represent the imaginary unit.

    Parameters
    ----------
    string : :obj:`str`
        String to convert.
    dtype : :obj:`type`, optional
        Data type of the output array. 
        If ``dtype`` is not given, the data type is determined from the input string.
        If ``dtype`` is given, the data output is cast to the given type.
        Allowed values are ``bool``, ``int``, ``float`` and ``complex``.

    Returns
    -------
    arr : :obj:`np.ndarray`
        Numeric array.

    Raises
    ------
    ValueError
        If the string contains invalid characters.

    Example
    -------
    For binary numbers, string must contain only 0 and 1. 
    Only in this case, sequence don't need to be separated by commas or spaces although it is allowed.

    >>> str2array('101')
    array([ True, False, True])
    >>> str2array('1 0 1; 0 1 0')
    array([[ True, False,  True],
           [False,  True, False]])

    Special case 
    >>> str2array('1 0 1 10')
    array([True, False, True, True, False])
    >>> str2array('1 0 1 10', dtype=int)
    array([ 1,  0,  1, 10])
    >>> str2array('1 0 1 10', dtype=float)
    array([ 1.,  0.,  1., 10.])
    >>> str2array('1 0 1 10', dtype=complex)
    array([ 1.+0.j,  0.+0.j,  1.+0.j, 10.+0.j])

    For integer and float numbers
    >>> str2array('1 2 3 4')
    array([1, 2, 3, 4])
    >>> str2array('1.1 2.2 3.3 4.4')
    array([1.1, 2.2, 3.3, 4.4])
    
    For complex numbers
    >>> str2array('1+2j 3-4i')
    array([1.+2.j, 3.-4.j])
    """
    _dtype = _get_type_array_from_str(string)
    
    if _dtype == bool:
        # for special cases when string = '10 100 1000' and dtype = int | float | complex 
        if dtype is not None and np.issubdtype(dtype, np.number): # any numeric dtype (int, np.int64, float, ...)
            strings = string.split(';')
            if len(strings) == 1:
                arr = np.array(re.split(r'[,\s]+', strings[0].strip()), dtype=dtype)
            else:
                arr = np.array([re.split(r'[,\s]+', item.strip()) for item in strings], dtype=dtype)
        else:
            strings = string.replace(' ', '').replace(',', '').split(';')
            if len(strings) == 1:
                arr = np.array(list(strings[0])).astype(_dtype)
            else:
                arr = np.array([list(item) for item in strings]).astype(_dtype)

    elif _dtype == int or _dtype==float:
        strings = string.split(';')
        if len(strings) == 1:
            arr = np.array(re.split(r'[,\s]+', strings[0].strip()), dtype=_dtype)
        else:
            arr = np.array([re.split(r'[,\s]+', item.strip()) for item in strings], dtype=_dtype)

    elif _dtype == complex:
        strings = string.replace('i','j').split(';')
        if len(strings) == 1:
            arr = np.array(re.split(r'[,\s]+', strings[0].strip()), dtype=_dtype)
        else:
            arr = np.array([re.split(r'[,\s]+', item.strip()) for item in strings], dtype=_dtype)

    else:
        raise ValueError('The string contains invalid characters and can\'t be converted to an array.')
    
    return arr.astype(dtype) if dtype else arr



def get_time(line_of_code: str, n:int): 
    r"""
    Get the average time of execution of a line of code.

    Parameters
    ----------
    line_of_code : str
        Line of code to execute.
    n : int
        Number of iterations.

    Returns
    -------
    time : :obj:`float`
        Average time of execution, in seconds.

    Example
    -------
    .. code-block:: python

        >>> get_time('for i in range(1000): pass', 1000)
        1.1955300000010993e-05
    """
    return timeit.timeit(line_of_code, number=n)/n

class _Timer:
    def __init__(self):
        self.tic_stack = []

    def tic(self):
        self.tic_stack.append(tm.time())

    def toc(self):
        if not self.tic_stack:
            raise Exception("toc() called without a matching tic()")
        start_time = self.tic_stack.pop()
        return tm.time() - start_time

# Crear una instancia singleton de Timer
_timer_instance = _Timer()

def tic(): 
    r"""
    Start a timer. Create a global variable with the current time.
    Then you can use toc() to get the elapsed time.

    Example
    -------
    .. code-block:: python

        >>> tic() # wait some time
        >>> toc()
        2.687533378601074
    """
    _timer_instance.tic()

def toc():
    r"""Stop a timer. Get the elapsed time since the last call to tic().

    Returns
    -------
    time : :obj:`float`
        Elapsed time, in seconds.

    Example
    -------
    .. code-block:: python

        >>> tic() # wait some time
        >>> toc()
        2.687533378601074
    """
    return _timer_instance.toc()


def db(x):
    r"""Calculates the logarithm in base 10 of the input x and multiplies it by 10.

    .. math:: \text{db} = 10\log_{10}{x}

    Parameters
    ----------
    x : Number or Array_Like
        Input value (``x>=0``).

    Returns
    -------
    out : :obj:`float` or :obj:`np.ndarray`
        dB value.

    Raises
    ------
    TypeError
        If ``x`` is not a `number`, `list`, `tuple` or `ndarray`.
    ValueError
        If ``x`` or ``any(x) < 0``.

    Example
    -------
    .. code-block:: python

        >>> db(1)
        0.0
        >>> db([1,2,3,4])
        array([0.        , 3.01029996, 4.77121255, 6.02059991])
    """
    if not isinstance(x, (Number + Array_Like)):
        raise TypeError('The input value must be a number, list, tuple or ndarray.')
    
    x = np.array(x)
    if x.dtype.kind in 'biu': # integer samples: numpy takes the logarithm of an 8/16-bit integer array in half/single precision
        x = x.astype(float)
    
    if (x<0).any():
        raise ValueError('Some values of input array are negative.')

    warnings.filterwarnings("ignore", category=RuntimeWarning) # to avoid warning when x=0
    return 10*np.log10(x) 


def dbm(x):
    r"""Calculates dBm from Watts.

    .. math:: \text{dbm} = 10\log_{10}{x}+30

    Parameters
    ----------
    x : Number or Array_Like
        Input value (``x>=0``).

    Returns
    -------
    out : :obj:`float` or :obj:`np.ndarray`
        dBm value. If ``x`` is a number, then the output is a :obj:`float`. If ``x`` is an array_like, then the output is an :obj:`np.ndarray`.

    Raises
    ------
    TypeError
        If ``x`` is not a `number`, `list`, `tuple` or `ndarray`.
    ValueError
        If ``x`` or ``any(x) < 0``.

    Example
    -------
    .. code-block:: python

        >>> dbm(1)
        30.0
        >>> dbm([1,2,3,4])
        array([30.        , 33.01029996, 34.77121255, 36.02059991])
    """
    if not isinstance(x, (Number + Array_Like)):
        raise TypeError('The input value must be a number, list, tuple or ndarray.')
    
    x = np.array(x)

    if (x<0).any():
        raise ValueError('Some values of input array are negative.')
    
    return 10*np.log10(x*1e3)


def idb(x):
    r"""Calculates the number value from a dB value.

    .. math:: y = 10^{\frac{x}{10}}

    Parameters
    ----------
    x : Number or Array_Like
        Input value.

    Returns
    -------
    out : :obj:`float` or :obj:`np.ndarray`
        Number value. If ``x`` is a number, then the output is a :obj:`float`. If ``x`` is an array_like, then the output is an :obj:`np.ndarray`.

    Example
    -------
    .. code-block:: python

        >>> idb(3)
        1.9952623149688795
        >>> idb([0,3,6,9])
        array([1.        , 1.99526231, 3.98107171, 7.94328235])
    """
    x = np.array(x)
    return 10**(x/10)


def idbm(x):
    r"""Calculates the power value in Watts from a dBm value.

    .. math:: y = 10^{(\frac{x}{10}-3)}

    Parameters
    ----------
    x : Number or Array_Like
        Input value.

    Returns
    -------
    out : :obj:`float` or :obj:`np.ndarray`
        Power value in Watts. If ``x`` is a number, then the output is a :obj:`float`. If ``x`` is an array_like, then the output is an :obj:`np.ndarray`.

    Example
    -------
    .. code-block:: python

        >>> idbm(0)
        0.001
        >>> idbm([0,3,6,9])
        array([0.001     , 0.00199526, 0.00398107, 0.00794328])
    """
    x = np.array(x)
    return 10**(x/10-3)


def gaus(x, mu: float=None, std: float=None):
    r"""Gaussian function.

    .. math:: \text{gaus}(x) = \frac{1}{\sigma\sqrt{2\pi}}e^{-\frac{(x-\mu)^2}{2\sigma^2}}

    Parameters
    ----------
    x : Number or Array_Like
        Input value.
    mu : :obj:`float`, default: 0
        Mean.
    std : :obj:`float`, default: 1
        Standard deviation.

    Returns
    -------
    out : :obj:`float` or :obj:`np.ndarray`
        Gaussian function value. If ``x`` is a number, then the output is a :obj:`float`. If ``x`` is an array_like, then the output is an :obj:`np.ndarray`.

    Examples
    --------
    .. code-block:: python

        >>> gaus(0, 0, 1)
        0.3989422804014327
        >>> gaus([0,1,2,3], 0, 1)
        array([0.39894228, 0.24197072, 0.05399097, 0.00443185])
    
    .. plot:: 
        :include-source:
        :alt: Gaussian function
        :align: center

        from opticomlib import gaus
        import matplotlib.pyplot as plt
        import numpy as np

        x = np.linspace(-5, 5, 1000)
        y = gaus(x, 0, 1)

        plt.figure(figsize=(8, 5))
        plt.plot(x, y, 'r', lw=2)
        plt.ylabel('y')
        plt.xlabel('x')
        plt.grid(alpha=0.3)
        plt.show()
    """
    x = np.array(x)

    if mu is None: mu = 0
    if std is None: std = 1

    return 1/std/(2*pi)**0.5*np.exp(-0.5*(x-mu)**2/std**2)

def Q(x):
    r"""
    Q-function.

    .. math:: Q(x) = \frac{1}{2}\text{erfc}\left( \frac{x}{\sqrt{2}} \right)

    Parameters
    ----------
    x : Numper or Array_Like
        Input value.

    Returns
    -------
    out : :obj:`float` or :obj:`np.ndarray`
        Q(x) values. If ``x`` is a number, then the output is a :obj:`float`. If ``x`` is an array_like, then the output is an :obj:`np.ndarray`.

    Examples
    --------
    .. code-block:: python

        >>> Q(0)
        0.5
        >>> Q([0,1,2,3])
        array([0.5       , 0.15865525, 0.02275013, 0.0013499 ])
    
    .. plot:: 
        :include-source:
        :alt: Gaussian function
        :align: center

        from opticomlib import Q
        import matplotlib.pyplot as plt
        import numpy as np

        x = np.linspace(-5, 5, 1000)

        plt.figure(figsize=(8, 5))
        plt.plot(x, Q(x), 'r', lw=3, label='Q(x)')
        plt.plot(x, Q(-x), 'b', lw=3, label='Q(-x)')
        plt.ylabel('y')
        plt.xlabel('x')
        plt.legend()
        plt.grid()
        plt.show()
    """
    x = np.array(x)
    return 0.5*sp.erfc(x/2**0.5) 


def _soft_ser(d, s0, s1, M):
    r"""Symbol error probability of soft-decision ``M``-PPM: the probability that one of the ``M-1`` OFF slots exceeds the ON slot,
    for levels ``d`` apart and standard deviations ``s0`` (OFF) and ``s1`` (ON).

    The complement :math:`1-(1-Q)^{M-1}` is integrated directly (no subtraction from one), on a finite interval (the Gaussian weight
    is zero in double precision beyond :math:`|x|=39`) that is split at the knee :math:`x=-d/s_1` of the integrand, whose width
    :math:`s_0/s_1` the quadrature does not find by itself.
    """
    from scipy.integrate import quad
    knee = np.clip(-d/s1 + s0/s1*np.array([-10, -1, 0, 1, 10]), -40, 40)
    with np.errstate(divide='ignore', invalid='ignore'): # log1p(-1) = -inf where an OFF slot is certain to exceed the ON slot
        return quad(lambda x: -np.expm1((M-1)*np.log1p(-Q((d+s1*x)/s0)))*np.exp(-x**2/2), -40, 40, points=knee, epsabs=0)[0]/(2*pi)**0.5


def phase(H: np.ndarray):
    r"""
    Calculate the unwrapped phase of a frequency response.

    Parameters
    ----------
    H : :obj:`np.ndarray`
        Frequency response of a system.

    Returns
    -------
    phase : :obj:`np.ndarray`
        Unwrapped phase in radians.

    Examples
    --------
    .. plot:: 
        :include-source:
        :alt: Gaussian function
        :align: center

        from opticomlib import phase
        import matplotlib.pyplot as plt
        import numpy as np

        t = np.linspace(-5, 5, 1000)
        y = np.exp(1j*t**2) 
        phi = phase(y)

        plt.figure(figsize=(8, 5))
        plt.plot(t, phi, 'r', lw=2)
        plt.ylabel('phase [rad]')
        plt.xlabel('t')
        plt.grid(alpha=0.3)
        plt.show()
    """
    return np.unwrap(np.angle(H))

def tau_g(H: np.ndarray, fs: float):
    r"""
    Calculate the group delay of a frequency response.

    Parameters
    ----------
    H : :obj:`np.ndarray`
        Frequency response of a system.
    fs : :obj:`float`
        Sampling frequency of the system.

    Returns
    -------
    tau: :obj:`np.ndarray`
        Group delay of the system, in [ps].
    
    Examples
    --------
    .. plot:: 
        :include-source:
        :alt: Gaussian function
        :align: center

        from opticomlib import tau_g
        import matplotlib.pyplot as plt
        import numpy as np

        t = np.linspace(-5, 5, 1000)
        y = np.exp(1j*t**2) 
        phi = tau_g(y, 1e2)

        plt.figure(figsize=(8, 5))
        plt.plot(t[:-1], phi, 'r', lw=2)
        plt.ylabel(r'$\tau_g$ [ps]')
        plt.xlabel('t')
        plt.grid(alpha=0.3)
        plt.show()
    """
    dw = 2*pi*fs/H.size
    return np.diff(phase(H))/dw * 1e12

def dispersion(H: np.ndarray, fs: float, f0: float):
    """
    Calculate the dispersion of a frequency response.

    Parameters
    ----------
    H : :obj:`np.ndarray`
        Frequency response of a system.
    fs : :obj:`float`
        Sampling frequency of the system.
    f0 : :obj:`float`
        Center frequency of the system.

    Returns
    -------
    D : :obj:`np.ndarray`
        Cumulative dispersion of the system, in [ps/nm].
    """
    f = fftshift(fftfreq(H.size, d=1/fs))
    dλ = np.diff(c/(f+f0))[0]*1e9
    D = np.diff(tau_g(H, fs))/dλ
    return D



def bode(H: np.ndarray, 
         fs: float, 
         f0: float=None, 
         xaxis: Literal['f','w','lambda']='f', 
         disp: bool=False,
         yscale : Literal['linear', 'db']='linear',
         ret: bool=False, 
         retAxes: bool=False,
         show_: bool=True, 
         style: Literal['dark', 'light']='dark',
         xlim: tuple=None):
    r"""
    Plot the Bode plot of a given transfer function H (magnitude, phase and group delay).

    Parameters
    ----------
    H : :obj:`np.ndarray`
        The transfer function.
    fs : :obj:`float`
        The sampling frequency.
    f0 : :obj:`float`, default: None
        The center frequency. If not None, dispersion are also plotted.
    xaxis : :obj:`str`, default: 'f'
        The x-axis (frequency, angular velocity, wavelength).
    disp : :obj:`bool`, default: False
        Whether to plot the dispersion.
    ret : :obj:`bool`, default: False
        Whether to return the plotted data.
    show_ : :obj:`bool`, default: True
        Whether to display the plot.
    style : :obj:`str`, default: 'dark'
        The plot style.

    Returns
    -------
    (f, H, phase, tau_g) : :obj:`np.ndarray`
        A tuple containing the frequency, magnitude, phase, and group delay if ``ret=True``.

    Raises
    ------
    ValueError
        If style is not "dark" or "light".

    Example
    -------
    .. code-block:: python

        >>> from opticomlib import bode
        >>> H, phase, tau_g = bode(H, fs, ret=True, show_=False)
    """
    if not isinstance(H, np.ndarray):
        raise ValueError('`H` must be a numpy.ndarray.')
    
    f = fftshift(fftfreq(H.size, d=1/fs))
    w = 2*pi*f
    
    if xaxis == 'f':
        x = f*1e-9
        xlabel = 'Frequency [GHz]'
    elif xaxis == 'w':
        x = w*1e-9
        xlabel = r'$\omega$ [Grad/s]'
    elif xaxis == 'lambda':
        if not f0:
            raise ValueError('`f0` must be specify for determine lambda vector.')
        x = (c/(f+f0) - c/f0)*1e9
        xlabel = r'$\lambda$ [nm]'

    if style == 'dark':
        plt.style.use('dark_background')
    elif style == 'light':
        plt.style.use('default')
    else:
        raise ValueError('`style` must be "dark" or "light".')

    nplots = 4 if disp and f0 else 3

    if yscale=='db':
        y = db(np.abs(H)**2)
        ylabel = r'$|H(\omega)|^2$ [dB]'
        ylim = (-60, 1)
        pad = 32
    elif yscale=='linear':
        y = np.abs(H)**2
        ylabel = r'$|H(\omega)|^2$'
        ylim = (-0.1, 1.1)
        pad = 20
    else:
        raise ValueError('`yscale` must be "linear" or "db".')

    _, axs = plt.subplots(nplots, 1, figsize=(8, 6), sharex=True, gridspec_kw={'hspace': 0.02})
    plt.suptitle('Frequency Response')
    
    axs[0].plot(x, y, 'r', lw=2)
    axs[0].set_ylabel(ylabel, rotation=0, labelpad=pad)
    axs[0].grid(alpha=0.3)
    axs[0].yaxis.set_label_position("left")
    axs[0].yaxis.tick_right()
    axs[0].set_ylim(*ylim)
    
    axs[1].plot(x, phase(H), 'b', lw=2)
    axs[1].set_ylabel(r'$\phi$ [rad]', rotation=0, labelpad=pad)
    axs[1].grid(alpha=0.3)
    axs[1].yaxis.set_label_position("left")
    axs[1].yaxis.tick_right()

    axs[2].plot(x[1:], sg.medfilt(tau_g(H, fs), 7), 'g', lw=2)
    axs[2].set_ylabel(r'$\tau_g$ [ps]', rotation=0, labelpad=pad)
    axs[2].grid(alpha=0.3)
    axs[2].yaxis.set_label_position("left")
    axs[2].yaxis.tick_right()

    if disp: 
        if not f0:
            raise ValueError('`f0` must be specify to determine dispersion.')

        axs[3].plot(x[:-2], sg.medfilt(dispersion(H, fs, f0), 7), 'm', lw=2)
        axs[3].set_ylabel(r'D [ps/nm]', rotation=0, labelpad=28)
        axs[3].set_xlabel(xlabel)
        axs[3].grid(alpha=0.3)
        axs[3].yaxis.set_label_position("left")
        axs[3].yaxis.tick_right()
    else:
        axs[2].set_xlabel(xlabel)
    
    if xlim:
        plt.xlim(xlim)

    if retAxes:
        return axs
    
    if show_:
        plt.show()
    
    if ret:
        return f, H, phase, tau_g


def rcos(x, alpha, T):
    r"""
    Raised cosine spectrum function.

    Parameters
    ----------
    x : Number or Array_Like
        Input values.
    alpha : :obj:`float`
        Roll-off factor.
    T : :obj:`float`
        Symbol period.

    Returns
    -------
    :obj:`np.ndarray`
        Raised cosine function.

    Example
    -------
    https://en.wikipedia.org/wiki/Raised-cosine_filter

    .. plot::
        :include-source:
        :alt: Raised cosine function
        :align: center
        
        from opticomlib import rcos
        import matplotlib.pyplot as plt
        import numpy as np

        T = 1
        x = np.linspace(-1.5/T, 1.5/T, 1000)

        plt.figure(figsize=(8, 5))
        
        for alpha in [0, 0.25, 0.5, 1]:
            plt.plot(x, rcos(x, alpha, T), label=r'$\alpha$ = {}'.format(alpha))
        
        plt.ylabel('y')
        plt.xlabel('x')
        plt.legend()
        plt.grid(alpha=0.3)
        plt.show()
    """
    
    first_condition = np.abs(x) <= (1-alpha)/(2*T)
    second_condition = (np.abs(x)>(1-alpha)/(2*T)) & (np.abs(x)<=(1+alpha)/(2*T))
    third_condition = np.abs(x) > (1+alpha)/(2*T)

    if isinstance(x, Number):
        return 1 if first_condition else 0 if third_condition else 0.5*(1+np.cos(pi*T/alpha*(np.abs(x)-(1-alpha)/(2*T))))
    
    if not isinstance(x, Array_Like):
        raise ValueError('`x` must be a number or an array_like.')
    
    x = np.array(x)
    H = np.zeros_like(x, dtype=float) # an integer grid must not truncate the roll-off values

    H[ first_condition ] = 1
    if alpha != 0:
        H[ second_condition ] = 0.5*(1+np.cos(pi*T/alpha*(np.abs(x[second_condition])-(1-alpha)/(2*T))))
    return H


def si(x, unit: Literal['m','s']='s', k: int=1):
    r"""
    Unit of measure classifier.

    Parameters
    ----------
    x : int | float
        Number to classify.
    unit : str, default: 's'
        Unit of measure. Valid options are {'s', 'm', 'Hz', 'rad', 'bit', 'byte', 'W', 'V', 'A', 'F', 'H', 'Ohm'}.
    k : int, default: 1
        Precision of the output.

    Returns
    -------
    str
        String with number and unit.

    Example
    -------
    .. code-block:: python

        >>> si(0.002, 's')
        '2.0 ms'
        >>> si(1e9, 'Hz')
        '1.0 GHz'
    """
    if 1e12<= x:
        return f'{x*1e-12:.{k}f} T{unit}' 
    if 1e9<= x <1e12:
        return f'{x*1e-9:.{k}f} G{unit}' 
    if 1e6<= x <1e9:
        return f'{x*1e-6:.{k}f} M{unit}' 
    if 1e3<= x <1e6:
        return f'{x*1e-3:.{k}f} k{unit}' 
    if 1<= x <1e3:
        return f'{x:.{k}f} {unit}' 
    if 1e-3<= x <1:
        return f'{x*1e3:.{k}f} m{unit}' 
    if 1e-6<= x <1e-3:
        return f'{x*1e6:.{k}f} μ{unit}'
    if 1e-9<= x <1e-6:
        return f'{x*1e9:.{k}f} n{unit}'
    if 1e-12<= x <1e-9:
        return f'{x*1e12:.{k}f} p{unit}'
    if 1e-15<= x <1e-12:
        return f'{x*1e15:.{k}f} f{unit}'
    if x == 0:
        return f'0 {unit}'
    

def norm(x):
    """
    Normalize an array by dividing each element by the maximum value in the array.

    Parameters
    ----------
    x : Array_Like
        Input array to be normalized.

    Returns
    -------
    out : np.ndarray
        Normalized array.

    Raises
    ------
    ValueError
        If ``x`` is not an `array_like`.
    """
    if isinstance(x, Array_Like):
        x = np.array(x)
    else:
        raise ValueError('`x` must be an array_like.')
    
    return x/x.max()


def nearest(x, a):
    """
    Find the nearest value in an array.

    Parameters
    ----------
    x : Array_Like
        Input array.
    a : Number
        Value to find.

    Returns
    -------
    out : Number
        Nearest value in the array.

    Raises
    ------
    ValueError
        If ``x`` is not an `array_like`.
        If ``a`` is not a `number`.
    """
    if isinstance(x, Array_Like):
        x = np.array(x)
    else:
        raise ValueError('`x` must be an array_like.')

    if not isinstance(a, Number):
        raise ValueError('`a` must be a number.')
    
    return x[np.abs(x-a).argmin()]

def p_ase(
        amplify=True, 
        wavelength=1550e-9, 
        G=None, 
        NF=None, 
        BW_opt=None,
):
    """
    Calculate the ASE noise power [Watts].
    
    Parameters
    ----------
    amplify : bool, default: True
        If use an EDFA or not at the receiver (before PIN).
    wavelength : float, default: 1550e-9
        Wavelength of the signal.
    G : float
        Gain of EDFA, in [dB]. Only used if `amplify=True`. This parameter is mandatory.
    NF : float
        Noise Figure of EDFA, in [dB]. Only used if `amplify=True`. Mandatory.
    BW_opt : float
        Bandwidth of optical filter that is placed after the EDFA, in [Hz]. Only used if `amplify=True`. Mandatory.

    Returns
    -------
    p_ase : float
        ASE optical noise power, in [W].
    """
    if amplify:
        if not (G is not None and NF is not None and BW_opt is not None):
            raise ValueError('`G`, `NF` and `BW_opt` must be specify.')
        
        nf = idb(NF)
        g = idb(G)
        f0 = c/wavelength

        p_ase = nf * h * f0 * (g - 1) * BW_opt # ASE optical noise 
    else:
        p_ase = 0
    return p_ase
    
def average_voltages(
        P_avg, 
        modulation: Literal['ook', 'ppm'], 
        M=None, 
        ER=np.inf,
        amplify=True, 
        wavelength=1550e-9, 
        G=None, 
        NF=None, 
        BW_opt=None,
        r=1.0,
        R_L=50,
):
    """
    Calculate the average voltages of the ON and OFF slots [Voltages].

    Parameters
    ----------
    P_avg : float
        Average Received input optical Power (in [dBm]).
    modulation : Literal['ook', 'ppm']
        Kind of modulation format {'ook', 'ppm'}, more modulations in future...
    M : int
        Order of M-ary PPM (a power of 2). Only needed if `modulation='ppm'`.
    ER : float, default: np.inf
        Extinction Ratio of the input optical signal, in [dB].
    amplify : bool, default: True
        If use an EDFA or not at the receiver (before PIN).
    wavelength : float, default: 1550e-9
        Wavelength of the signal.
    G : float
        Gain of EDFA, in [dB]. Only used if `amplify=True`. This parameter is mandatory.
    NF : float
        Noise Figure of EDFA, in [dB]. Only used if `amplify=True`. Mandatory.
    BW_opt : float
        Bandwidth of optical filter that is placed after the EDFA, in [Hz]. Only used if `amplify=True`. Mandatory.
    r : float, default: 1.0
        Responsivity of photo-detector.
    R_L : float, default: 50
        Load resistance of photo-detector, in [Ω].

    Returns
    -------
    mu: np.ndarray
        Average voltage of ON and OFF slots. mu[0] is the OFF slot and mu[1] is the ON slot.
    mu_ASE: float
        ASE voltage offset.
    """ 
    M = 2 if modulation.lower() == 'ook' else M

    er = idb(ER)  # extinction ratio
    p_avg = idbm(P_avg)  # average input power, in [W]
    g = idb(G) if amplify else 1  # gain of EDFA (only used if amplify=True)

    p_ON = p_avg * M / (1 + (M-1)/er) # ON slot average optical power, without amplification
    p_OFF = p_ON/er   # OFF slot average optical power, without amplification

    mu_ASE = r * p_ase(amplify, wavelength, G, NF, BW_opt) * R_L  # ASE voltage offset
    
    mu = r * g * np.array([p_OFF, p_ON]) * R_L + mu_ASE  # average voltage of ON and OFF slots
    return mu, mu_ASE

def noise_variances(
        P_avg,
        modulation: Literal['ook', 'ppm'], 
        M=None,
        ER=np.inf,
        amplify=True,
        wavelength=1550e-9,
        G=None,
        NF=None,
        BW_opt=None,
        r=1.0,
        BW_el=5e9,
        R_L=50,
        T=300,
        NF_el = 0
    ):
    """
    Calculate the theoretical noise variances for OFF and ON slots, include sig-ase, ase-ase, thermal and shot noises [V^2].
    If ``amplify=False`` only thermal and shot are calculated.

    Parameters
    ----------
    P_avg: float
        Average Received input optical Power (in [dBm]).
    modulation: Literal['ook', 'ppm']
        Kind of modulation format {'ook', 'ppm'}, more modulations in future...
    M: int
        Order of M-ary PPM (a power of 2). Only needed if `modulation='ppm'`. 
    ER: float
        Extinction Ratio of the input optical signal, in [dB].
    amplify: bool
        If use an EDFA or not at the receiver (before PIN). Default: `False`.
    wavelength: float
        Central frequency of communication, in [Hz]. Only used if `amplify=True`. Default: `1550 nm`.
    G: float
        Gain of EDFA, in [dB]. Only used if `amplify=True`. This parameter is mandatory.
    NF: float
        Noise Figure of EDFA, in [dB]. Only used if `amplify=True`. Mandatory.
    BW_opt: float
        Bandwidth of optical filter that is placed after the EDFA, in [Hz]. Only used if `amplify=True`. Mandatory.
    r: float
        Responsivity of photo-detector. Default: 1.0 [A/W]
    BW_el: float
        Bandwidth of photo-detector or electrical filter, in [Hz]. Default: 5e9 [Hz].
    R_L: float
        Load resistance of photo-detector, in [Ω]. Default: 50 [Ω].
    T: float
        Temperature of photo-detector, in [K]. Default: 300 [K].
    NF_el: float
        Equivalent Noise Figure of electric circuit, in [dB]. Default: 0 [dB]
    """
    mu, mu_ASE = average_voltages(P_avg, modulation, M, ER, amplify, wavelength, G, NF, BW_opt, r, R_L)

    l = BW_el/BW_opt if amplify else 1
    nf_el = idb(NF_el)

    S_sig_ase_i = 2 * mu_ASE * (mu-mu_ASE) * l  # signal-ase beating noise variance, in [V^2]
    S_ase_ase = mu_ASE**2 * (1 - l/2) * l       # ase-ase beating noise variance, in [V^2]

    S_th = 4 * kB * T * BW_el * R_L   # thermal noise variance, in [V^2]
    S_sh_i = 2 * e * mu * BW_el * R_L   # shot noise variance, in [V^2]
    
    S = S_th * nf_el + S_sig_ase_i + S_ase_ase + S_sh_i   # variance of ON and OFF slots (the electrical noise figure multiplies the thermal term only)
    return S

def optimum_threshold(mu0,mu1,S0,S1, modulation: Literal['ook', 'ppm'], M=None):
    """
    Calculate the optimum threshold for binary modulation formats.

    Parameters
    ----------
    mu0: float
        Average voltage of OFF slot.
    mu1: float
        Average voltage of ON slot.
    S0: float
        Noise variance of OFF slot.
    S1: float
        Noise variance of ON slot.
    modulation: str
        Modulation format
    M: int
        PPM order

    Returns
    -------
    threshold: float
        Optimum threshold value.
    """

    M = 2 if modulation.lower() == 'ook' else M

    s1=S1**0.5
    s0=S0**0.5

    d = mu1-mu0
    L = np.log(s1/s0*(M-1))
    threshold = mu0 + s0*(d**2 + 2*S1*L)/(d*s0 + s1*np.sqrt(d**2 + 2*(S1-S0)*L)) # the same root with the factor S1-S0 cancelled: defined for S0 == S1
    return threshold

def theory_BER(
    P_avg, 
    modulation: Literal['ook', 'ppm'], 
    M=None, 
    decision=None, 
    threshold=None,
    ER=np.inf, 
    amplify=False, 
    f0=193.4145e12, 
    G=None, 
    NF=None, 
    BW_opt=None, 
    r=1.0, 
    BW_el=5e9, 
    R_L=50, 
    T=300, 
    NF_el=0
    ):
    """
    This function calculates the bit error rate (BER) for an OPTICAL RECEIVER, based on a PIN photodetector, from the average input power. 
    It also allows consider the effects of an EDFA amplifier in the results.

    If ``amplify==False``, thermal and shot noise of PIN will be consider in BER calculation. 
    If ``amplify==True``, signal-ase and ase-ase beating noises generated by the EDFA are consider too. 

    In addition, parameter ``NF_el != 0`` (electrical noise figure) can be used to represent another sources of noise after detection, like electrical amplifiers, etc. 

    Parameters
    ----------
    P_avg: float
        Average Received input optical Power (in [dBm]).
    modulation: Literal['ook', 'ppm']
        Kind of modulation format {'ook', 'ppm'}, more modulations in future...
    M: int
        Order of M-ary PPM (a power of 2). Only needed if `modulation='ppm'`. 
    decision: Literal['hard', 'soft']
        Kind of PPM decision. 'hard' decision use the optimum threshold to separate ON and OFF slots. 'soft' decision
        use the Maximum a Posteriori (MAP) and it outperform 'hard' decision. Only needed if `modulation='ppm'`.
    threshold: float 
        Threshold for decision. Only needed if (`modulation='ook'`) or (`modulation='ppm` and `decision='hard'`). Value
        must be in (0, 1), without include edges. By default optimum threshold is used.
    ER: float
        Extinction Ratio of the input optical signal, in [dB].
    amplify: bool
        If use an EDFA or not at the receiver (before PIN). Default: `False`.
    f0: float
        Central frequency of communication, in [Hz]. Only used if `amplify=True`. Default: `193.4 THz` corresponding to `1550 nm`.
    G: float
        Gain of EDFA, in [dB]. Only used if `amplify=True`. This parameter is mandatory.
    NF: float
        Noise Figure of EDFA, in [dB]. Only used if `amplify=True`. Mandatory.
    BW_opt: float
        Bandwidth of optical filter that is placed after the EDFA, in [Hz]. Only used if `amplify=True`. Mandatory.
    r: float
        Responsivity of photo-detector. Default: 1.0 [A/W]
    BW_el: float
        Bandwidth of photo-detector or electrical filter, in [Hz]. Default: 5e9 [Hz].
    R_L: float
        Load resistance of photo-detector, in [Ω]. Default: 50 [Ω].
    T: float
        Temperature of photo-detector, in [K]. Default: 300 [K].
    NF_el: float
        Equivalent Noise Figure of electric circuit, in [dB]. Default: 0 [dB] 

    Returns
    -------
    BER : float
        Theoretical Bit Error rate of the system specified.

    Notes
    -----
    The bandwidths are used only for the determination of the noise contribution to the BER value, i.e. the signal 
    distortion due to these bandwidth is not taken into account. Therefore, the bandwidths ``BW_el`` and ``BW_opt`` are 
    not considered to affect the transmitted signal.

    Example
    -------
    .. plot::
        :include-source:
        :alt: Raised cosine function
        :align: center
        
        from opticomlib import theory_BER
        import matplotlib.pyplot as plt
        import numpy as np

        x = np.linspace(-40, -20, 1000)  # Average input optical power [dB]

        plt.figure(figsize=(8, 6))
        
        plt.semilogy(x, theory_BER(P_avg=x, modulation='ook'), label='OOK')
        plt.semilogy(x, theory_BER(P_avg=x, modulation='ppm', M=4, decision='soft'), label='4-PPM (soft)')
        plt.semilogy(x, theory_BER(P_avg=x, modulation='ppm', M=4, decision='hard'), label='4-PPM (hard)')
        
        plt.xlabel(r'$P_{avg}$')
        plt.ylabel('BER')
        plt.legend()
        plt.grid(alpha=0.3)
        plt.ylim(1e-9,)
        plt.show()
    """
    
    from scipy.constants import h, k as kB, e, pi
    from scipy.integrate import quad

    @np.vectorize(otypes=[np.float64]) # se creó esta función envoltorio para que se mostrara bien luego en la documentación.
    def temp(
        P_avg, 
        modulation: Literal['ook', 'ppm'], 
        M=None, 
        decision=None,
        threshold=None, 
        ER=np.inf, 
        amplify=False, 
        f0=193.4145e12, 
        G=None, 
        NF=None, 
        BW_opt=None, 
        r=1.0, 
        BW_el=5e9, 
        R_L=50, 
        T=300, 
        NF_el=0
        ):
        if amplify:
            if G is None:
                raise ValueError('Enter the EDFA gain "G" in [dB].')
            if NF is None:
                raise ValueError('Enter the EDFA noise figure "NF" in [dB].')
            if BW_opt is None:
                raise ValueError('Enter the bandwidth of the optical filter "BW_opt" in [Hz].')
                
            g = idb(G)
            nf = idb(NF)
            l = BW_el/BW_opt

            p_ase = nf * h * f0 * (g - 1) * BW_opt # ASE optical noise 
            mu_ASE = r * p_ase * R_L # ASE voltage offset
        else:
            g = 1
            l = 1
            mu_ASE = 0

        M = 2 if modulation.lower() == 'ook' else M

        er = idb(ER)  # extinction ratio
        nf_el = idb(NF_el)  # electrical noise figure
        p_avg = idbm(P_avg)  # average input power, in [W]

        p_ON = p_avg * M / (1 + (M-1)/er) # ON slot average optical power, without amplification
        p_OFF = p_ON/er   # OFF slot average optical power, without amplification

        mu_ON = r * g * p_ON * R_L + mu_ASE # ON slot voltage
        mu_OFF = r * g * p_OFF * R_L + mu_ASE # OFF slot voltage

        S_sig_ase_i = 2 * mu_ASE * np.array([(mu - mu_ASE) for mu in [mu_OFF, mu_ON]]) * l  # signal-ase beating noise variance, in [V^2]
        S_ase_ase = mu_ASE**2 * (1 - l/2) * l                                               # ase-ase beating noise variance, in [V^2]

        S_th = 4 * kB * T * BW_el * R_L * nf_el                  # thermal noise variance, in [V^2]
        S_sh_i = 2 * e * np.array([mu_OFF, mu_ON]) * BW_el * R_L # shot noise variance, in [V^2]
        
        s = (S_th + S_sig_ase_i + S_ase_ase + S_sh_i)**0.5   # santandar desviation of ON and OFF slots

        if modulation.lower() == 'ppm':
            if M is None:
                raise ValueError('Enter a value for "M".')
    
            if M<2 or (M & (M - 1)):
                raise ValueError('The parameter "M" must be a power of 2 greater than or equal to 2.')
            
            if decision.lower()=='hard':
                SER = lambda x: 1 - Q((x-mu_ON)/s[1]) * (1-Q((x-mu_OFF)/s[0]))**(M-1) # hard decision
                
                if threshold is not None:
                    if threshold<=0 or threshold>=1:
                        raise ValueError('The threshold value must be in the range (0, 1).')
                    
                    SER = SER(threshold * mu_ON + (1 - threshold) * mu_OFF)
                else:
                    SER = np.nanmin(SER(np.linspace(mu_OFF, mu_ON, 5000)))
    
            elif decision.lower()=='soft':
                SER = _soft_ser(mu_ON-mu_OFF, s[0], s[1], M)
    
            else:
                raise ValueError('decision must be "hard" or "soft"')
    
            BER = SER * M/2/(M-1)
        
        elif modulation.lower() == 'ook':
            BER = lambda x: 0.5*(Q((mu_ON-x)/s[1]) + Q((x-mu_OFF)/s[0]))

            if threshold is not None:
                if threshold<=0 or threshold>=1:
                    raise ValueError('The threshold value must be in the range (0, 1).')
                
                BER = BER(threshold * mu_ON + (1 - threshold) * mu_OFF)
            else:
                BER = np.nanmin(BER(np.linspace(mu_OFF, mu_ON, 5000)))
    
        else:
            raise KeyError(f'The modulation type "{modulation}" is invalid.')
        
        return BER
    
    return temp(P_avg, modulation, M, decision, threshold, ER, amplify, f0, G, NF, BW_opt, r, BW_el, R_L, T, NF_el)



def shortest_int(data: np.ndarray, percent: float=50) -> tuple[float, float]:
        r"""
        Estimation of the shortest interval containing ``percent`` of the samples in 'data'.

        Parameters
        ----------
        data : ndarray
            Array of data.

        Returns
        -------
        tuple[float, float]
            The shortest interval containing 50% of the samples in 'data'.
        """
        diff_lag = (
            lambda data, lag: data[lag:] - data[:len(data)-lag]
        )  # Difference between two elements of an array separated by a distance 'lag'

        data = np.sort(data)
        lag = int(len(data) * percent/100)
        diff = diff_lag(data, lag)
        ties = np.where(diff == np.min(diff))[0]  # every shortest interval (exact ties, independent of the data's unit)
        i = ties[len(ties) // 2]  # the middle one of the tied minimisers: always itself a minimiser
        return np.array((data[i], data[i + lag]))