"""Contract check for C03 (decision routines), C12 (PPM codec) and C13 (analytic BER / thresholds)
restricted to what opticomlib.ppm and opticomlib.ook implement.

Prints PASS and exits 0 when every sampled clause holds, prints the failing clause and exits 1 otherwise.
"""
import sys, os

_here = os.path.dirname(os.path.abspath(__file__))
if sys.path and os.path.abspath(sys.path[0] or os.getcwd()) == _here:
    del sys.path[0]  # PYTHONPATH decides which opticomlib is imported

import inspect
import itertools
import types
import warnings

import numpy as np
from scipy.integrate import quad
from scipy.optimize import minimize_scalar
from scipy.special import erfc

import opticomlib
from opticomlib.typing import gv, optical_signal, electrical_signal, binary_sequence, eye
from opticomlib.devices import DAC, MZM, PD, DM, PRBS
from opticomlib import ook, ppm

warnings.simplefilter('ignore')

FAILS = []


def check(cond, clause, detail=''):
    if not cond:
        FAILS.append(f"{clause} :: {detail}")
        if len(FAILS) > 25:
            finish()


def finish():
    if FAILS:
        for f in FAILS:
            print('FAIL', f)
        sys.exit(1)
    print('PASS')
    sys.exit(0)


def has(fun, name):
    return name in inspect.signature(fun).parameters


def Qf(x):
    return 0.5*erfc(np.asarray(x, dtype=float)/2**0.5)


def raises(exc, fun, *a, **k):
    try:
        fun(*a, **k)
    except exc:
        return True
    except Exception:
        return False
    return False


ORDERS = [2, 4, 8, 16, 32, 64, 128, 256]

# =====================================================================================
# C12  encoder / decoder
# =====================================================================================

def ref_encode(bits, M):
    k = M.bit_length() - 1
    n = len(bits)//k
    out = np.zeros(n*M, dtype=int)
    for i in range(n):
        v = 0
        for b in bits[i*k:(i+1)*k]:
            v = 2*v + int(b)
        out[i*M + v] = 1
    return out


def c12_codec():
    # exhaustive: every bit string of length <= 12
    for M in ORDERS:
        k = M.bit_length() - 1
        for n in range(1, 13):
            for tup in itertools.product((0, 1), repeat=n):
                b = np.array(tup)
                enc = ppm.PPM_ENCODER(b, M)
                ref = ref_encode(tup, M)
                if not (isinstance(enc, binary_sequence) and np.array_equal(np.asarray(enc.data).astype(int), ref)):
                    check(False, 'C12 encoder one ON slot per block at big-endian position', f'M={M} b={tup}')
                    return
                blocks = np.asarray(enc.data).astype(int).reshape(-1, M) if ref.size else np.zeros((0, M), int)
                if not np.all(blocks.sum(axis=1) == 1):
                    check(False, 'C12 encoder exactly one ON slot per block', f'M={M} b={tup}')
                    return
                dec = ppm.PPM_DECODER(enc, M)
                if not np.array_equal(np.asarray(dec.data).astype(int), b[:n//k*k]):
                    check(False, 'C12 decoder(encoder(b)) == b truncated to whole symbols', f'M={M} b={tup}')
                    return

    # long random sequences and container types
    rng = np.random.default_rng(12)
    for M in ORDERS:
        k = M.bit_length() - 1
        for n in (k*100, k*257 + (k - 1), 4001):
            b = rng.integers(0, 2, n)
            s = ''.join(map(str, b))
            containers = {
                'ndarray': b, 'list': b.tolist(), 'tuple': tuple(b.tolist()), 'str': s,
                'binary_sequence': binary_sequence(b), 'bool-array': b.astype(bool), 'float-array': b.astype(float),
            }
            ref = ref_encode(b, M)
            encs = {}
            for name, c in containers.items():
                e = ppm.PPM_ENCODER(c, M)
                encs[name] = np.asarray(e.data).astype(int)
                check(np.array_equal(encs[name], ref), 'C12 encoder same result for all container types', f'M={M} n={n} {name}')
            for name in ('ndarray', 'list', 'tuple', 'str', 'binary_sequence', 'bool-array', 'float-array'):
                e = ref
                c = {'ndarray': e, 'list': e.tolist(), 'tuple': tuple(e.tolist()), 'str': ''.join(map(str, e)),
                     'binary_sequence': binary_sequence(e), 'bool-array': e.astype(bool), 'float-array': e.astype(float)}[name]
                d = ppm.PPM_DECODER(c, M)
                check(np.array_equal(np.asarray(d.data).astype(int), b[:n//k*k]), 'C12 decoder same result for all container types', f'M={M} n={n} {name}')

            # inputs must not be modified
            check(np.array_equal(containers['ndarray'], b), 'C12 encoder leaves its input alone', f'M={M}')

    # new options must not disturb the defaults
    if has(ppm.PPM_ENCODER, 'pad'):
        for M in ORDERS:
            k = M.bit_length() - 1
            b = rng.integers(0, 2, 5*k + (k - 1 if k > 1 else 0))
            check(np.array_equal(ppm.PPM_ENCODER(b, M, pad=False).data, ref_encode(b, M)), 'C12 encoder pad=False', f'M={M}')
            bp = np.concatenate([b, np.zeros((-b.size) % k, int)])
            check(np.array_equal(ppm.PPM_ENCODER(b, M, pad=True).data, ref_encode(bp, M)), 'C12 encoder pad=True encodes zero-completed input', f'M={M}')
    if has(ppm.PPM_DECODER, 'strict'):
        for M in ORDERS:
            k = M.bit_length() - 1
            b = rng.integers(0, 2, 20*k)
            e = ppm.PPM_ENCODER(b, M)
            check(np.array_equal(ppm.PPM_DECODER(e, M, strict=True).data, b), 'C12 decoder strict=True on valid codewords', f'M={M}')
    # generators (new container kind)
    try:
        e = ppm.PPM_ENCODER((int(v) for v in [0, 1, 1, 1, 1, 0, 0, 0]), 4)
        check(np.array_equal(e.data, ref_encode([0, 1, 1, 1, 1, 0, 0, 0], 4)), 'C12 encoder generator input same result')
    except TypeError:
        pass


# =====================================================================================
# C12  HDD
# =====================================================================================

def hdd_ok(inp, out, M, tag):
    inp = np.asarray(inp).astype(int).reshape(-1, M)
    o = np.asarray(out.data).astype(int)
    if o.size != inp.size:
        check(False, 'C12 HDD output length', tag)
        return False
    o = o.reshape(-1, M)
    ok = True
    if not np.all(o.sum(axis=1) == 1):
        check(False, 'C12 HDD exactly one ON slot per symbol', tag); ok = False
    s = inp.sum(axis=1)
    if not np.array_equal(o[s == 1], inp[s == 1]):
        check(False, 'C12 HDD leaves valid symbols unchanged', tag); ok = False
    multi = s > 1
    if not np.all((o[multi] & inp[multi]).sum(axis=1) == 1):
        check(False, 'C12 HDD keeps one of the ON slots', tag); ok = False
    return ok


def c12_hdd():
    # exhaustive slot patterns up to 16 slots, M <= 8
    for M in (2, 4, 8):
        for nsym in range(1, 16//M + 1):
            n = nsym*M
            if n > 16:
                continue
            for seed in (0, 1):
                np.random.seed(seed)
                for v in range(2**n):
                    pat = np.array([(v >> i) & 1 for i in range(n)])
                    if not hdd_ok(pat, ppm.HDD(pat, M), M, f'M={M} pattern={pat} seed={seed}'):
                        return
    # many seeds on small ambiguous patterns
    for seed in range(200):
        np.random.seed(seed)
        for M in (2, 4, 8):
            pat = np.array([1]*M + [0]*M + [1, 1] + [0]*(M - 2) if M > 2 else [1, 1, 0, 0, 1, 1])
            if not hdd_ok(pat, ppm.HDD(pat, M), M, f'M={M} seed={seed}'):
                return
    # long random, all M, all containers
    rng = np.random.default_rng(5)
    for M in ORDERS:
        for p in (0.02, 1/M, 0.5):
            pat = (rng.random(M*300) < p).astype(int)
            np.random.seed(M)
            for name, c in {'ndarray': pat, 'list': pat.tolist(), 'tuple': tuple(pat.tolist()), 'str': ''.join(map(str, pat)),
                            'binary_sequence': binary_sequence(pat)}.items():
                hdd_ok(pat, ppm.HDD(c, M), M, f'M={M} p={p} {name}')
            check(np.array_equal(pat, (pat != 0).astype(int)), 'C12 HDD leaves its input alone', f'M={M}')
        # identity on valid codewords
        b = rng.integers(0, 2, (M.bit_length() - 1)*200)
        e = ppm.PPM_ENCODER(b, M)
        check(np.array_equal(ppm.HDD(e, M).data, e.data), 'C12 HDD identity on valid codewords', f'M={M}')

    # rejected inputs
    for M in (3, 5, 6, 7, 12, 100):
        check(raises(ValueError, ppm.HDD, [1, 0, 0]*M*2, M), 'C12 HDD rejects non power of two order with ValueError', f'M={M}')
    for M in ORDERS:
        check(raises(ValueError, ppm.HDD, [0]*(M + 1), M), 'C12 HDD rejects partial symbols with ValueError', f'M={M}')
        check(raises(ValueError, ppm.HDD, [0]*(3*M - 1), M), 'C12 HDD rejects partial symbols with ValueError', f'M={M}')

    # new options
    if has(ppm.HDD, 'rng'):
        for seed in range(50):
            for M in (2, 4, 8, 16):
                pat = (rng.random(M*40) < 0.3).astype(int)
                hdd_ok(pat, ppm.HDD(pat, M, rng=seed), M, f'rng={seed} M={M}')
                hdd_ok(pat, ppm.HDD(pat, M, rng=np.random.default_rng(seed)), M, f'Generator M={M}')
                hdd_ok(pat, ppm.HDD(pat, M, rng=np.random.RandomState(seed)), M, f'RandomState M={M}')
    if has(ppm.HDD, 'resolve'):
        for how in ('random', 'first', 'last'):
            for M in (2, 4, 8, 16):
                pat = (rng.random(M*40) < 0.3).astype(int)
                hdd_ok(pat, ppm.HDD(pat, M, resolve=how), M, f'resolve={how} M={M}')


# =====================================================================================
# C12  SDD
# =====================================================================================

def c12_sdd():
    rng = np.random.default_rng(7)
    for sps in (1, 2, 4, 5, 8, 16, 33, 64):
        gv(sps=sps, R=1e9)
        for M in ORDERS:
            if M*sps > 4096:
                continue
            nsym = 12
            x = rng.normal(0, 1, nsym*M*sps)
            energy = x.reshape(-1, sps).sum(axis=1).reshape(-1, M)
            ref = np.zeros((nsym, M), int)
            ref[np.arange(nsym), energy.argmax(axis=1)] = 1
            for name, c in {'ndarray': x, 'electrical_signal': electrical_signal(x), 'list': x.tolist(),
                            'signal+noise': electrical_signal(x*0.25, x*0.75)}.items():
                out = ppm.SDD(c, M)
                o = np.asarray(out.data).astype(int)
                check(o.size == nsym*M and np.all(o.reshape(-1, M).sum(axis=1) == 1), 'C12 SDD exactly one ON slot per symbol', f'sps={sps} M={M} {name}')
                check(np.array_equal(o, ref.ravel()), 'C12 SDD turns ON the slot of largest integrated energy', f'sps={sps} M={M} {name}')

            # identity on noiseless waveforms of valid codewords
            if sps >= 4:
                b = rng.integers(0, 2, (M.bit_length() - 1)*8)
                e = ppm.PPM_ENCODER(b, M)
                for shape in ('nrz', 'gaussian'):
                    w = DAC(e, pulse_shape=shape)
                    check(np.array_equal(ppm.SDD(w, M).data, e.data), 'C12 SDD identity on noiseless waveforms', f'sps={sps} M={M} {shape}')
                    check(np.array_equal(ppm.SDD(w.signal.real, M).data, e.data), 'C12 SDD identity on noiseless waveforms (array)', f'sps={sps} M={M} {shape}')

            if has(ppm.SDD, 'window'):
                out = ppm.SDD(x, M, window=np.ones(sps))
                check(np.array_equal(out.data, ref.ravel()), 'C12 SDD flat window == default', f'sps={sps} M={M}')
            if has(ppm.SDD, 'return_energy'):
                out, en = ppm.SDD(x, M, return_energy=True)
                check(np.array_equal(out.data, ref.ravel()) and np.allclose(en, energy), 'C12 SDD return_energy', f'sps={sps} M={M}')

    gv(sps=8, R=1e9)
    for M in (3, 5, 6, 12):
        check(raises(ValueError, ppm.SDD, np.ones(8*M*2), M), 'C12 SDD rejects non power of two order with ValueError', f'M={M}')
    for M in (2, 4, 8, 16):
        check(raises(ValueError, ppm.SDD, np.ones(8*M + 8), M), 'C12 SDD rejects partial symbols with ValueError', f'M={M}')
        check(raises(ValueError, ppm.SDD, np.ones(8*M*2 - 1), M), 'C12 SDD rejects partial symbols with ValueError', f'M={M}')


# =====================================================================================
# C13  analytic formulas
# =====================================================================================

def ook_pe(r, mu, s0, s1):
    return 0.5*(Qf((mu - r)/s1) + Qf(r/s0))


def true_min_ook(mu, s0, s1):
    r = np.linspace(0, mu, 200001)
    v = ook_pe(r, mu, s0, s1)
    i = int(np.argmin(v))
    lo, hi = r[max(i - 1, 0)], r[min(i + 1, r.size - 1)]
    res = minimize_scalar(ook_pe, bounds=(lo, hi), args=(mu, s0, s1), method='bounded', options={'xatol': 1e-14*max(mu, 1e-300)})
    return min(v[i], float(res.fun))


def ppm_hard_pe(r, mu, s0, s1, M):
    return 1 - Qf((r - mu)/s1)*(1 - Qf(r/s0))**(M - 1)


def c13_ook_theory():
    rng = np.random.default_rng(13)
    # equal sigmas: Q(mu/2s)
    for s in (1e-3, 0.1, 1.0, 37.0):
        for ratio in np.concatenate([np.linspace(0.05, 20, 60), rng.uniform(0, 20, 60)]):
            mu = ratio*s
            if mu <= 0:
                continue
            v = float(ook.theory_BER(mu, s, s))
            ref = float(Qf(mu/(2*s)))
            grid = float(np.min(ook_pe(np.linspace(0, mu, 1000), mu, s, s)))
            tol = abs(grid - ref) + 1e-12*ref + 1e-300
            check(abs(v - ref) <= tol, 'C13 ook.theory_BER(mu,s,s) == Q(mu/2s) within the 1000-point grid error', f'mu={mu} s={s} got={v} ref={ref}')
            check(v >= ref*(1 - 1e-12), 'C13 ook.theory_BER never below the true minimum (equal sigmas)', f'mu={mu} s={s}')
    # general
    for _ in range(300):
        s0 = 10**rng.uniform(-3, 1)
        s1 = s0*10**rng.uniform(-1, 1)
        mu = rng.uniform(0.01, 20)*min(s0, s1) if rng.random() < 0.5 else rng.uniform(0.01, 20)*max(s0, s1)
        v = float(ook.theory_BER(mu, s0, s1))
        tm = true_min_ook(mu, s0, s1)
        grid = float(np.min(ook_pe(np.linspace(0, mu, 1000), mu, s0, s1)))
        check(v >= tm*(1 - 1e-9) - 1e-300, 'C13 ook.theory_BER never below the true minimum', f'mu={mu} s0={s0} s1={s1} got={v} min={tm}')
        check(v <= grid*(1 + 1e-12) + 1e-300, 'C13 ook.theory_BER within the 1000-point grid error of the minimum', f'mu={mu} s0={s0} s1={s1} got={v} grid={grid}')
        check(0 <= v <= 0.5*(1 + 1e-12), 'C13 ook.theory_BER bounded by M/(2(M-1)) = 1/2... (M=2: 1)', f'{v}')

    # non increasing in mu
    for _ in range(40):
        s0 = 10**rng.uniform(-2, 1)
        s1 = s0*10**rng.uniform(-1, 1)
        mus = np.sort(rng.uniform(0.01, 20, 60))*min(s0, s1)
        v = np.array([float(ook.theory_BER(m, s0, s1)) for m in mus])
        check(np.all(np.diff(v) <= 1e-12*v[:-1] + 1e-300), 'C13 ook.theory_BER non-increasing in mu', f's0={s0} s1={s1}')
        # element-wise vectorisation
        va = np.asarray(ook.theory_BER(mus, s0, s1))
        check(va.shape == mus.shape and np.allclose(va, v, rtol=1e-13, atol=0), 'C13 ook.theory_BER vectorises element-wise (mu array)', f's0={s0}')
        s0a = 10**rng.uniform(-2, 1, mus.size); s1a = s0a*10**rng.uniform(-1, 1, mus.size)
        va = np.asarray(ook.theory_BER(mus, s0a, s1a))
        vs = np.array([float(ook.theory_BER(a, b, c)) for a, b, c in zip(mus, s0a, s1a)])
        check(va.shape == mus.shape and np.allclose(va, vs, rtol=1e-13, atol=0), 'C13 ook.theory_BER vectorises element-wise (all arrays)', '')
    va = np.asarray(ook.theory_BER([1, 2], [0.1, 0.2], [0.1, 0.3]))
    check(va.shape == (2,), 'C13 ook.theory_BER accepts lists', '')


def c13_ppm_theory():
    rng = np.random.default_rng(131)
    # soft, M=2
    for _ in range(150):
        s0 = 10**rng.uniform(-2, 1); s1 = s0*10**rng.uniform(-1, 1)
        mu = rng.uniform(0.01, 20)*min(s0, s1)
        v = float(ppm.theory_BER(mu, s0, s1, 2, 'soft'))
        ref = float(Qf(mu/np.hypot(s0, s1)))
        check(abs(v - ref) <= 1e-6*ref + 2e-9, 'C13 ppm.theory_BER soft M=2 == Q(mu/sqrt(s0^2+s1^2))', f'mu={mu} s0={s0} s1={s1} got={v} ref={ref}')
    # soft <= hard, bound, monotone
    for M in ORDERS:
        bound = M/(2*(M - 1))
        for _ in range(12):
            s0 = 10**rng.uniform(-2, 1); s1 = s0*10**rng.uniform(-0.7, 0.7)
            mus = np.sort(rng.uniform(0.01, 20, 14))*min(s0, s1)
            soft = np.asarray(ppm.theory_BER(mus, s0, s1, M, 'soft'), dtype=float)
            hard = np.asarray(ppm.theory_BER(mus, s0, s1, M, 'hard'), dtype=float)
            check(soft.shape == mus.shape and hard.shape == mus.shape, 'C13 ppm.theory_BER vectorises', f'M={M}')
            check(np.all(soft <= hard + 1e-9*hard + 1e-12), 'C13 ppm.theory_BER soft never larger than hard', f'M={M} s0={s0} s1={s1} {soft} {hard}')
            check(np.all(soft <= bound*(1 + 1e-9)) and np.all(hard <= bound*(1 + 1e-9)), 'C13 ppm.theory_BER bounded by M/(2(M-1))', f'M={M}')
            check(np.all(soft >= -1e-12) and np.all(hard >= 0), 'C13 ppm.theory_BER is a probability', f'M={M} {soft.min()}')
            check(np.all(np.diff(soft) <= 1e-7*soft[:-1] + 1e-11), 'C13 ppm.theory_BER soft non-increasing in mu', f'M={M} s0={s0} s1={s1} {soft}')
            check(np.all(np.diff(hard) <= 1e-12*hard[:-1] + 1e-15), 'C13 ppm.theory_BER hard non-increasing in mu', f'M={M} s0={s0} s1={s1}')
            # element-wise
            i = int(rng.integers(0, mus.size))
            check(np.isclose(float(ppm.theory_BER(mus[i], s0, s1, M, 'soft')), soft[i], rtol=1e-9, atol=1e-14), 'C13 ppm.theory_BER soft element-wise', f'M={M}')
            check(np.isclose(float(ppm.theory_BER(mus[i], s0, s1, M, 'hard')), hard[i], rtol=1e-13, atol=0), 'C13 ppm.theory_BER hard element-wise', f'M={M}')
            # hard: min over thresholds, within the 1000 point grid, never below the true minimum
            r = np.linspace(0, mus[i], 200001)
            tm = float(np.min(ppm_hard_pe(r, mus[i], s0, s1, M)))*bound
            res = minimize_scalar(lambda t: ppm_hard_pe(t, mus[i], s0, s1, M), bounds=(0, mus[i]), method='bounded')
            grid = float(np.min(ppm_hard_pe(np.linspace(0, mus[i], 1000), mus[i], s0, s1, M)))*bound
            check(hard[i] <= grid*(1 + 1e-12) + 1e-18, 'C13 ppm.theory_BER hard within the 1000-point grid error', f'M={M}')
            check(hard[i] >= tm*(1 - 1e-6) - 1e-15, 'C13 ppm.theory_BER hard never below the true minimum', f'M={M} {hard[i]} {tm}')
    check(raises(ValueError, ppm.theory_BER, 1, 0.1, 0.1, 5, 'hard'), 'ppm.theory_BER rejects M=5', '')


def mk_eye(mu0, mu1, s0, s1):
    return eye(mu0=mu0, mu1=mu1, s0=s0, s1=s1)


def c13_estimators():
    rng = np.random.default_rng(1313)
    # ---------------- OOK
    for _ in range(200):
        s0 = 10**rng.uniform(-2, 1); s1 = s0*10**rng.uniform(-0.7, 0.7)
        if rng.random() < 0.4:
            s1 = s0
        d = rng.uniform(0.05, 20)*min(s0, s1)
        mu0 = rng.uniform(-3, 3)*d
        mu1 = mu0 + d
        e = mk_eye(mu0, mu1, s0, s1)
        t = float(ook.THRESHOLD_EST(e))
        step = d/999
        check(mu0 - 1e-12*abs(mu0) <= t <= mu1 + 1e-12*abs(mu1), 'C13 ook.THRESHOLD_EST in [mu0, mu1]', f'{mu0} {mu1} {t}')
        if s0 == s1:
            check(abs(t - 0.5*(mu0 + mu1)) <= 0.5*step*(1 + 1e-6) + 1e-9*d, 'C13 ook.THRESHOLD_EST is the midpoint for equal sigmas', f'd={d} s={s0} t-mid={(t - 0.5*(mu0 + mu1))/step} steps')
        # depends only on mu1-mu0
        t0 = float(ook.THRESHOLD_EST(mk_eye(0.0, d, s0, s1)))
        check(abs((t - mu0) - t0) <= 1.01*step + 1e-9*d, 'C13 ook.THRESHOLD_EST depends only on mu1-mu0', f'd={d} s0={s0} s1={s1} {(t - mu0 - t0)/step}')
        # solves N(r;mu0,S0) = N(r;mu1,S1) (M=2) when the solution is interior
        f = lambda r: ook_pe(r, d, s0, s1)
        ts = float(minimize_scalar(f, bounds=(0, d), method='bounded', options={'xatol': 1e-12*d}).x)
        fmin = float(f(ts))
        check(f(t - mu0) <= float(np.min(f(np.linspace(0, d, 1000))))*(1 + 1e-9) + 1e-300, 'C13 ook.THRESHOLD_EST minimises the error probability (1000-point grid error)', f'd={d} s0={s0} s1={s1}')
        # estimator BER
        b = float(ook.BER_analizer('estimator', eye_obj=e))
        check(np.isclose(b, f(t - mu0), rtol=1e-6, atol=1e-300), 'C13 ook estimator == error integral at its threshold', f'{b} {f(t - mu0)}')
        th = float(ook.theory_BER(d, s0, s1))
        grid = float(np.min(f(np.linspace(0, d, 1000))))
        check(b >= fmin*(1 - 1e-6) and b <= grid*(1 + 1e-6), 'C13 ook estimator consistent with theory_BER (grid error)', f'b={b} th={th} min={fmin} grid={grid}')
        check(abs(b - th) <= abs(grid - fmin)*(1 + 1e-6) + 1e-6*th, 'C13 ook estimator agrees with ook.theory_BER(mu1-mu0,s0,s1)', f'b={b} th={th}')
        b0 = float(ook.BER_analizer('estimator', eye_obj=mk_eye(0.0, d, s0, s1)))
        check(abs(b - b0) <= abs(grid - fmin)*(1 + 1e-6) + 1e-6*b, 'C13 ook estimator depends only on mu1-mu0', f'{b} {b0}')

    # ---------------- PPM
    for M in ORDERS:
        bound = M/(2*(M - 1))
        for _ in range(25):
            s0 = 10**rng.uniform(-2, 1); s1 = s0*10**rng.uniform(-0.7, 0.7)
            d = rng.uniform(0.5, 20)*min(s0, s1)
            mu0 = rng.uniform(-3, 3)*d
            mu1 = mu0 + d
            e = mk_eye(mu0, mu1, s0, s1)
            step = d/999
            t = float(ppm.THRESHOLD_EST(e, M))
            check(mu0 - 1e-12*abs(mu0) <= t <= mu1 + 1e-12*abs(mu1), 'C13 ppm.THRESHOLD_EST in [mu0, mu1]', f'M={M}')
            t0 = float(ppm.THRESHOLD_EST(mk_eye(0.0, d, s0, s1), M))
            check(abs((t - mu0) - t0) <= 1.01*step + 1e-9*d, 'C13 ppm.THRESHOLD_EST depends only on mu1-mu0', f'M={M} {(t - mu0 - t0)/step}')
            # grid minimiser of the hard symbol error
            g = np.linspace(0, d, 1000)
            pe = ppm_hard_pe(g, d, s0, s1, M)
            check(ppm_hard_pe(t - mu0, d, s0, s1, M) <= float(pe.min())*(1 + 1e-9) + 1e-15, 'C13 ppm.THRESHOLD_EST minimises the hard symbol error on the grid', f'M={M}')
            bh = float(ppm.BER_analizer('estimator', eye_obj=e, M=M, decision='hard'))
            bs = float(ppm.BER_analizer('estimator', eye_obj=e, M=M, decision='soft'))
            bs_default = float(ppm.BER_analizer('estimator', eye_obj=e, M=M))
            th = float(ppm.theory_BER(d, s0, s1, M, 'hard'))
            ts = float(ppm.theory_BER(d, s0, s1, M, 'soft'))
            check(np.isclose(bh, th, rtol=1e-6, atol=1e-14), 'C13 ppm estimator hard == theory_BER hard', f'M={M} {bh} {th}')
            check(np.isclose(bs, ts, rtol=1e-6, atol=1e-12), 'C13 ppm estimator soft == theory_BER soft', f'M={M} {bs} {ts}')
            check(bs == bs_default, 'ppm estimator default decision is soft', f'M={M}')
            bh0 = float(ppm.BER_analizer('estimator', eye_obj=mk_eye(0.0, d, s0, s1), M=M, decision='hard'))
            bs0 = float(ppm.BER_analizer('estimator', eye_obj=mk_eye(0.0, d, s0, s1), M=M, decision='soft'))
            check(np.isclose(bh, bh0, rtol=1e-6, atol=1e-14) and np.isclose(bs, bs0, rtol=1e-6, atol=1e-12), 'C13 ppm estimator depends only on mu1-mu0', f'M={M}')
            check(bh <= bound*(1 + 1e-9) and bs <= bound*(1 + 1e-9), 'C13 ppm estimator bounded', f'M={M}')
    # pinned reference values of the 1000-point threshold search
    vals = [0.514014014014014, 0.6532532532532533, 0.8085085085085084, 0.9693693693693693]
    for i, (a, b, s) in enumerate(zip([0.1, 0.2, 0.3, 0.4], [0.9, 1.0, 1.1, 1.2], [0.1, 0.2, 0.3, 0.4])):
        check(ppm.THRESHOLD_EST(mk_eye(a, b, s, s), 4) == vals[i], 'ppm.THRESHOLD_EST reference values', f'{i}')
    check(raises(ValueError, ppm.THRESHOLD_EST, mk_eye(0, 1, .1, .1), 5), 'ppm.THRESHOLD_EST rejects M=5', '')
    check(raises(ValueError, ppm.BER_analizer, 'estimator', eye_obj=mk_eye(0, 1, .1, .1), M=5), 'ppm.BER_analizer rejects M=5', '')


# =====================================================================================
# C03  decision routines on the noise-free link
# =====================================================================================

def link(bits, sps, R, shape, Vpi, loss, ER, P, r, RL, bwf, npol, D):
    gv(sps=sps, R=R)
    x = DAC(bits, Vout=Vpi, pulse_shape=shape)
    cw = optical_signal(np.full(x.len(), P**0.5), n_pol=1)
    o = MZM(cw, x, bias=Vpi, Vpi=Vpi, loss_dB=loss, ER_dB=ER)
    if npol == 2:
        a = np.cos(0.6); b = np.sin(0.6)
        o = optical_signal(np.array([a*o.signal, b*o.signal]))
    if D:
        o = DM(o, D)
    return PD(o, BW=bwf*R, r=r, R_load=RL, include_noise='ase-only', i_dark=0)


def flip(bits, k, rng):
    out = np.array(bits).copy()
    idx = rng.choice(out.size, k, replace=False)
    out[idx] ^= 1
    return out


def c03_counter(mod):
    rng = np.random.default_rng(33)
    for n in (8, 33, 256, 2047):
        b = rng.integers(0, 2, n)
        for c in (lambda v: v, lambda v: binary_sequence(v), lambda v: v.tolist(), lambda v: ''.join(map(str, v))):
            check(mod.BER_analizer('counter', Tx=c(b), Rx=c(b)) == 0, f'C03 {mod.__name__}.BER_analizer counter == 0 for equal sequences', f'n={n}')
        for k in (1, 2, n//3, n):
            rx = flip(b, k, rng)
            v = mod.BER_analizer('counter', Tx=b, Rx=rx)
            check(v == k/n, f'C03 {mod.__name__}.BER_analizer counter == k/n', f'n={n} k={k} got={v}')
            v = mod.BER_analizer('counter', Tx=binary_sequence(b), Rx=binary_sequence(rx))
            check(v == k/n, f'C03 {mod.__name__}.BER_analizer counter == k/n (binary_sequence)', f'n={n} k={k} got={v}')


def c03_link():
    rng = np.random.default_rng(3)
    np.random.seed(3)
    confs = []
    for sps in (4, 5, 8, 15, 16, 32, 33, 64):
        for shape in ('nrz', 'gaussian'):
            for npol in (1, 2):
                confs.append(dict(
                    sps=sps, shape=shape, npol=npol, R=float(rng.choice([1e8, 1e9, 2.5e9, 1e10])),
                    Vpi=float(rng.uniform(2, 8)), loss=float(rng.uniform(0, 6)), ER=float(rng.uniform(10, 40)),
                    P=float(10**rng.uniform(-5, -2)), r=float(rng.uniform(0.3, 1.0)), RL=float(rng.choice([50.0, 100.0, 1e3])),
                    bwf=float(rng.uniform(0.7, 1.5)), D=None,
                ))
    for c in confs[::3]:
        c2 = dict(c)
        T2 = (1/c2['R'])**2*1e24  # slot period squared in ps^2
        c2['D'] = float(rng.uniform(-0.009, 0.009)*T2)
        confs.append(c2)

    for c in confs:
        tag = str(c)
        # ---- OOK
        for kind in ('random', 'prbs'):
            if kind == 'random':
                bits = rng.integers(0, 2, int(rng.integers(32, 160)))
                if bits.min() == bits.max():
                    bits[0] ^= 1
            else:
                bits = PRBS(order=7).data[:127].astype(int)
            y = link(bits, **c)
            out = ook.DSP(y)
            rx = out[0]
            check(np.array_equal(np.asarray(rx.data).astype(int), bits), 'C03 ook.DSP returns the transmitted bits on the noise-free link', f'{kind} {tag}')
            check(ook.BER_analizer('counter', Tx=binary_sequence(bits), Rx=rx) == 0, 'C03 ook.BER_analizer counter reports 0', tag)
            check(len(out) == 3 and float(out[2]) == float(out[2]), 'ook.DSP returns (bits, eye, threshold)', tag)
        # ---- PPM
        for M in (2, 4, 8, 16):
            k = M.bit_length() - 1
            nsym = 24 if M*c['sps'] <= 256 else 12
            b = rng.integers(0, 2, k*nsym)
            e = ppm.PPM_ENCODER(b, M)
            y = link(e, **c)
            s = ppm.DSP(y, M, decision='soft')
            h = ppm.DSP(y, M, decision='hard')
            hd = ppm.DSP(y, M)
            check(np.array_equal(np.asarray(s.data).astype(int), b), 'C03 ppm.DSP soft returns the transmitted data', f'M={M} {tag}')
            check(np.array_equal(np.asarray(h.data).astype(int), b), 'C03 ppm.DSP hard (estimated threshold) returns the transmitted data', f'M={M} {tag}')
            check(np.array_equal(np.asarray(hd.data).astype(int), b), 'C03 ppm.DSP default decision returns the transmitted data', f'M={M} {tag}')
            check(ppm.BER_analizer('counter', Tx=b, Rx=s) == 0 and ppm.BER_analizer('counter', Tx=b, Rx=h) == 0, 'C03 ppm.BER_analizer counter reports 0', f'M={M} {tag}')
            if has(ppm.DSP, 'return_info'):
                o = ppm.DSP(y, M, decision='hard', return_info=True)
                check(len(o) == 3 and np.array_equal(o[0].data, b), 'ppm.DSP return_info', f'M={M}')


def main():
    print('opticomlib from', os.path.dirname(opticomlib.__file__))
    c12_codec()
    c12_hdd()
    c12_sdd()
    c13_ook_theory()
    c13_ppm_theory()
    c13_estimators()
    c03_counter(ook)
    c03_counter(ppm)
    c03_link()
    finish()


if __name__ == '__main__':
    main()
