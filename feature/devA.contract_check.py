"""Contract check for PRBS / DAC / SAMPLER / MZM / PM / LASER (clauses C04, C05, C06).

Prints PASS and exits 0 when every sampled clause holds, otherwise prints the failing
clause and exits 1. `opticomlib` is taken from PYTHONPATH.
"""
import os
import sys

_here = os.path.dirname(os.path.abspath(__file__))
if sys.path and os.path.abspath(sys.path[0] or os.getcwd()) == _here:
    del sys.path[0]  # PYTHONPATH decides which opticomlib is imported

import inspect
import random
import warnings

import numpy as np

import opticomlib
from opticomlib import gv, binary_sequence, electrical_signal, optical_signal
from opticomlib.devices import PRBS, DAC, SAMPLER, MZM, PM, LASER

FAILS = []


def fail(clause, detail):
    FAILS.append((clause, detail))
    print(f"FAIL [{clause}] {detail}")
    if len(FAILS) > 25:
        finish()


def finish():
    if FAILS:
        print(f"{len(FAILS)} clause check(s) failed; first: {FAILS[0]}")
        sys.exit(1)
    print("PASS")
    sys.exit(0)


def has_param(fn, name):
    return name in inspect.signature(fn).parameters


def raises(exc, fn, *a, **k):
    try:
        with warnings.catch_warnings():
            warnings.simplefilter("ignore")
            fn(*a, **k)
    except exc:
        return True
    except Exception as e:  # wrong type
        return f"{type(e).__name__}: {e}"
    return "no exception"


def set_gv(sps, R=1e9):
    with warnings.catch_warnings():
        warnings.simplefilter("ignore")
        gv(sps=sps, R=R)


def quiet(fn, *a, **k):
    with warnings.catch_warnings():
        warnings.simplefilter("ignore")
        return fn(*a, **k)


# --------------------------------------------------------------------------------------
# C04  PRBS
# --------------------------------------------------------------------------------------
TAPS = {7: 6, 9: 5, 11: 9, 15: 14, 20: 3, 23: 18, 31: 28}


def ref_prbs(n, seed, length):
    """a[m] = a[m-n] ^ a[m-t]; bit j of the seed is a[-j]."""
    t = TAPS[n]
    seed %= 1 << n
    if seed == 0:
        seed = 1
    a = [0] * (n - 1 + length)
    for j in range(n):
        a[n - 1 - j] = (seed >> j) & 1  # a index i <-> m = i-(n-1)
    # a[n-1] is the first output (m=0) = seed LSB; predecessors m=-j stored at n-1-j
    # the first output is given by the seed itself, so start generating at m=1
    for i in range(n, n - 1 + length):
        a[i] = a[i - n] ^ a[i - t]
    return np.array(a[n - 1:], dtype=np.uint8)


def prime_factors(x):
    out, d = set(), 2
    while d * d <= x:
        while x % d == 0:
            out.add(d)
            x //= d
        d += 1
    if x > 1:
        out.add(x)
    return out


def check_prbs():
    rnd = random.Random(404)

    # recurrence / seed layout / resumption
    for n in TAPS:
        seeds = [1, (1 << n) - 1, 1 << (n - 1), -1, -(1 << n) + 3, (1 << n) + 5, (1 << 70) + 9, 2]
        seeds += [rnd.randint(1, (1 << n) - 1) for _ in range(12)]
        seeds += [rnd.randint(-(1 << 45), 1 << 45) for _ in range(6)]
        for seed in seeds:
            if seed % (1 << n) == 0:
                continue
            length = rnd.choice([1, 2, n - 1, n, n + 1, 2 * n + 3, rnd.randint(1, 700)])
            out = quiet(PRBS, n, length, seed)
            if not isinstance(out, binary_sequence):
                fail("C04 type", f"order {n}: {type(out)}")
                continue
            ref = ref_prbs(n, seed, length)
            if out.data.shape != ref.shape or not np.array_equal(out.data, ref):
                fail("C04 recurrence/seed layout", f"order {n} seed {seed} len {length}")
            if int(out.data[0]) != (seed % (1 << n)) & 1:
                fail("C04 first output is seed LSB", f"order {n} seed {seed}")

            # resumption, any split (2 and 3 pieces)
            total = rnd.randint(2, 400)
            whole = quiet(PRBS, n, total, seed).data
            cut = rnd.randint(1, total - 1)
            a, st = quiet(PRBS, n, cut, seed, True)
            b, st2 = quiet(PRBS, n, total - cut, st, True)
            if not np.array_equal(np.concatenate([a.data, b.data]), whole):
                fail("C04 resumption (2 calls)", f"order {n} seed {seed} total {total} cut {cut}")
            _, st_whole = quiet(PRBS, n, total, seed, True)
            if st_whole != st2:
                fail("C04 resumption state", f"order {n} seed {seed} total {total} cut {cut}")
            if total >= 3:
                c1 = rnd.randint(1, total - 2)
                c2 = rnd.randint(c1 + 1, total - 1)
                p1, s1 = quiet(PRBS, n, c1, seed, True)
                p2, s2 = quiet(PRBS, n, c2 - c1, s1, True)
                p3 = quiet(PRBS, n, total - c2, s2)
                if not np.array_equal(np.concatenate([p1.data, p2.data, p3.data]), whole):
                    fail("C04 resumption (3 calls)", f"order {n} seed {seed} {c1},{c2},{total}")

    # exhaustive: every non-zero state of the small generators is a valid seed of the recurrence,
    # and stepping once from every state gives a permutation of the non-zero states
    for n in (7, 9, 11):
        nxt = set()
        for seed in range(1, 1 << n):
            out, st = quiet(PRBS, n, 1, seed, True)
            if int(out.data[0]) != seed & 1:
                fail("C04 first output is seed LSB", f"order {n} seed {seed}")
                break
            nxt.add(st)
            t = TAPS[n]
            exp = ((seed << 1) & ((1 << n) - 1)) | (((seed >> (n - 1)) ^ (seed >> (t - 1))) & 1)
            if st != exp:
                fail("C04 state transition", f"order {n} seed {seed}: {st} != {exp}")
                break
        if nxt != set(range(1, 1 << n)):
            fail("C04 all non-zero states visited", f"order {n}")

    # period exactly 2^n-1, 2^(n-1) ones per period
    for n in (7, 9, 11, 15, 20):
        P = (1 << n) - 1
        for seed in {(1 << n) - 1, rnd.randint(1, P), rnd.randint(-(1 << 40), 1 << 40) | 1}:
            if n == 20 and seed != (1 << n) - 1:
                continue
            x = quiet(PRBS, n, 2 * P, seed).data
            if not np.array_equal(x[:P], x[P:]):
                fail("C04 period divides 2^n-1", f"order {n} seed {seed}")
            for q in prime_factors(P):
                d = P // q
                if np.array_equal(x[:P], x[d:d + P]):
                    fail("C04 period exactly 2^n-1", f"order {n} seed {seed}: period {d}")
            if int(x[:P].sum()) != 1 << (n - 1):
                fail("C04 ones per period", f"order {n} seed {seed}: {int(x[:P].sum())}")
            # every non-zero n-bit window appears exactly once per period (small orders)
            if n <= 15:
                w = np.zeros(P, dtype=np.int64)
                for j in range(n):
                    w |= x[j:j + P].astype(np.int64) << j
                if len(np.unique(w)) != P or w.min() < 1:
                    fail("C04 all non-zero states visited in one cycle", f"order {n} seed {seed}")
    # default length is one period (order 7) and order 23 ones count / closure
    n = 23
    P = (1 << n) - 1
    x = quiet(PRBS, n, P + n, 12345).data
    if int(x[:P].sum()) != 1 << (n - 1) or not np.array_equal(x[:n], x[P:P + n]):
        fail("C04 period/ones", "order 23")
    ref = ref_prbs(31, 0x5A5A5A5A, 4000)
    if not np.array_equal(quiet(PRBS, 31, 4000, 0x5A5A5A5A).data, ref):
        fail("C04 recurrence", "order 31 long")

    # zero seed -> 1 with a warning
    for n in TAPS:
        for seed in (0, 1 << n, -(1 << n), 5 << n):
            with warnings.catch_warnings(record=True) as w:
                warnings.simplefilter("always")
                out = PRBS(n, 50, seed)
            if not w:
                fail("C04 zero seed warns", f"order {n} seed {seed}")
            if not np.array_equal(out.data, ref_prbs(n, 1, 50)):
                fail("C04 zero seed replaced by 1", f"order {n} seed {seed}")

    # validation
    for bad in (0, -1, -100):
        r = raises(ValueError, PRBS, 7, bad)
        if r is not True:
            fail("C04 len must be positive", f"len={bad}: {r}")
    for bad in ("20", 2.5, [3]):
        r = raises((TypeError, ValueError), PRBS, 15, bad)
        if r is not True:
            fail("C04 len must be an int", f"len={bad!r}: {r}")
    for bad in (8, 0, 1, 10, 32, 63, -7):
        r = raises(ValueError, PRBS, bad, 10)
        if r is not True:
            fail("C04 unsupported order", f"order={bad}: {r}")
        r = raises(ValueError, PRBS, bad)
        if r is not True:
            fail("C04 unsupported order", f"order={bad} (default len): {r}")

    # optional features
    if has_param(PRBS, "invert"):
        a = quiet(PRBS, 15, 300, 77).data
        b, st = quiet(PRBS, 15, 300, 77, True, invert=True)
        if not np.array_equal(a ^ 1, b.data) or st != quiet(PRBS, 15, 300, 77, True)[1]:
            fail("feature invert", "complement / state")
        if not np.array_equal(quiet(PRBS, "PRBS9", 40, 3).data, quiet(PRBS, 9, 40, 3).data):
            fail("feature order names", "PRBS9")
        if raises(ValueError, PRBS, "PRBS8", 4) is not True:
            fail("feature order names", "PRBS8 must be rejected")


# --------------------------------------------------------------------------------------
# C05  DAC / SAMPLER
# --------------------------------------------------------------------------------------
def bit_forms(bits):
    yield "".join(map(str, bits))
    yield " ".join(map(str, bits))
    yield list(bits)
    yield tuple(bits)
    yield np.array(bits)
    yield np.array(bits, dtype=bool)
    yield binary_sequence(list(bits))


def fwhm(y):
    """Width at half maximum, crossings linearly interpolated."""
    pk = int(np.argmax(y))
    half = y[pk] / 2
    i = pk
    while i > 0 and y[i - 1] >= half:
        i -= 1
    left = i - (y[i] - half) / (y[i] - y[i - 1]) if i > 0 else 0.0
    j = pk
    while j < len(y) - 1 and y[j + 1] >= half:
        j += 1
    right = j + (y[j] - half) / (y[j] - y[j + 1]) if j < len(y) - 1 else float(len(y) - 1)
    return right - left


def check_dac():
    rng = np.random.default_rng(505)
    sps_list = [2, 3, 4, 5, 7, 8, 9, 15, 16, 17, 31, 32, 33, 64, 101, 127, 128]
    for sps in sps_list:
        set_gv(sps)
        for trial in range(4):
            nb = int(rng.integers(1, 24))
            bits = rng.integers(0, 2, nb).tolist()
            Vout = float(rng.uniform(-47.9, 47.9))
            if abs(Vout) < 0.05:
                Vout = 0.7
            bias = float(rng.uniform(-47.9, 47.9))
            if trial == 0:
                Vout, bias = 1.0, 0.0
            if trial == 1:
                Vout, bias = 5, 1  # ints
            barr = np.array(bits)
            level = bias + Vout * barr  # per slot
            thr = bias + Vout / 2
            for form in bit_forms(bits):
                # NRZ
                y = DAC(form, bias=bias, Vout=Vout, pulse_shape="nrz")
                if not isinstance(y, electrical_signal) or y.len() != nb * sps or y.signal.shape != (nb * sps,):
                    fail("C05 length len(bits)*sps", f"nrz sps {sps} nb {nb}")
                    continue
                if not np.array_equal(y.signal, np.repeat(level, sps)):
                    fail("C05 NRZ slot-exact", f"sps {sps} Vout {Vout} bias {bias}")
                # RZ
                z = DAC(form, bias=bias, Vout=Vout, pulse_shape="rz")
                exp = np.full((nb, sps), float(bias))
                exp[:, : sps // 2] = level[:, None]
                if z.len() != nb * sps or not np.array_equal(z.signal, exp.ravel()):
                    fail("C05 RZ slot-exact", f"sps {sps} Vout {Vout} bias {bias}")
                # SAMPLER inverts
                for k in range(sps):
                    s = SAMPLER(y, k)
                    if not np.array_equal(s.signal, y.signal[k::sps]):
                        fail("C05 SAMPLER picks k, k+sps, ...", f"sps {sps} k {k}")
                    dec = (s.signal.real > thr) if Vout > 0 else (s.signal.real < thr)
                    if not np.array_equal(dec.astype(int), barr):
                        fail("C05 SAMPLER inverts NRZ", f"sps {sps} k {k}")
                    if k < sps // 2:
                        s = SAMPLER(z, k)
                        dec = (s.signal.real > thr) if Vout > 0 else (s.signal.real < thr)
                        if not np.array_equal(dec.astype(int), barr):
                            fail("C05 SAMPLER inverts RZ", f"sps {sps} k {k}")
            # default arguments
            y = DAC(bits)
            if y.len() != nb * sps or not np.array_equal(y.signal, np.repeat(barr.astype(float), sps)):
                fail("C05 NRZ default levels", f"sps {sps}")

        # SAMPLER on signal + noise
        n = sps * 13 + int(rng.integers(0, sps))
        sig = electrical_signal(rng.normal(size=n), rng.normal(size=n))
        for k in range(sps):
            s = SAMPLER(sig, k)
            if not (np.array_equal(s.signal, sig.signal[k::sps]) and s.noise is not None and np.array_equal(s.noise, sig.noise[k::sps])):
                fail("C05 SAMPLER signal and noise", f"sps {sps} k {k}")

    # gaussian
    for sps in [8, 9, 12, 16, 17, 25, 32, 33, 64, 77, 128]:
        set_gv(sps)
        Ts = sorted({-(-sps // 2), sps, 2 * sps, int(rng.integers(-(-sps // 2), 2 * sps + 1)), int(rng.integers(-(-sps // 2), 2 * sps + 1))})
        for m in (1, 2, 3, 4):
            for T in Ts:
                for Vout, bias in ((1.0, 0.0), (float(rng.uniform(0.5, 47)), float(rng.uniform(-47, 47))), (-3.5, 2.0)):
                    pos = 5
                    bits = [0] * 11
                    bits[pos] = 1
                    y = DAC(bits, bias=bias, Vout=Vout, pulse_shape="gaussian", T=T, m=m)
                    if y.len() != len(bits) * sps:
                        fail("C05 length len(bits)*sps", f"gaussian sps {sps}")
                        continue
                    if np.abs(y.signal.imag).max() > 1e-9 * abs(Vout) if np.iscomplexobj(y.signal) else False:
                        fail("C05 gaussian real pulse", f"sps {sps}")
                    p = (y.signal.real - bias) / Vout  # normalised pulse
                    pk = int(np.argmax(p))
                    centre = pos * sps + sps / 2
                    # flat tops: take the middle of the samples at the maximum
                    top = np.where(p >= p.max() - 1e-9)[0]
                    if min(abs(top - centre).min(), abs(top - (centre - 0.5)).min()) > 1:
                        fail("C05 gaussian peak at slot centre", f"sps {sps} T {T} m {m}: peak {pk - pos * sps}")
                    if abs(p.max() - 1) > 0.05:
                        fail("C05 gaussian reaches Vout within 5%", f"sps {sps} T {T} m {m}: {p.max()}")
                    if abs(fwhm(p) - T) > 1:
                        fail("C05 gaussian FWHM within one sample of T", f"sps {sps} T {T} m {m}: {fwhm(p)}")
                    s = SAMPLER(y, sps // 2)
                    thr = bias + Vout / 2
                    dec = (s.signal.real > thr) if Vout > 0 else (s.signal.real < thr)
                    if not np.array_equal(dec.astype(int), np.array(bits)):
                        fail("C05 SAMPLER inverts gaussian (isolated 1)", f"sps {sps} T {T} m {m}")
        # random sequences, default width and narrower
        for T in (None, -(-sps // 2), sps):
            bits = rng.integers(0, 2, 40).tolist()
            kw = {} if T is None else {"T": T}
            Vout, bias = float(rng.uniform(0.5, 40)), float(rng.uniform(-40, 40))
            y = DAC(bits, bias=bias, Vout=Vout, pulse_shape="gaussian", **kw)
            s = SAMPLER(y, sps // 2)
            if not np.array_equal((s.signal.real > bias + Vout / 2).astype(int), np.array(bits)):
                fail("C05 SAMPLER inverts gaussian", f"sps {sps} T {T}")

    # rejections
    set_gv(16)
    V = [
        (ValueError, dict(pulse_shape="triangle")),
        (ValueError, dict(pulse_shape="")),
        (ValueError, dict(Vout=50)),
        (ValueError, dict(Vout=48)),
        (ValueError, dict(Vout=-48.0)),
        (ValueError, dict(Vout=-1e3)),
        (ValueError, dict(bias=50)),
        (ValueError, dict(bias=48.0)),
        (ValueError, dict(bias=-48)),
        (TypeError, dict(Vout="5")),
        (TypeError, dict(Vout=[1.0])),
        (TypeError, dict(Vout=1 + 1j)),
        (TypeError, dict(bias=1 + 1j)),
        (TypeError, dict(bias="0")),
        (ValueError, dict(pulse_shape="gaussian", T=0)),
        (ValueError, dict(pulse_shape="gaussian", T=-4)),
        (ValueError, dict(pulse_shape="gaussian", T=33)),
        (ValueError, dict(pulse_shape="gaussian", T=48)),
        (TypeError, dict(pulse_shape="gaussian", T=8.5)),
        (TypeError, dict(pulse_shape="gaussian", T="8")),
        (ValueError, dict(pulse_shape="gaussian", T=8, m=0)),
        (ValueError, dict(pulse_shape="gaussian", m=-2)),
        (TypeError, dict(pulse_shape="gaussian", m=1.5)),
        (TypeError, dict(pulse_shape="gaussian", m="2")),
        (TypeError, dict(pulse_shape="gaussian", c=1 + 1j)),
        (TypeError, dict(pulse_shape="gaussian", c="a")),
    ]
    for exc, kw in V:
        for bits in ("010", [0, 1, 0]):
            r = raises(exc, DAC, bits, **kw)
            if r is not True:
                fail("C05 documented rejections", f"{kw}: expected {exc.__name__}, got {r}")
    # accepted edge of the ranges
    for kw in (dict(Vout=47.999), dict(Vout=-47.999), dict(bias=47.999), dict(pulse_shape="gaussian", T=32), dict(pulse_shape="gaussian", T=8, m=4, c=0.5)):
        try:
            quiet(DAC, "0110", **kw)
        except Exception as e:
            fail("C05 in-range values accepted", f"{kw}: {type(e).__name__} {e}")

    # optional features
    if has_param(DAC, "sps"):
        set_gv(16)
        y = DAC("0110", sps=5, pulse_shape="rz", Vout=2.0, bias=1.0)
        exp = np.ones((4, 5))
        exp[1:3, :2] = 3.0
        if y.len() != 20 or not np.array_equal(y.signal, exp.ravel()):
            fail("feature DAC sps", "rz waveform")
        if not np.array_equal(SAMPLER(y, 1, sps=5).signal, [1.0, 3.0, 3.0, 1.0]):
            fail("feature SAMPLER sps", "samples")
        if DAC("01", out_dtype=np.float32).signal.dtype != np.float32:
            fail("feature DAC out_dtype", "dtype")
        if not np.array_equal(DAC(iter([0, 1, 1])).signal, DAC([0, 1, 1]).signal):
            fail("feature DAC iterables", "iterator")
        if not np.array_equal(DAC("011", pulse_shape=" Gauss ").signal, DAC("011", pulse_shape="gaussian").signal):
            fail("feature DAC shape names", "gauss")


# --------------------------------------------------------------------------------------
# C06  MZM / PM / LASER
# --------------------------------------------------------------------------------------
def rand_field(rng, n, n_pol, noise):
    shape = (n,) if n_pol == 1 else (2, n)
    sig = rng.normal(size=shape) + 1j * rng.normal(size=shape)
    if rng.random() < 0.3:
        sig = sig * 10 ** rng.uniform(-3, 2)
    nz = (rng.normal(size=shape) + 1j * rng.normal(size=shape)) * 0.1 if noise else None
    return optical_signal(sig, nz)


def close(a, b, rtol=1e-12, atol=1e-13):
    return np.allclose(a, b, rtol=rtol, atol=atol)


def check_mzm():
    rng = np.random.default_rng(606)
    set_gv(16)
    for trial in range(120):
        n = int(rng.integers(1, 200))
        n_pol = int(rng.integers(1, 3))
        noise = bool(rng.integers(0, 2))
        x = rand_field(rng, n, n_pol, noise)
        Vpi = float(10 ** rng.uniform(-1, 1.5))
        bias = float(rng.uniform(-3 * Vpi, 3 * Vpi))
        loss_dB = float(rng.choice([0.0, rng.uniform(0, 20)]))
        ER_dB = float(rng.choice([0.0, 60.0, rng.uniform(0, 60)]))
        pol = str(rng.choice(["x", "y"]))
        u = rng.uniform(-4 * Vpi, 4 * Vpi, n)
        if trial % 5 == 0:
            u = np.zeros(n)
        kw = dict(bias=bias, Vpi=Vpi, loss_dB=loss_dB, ER_dB=ER_dB, pol=pol)

        theta = np.pi * (u + bias) / (2 * Vpi)
        h = np.sqrt(10 ** (-loss_dB / 10)) * (np.cos(theta) + 1j * 10 ** (-ER_dB / 20) * np.sin(theta))

        y = MZM(x, u, **kw)
        if not isinstance(y, optical_signal) or y.signal.shape != x.signal.shape or y.n_pol != x.n_pol:
            fail("C06 MZM output shape", f"trial {trial}")
            continue
        sel = 0 if pol == "x" else 1
        xin = x.signal if n_pol == 1 else x.signal[sel]
        yout = y.signal if n_pol == 1 else y.signal[sel]
        if not close(yout, xin * h, rtol=1e-11):
            fail("C06 MZM transfer function", f"trial {trial} {kw}")
        lim = np.sqrt(10 ** (-loss_dB / 10)) * np.abs(xin)
        if np.any(np.abs(yout) > lim * (1 + 1e-12) + 1e-300):
            fail("C06 MZM never amplifies", f"trial {trial} {kw}")
        if noise:
            nin = x.noise if n_pol == 1 else x.noise[sel]
            nout = y.noise if n_pol == 1 else y.noise[sel]
            if y.noise is None or not close(nout, nin * h, rtol=1e-11):
                fail("C06 MZM noise modulated like the signal", f"trial {trial}")
        elif y.noise is not None and np.any(y.noise != 0):
            fail("C06 MZM noise", f"noise appeared, trial {trial}")
        if n_pol == 2:
            if np.any(y.signal[1 - sel] != 0) or (noise and np.any(y.noise[1 - sel] != 0)):
                fail("C06 MZM unselected polarisation extinguished", f"trial {trial} pol {pol}")
        # input not modified
        # 2*Vpi periodicity of the power in the drive
        for kk in (1, -1, 2):
            y2 = MZM(x, u + 2 * Vpi * kk, **kw)
            if not np.allclose(np.abs(y2.signal) ** 2, np.abs(y.signal) ** 2, rtol=1e-9, atol=1e-12 * np.max(np.abs(x.signal)) ** 2):
                fail("C06 MZM 2*Vpi periodic power", f"trial {trial}")
        # containers
        y_es = MZM(x, electrical_signal(u), **kw)
        y_ls = MZM(x, u.tolist(), **kw)
        if not (np.array_equal(y_es.signal, y.signal) and np.array_equal(y_ls.signal, y.signal)):
            fail("C06 MZM drive containers identical", f"trial {trial}")
        if noise and not np.array_equal(y_es.noise, y.noise):
            fail("C06 MZM drive containers identical (noise)", f"trial {trial}")
        u0 = float(u[0])
        y_sc = MZM(x, u0, **kw)
        y_ar = MZM(x, np.full(n, u0), **kw)
        y_e1 = MZM(x, electrical_signal(np.full(n, u0)), **kw)
        if not (close(y_sc.signal, y_ar.signal, rtol=1e-13, atol=0) and np.array_equal(y_ar.signal, y_e1.signal)):
            fail("C06 MZM scalar drive == constant array", f"trial {trial}")
        # mismatched lengths
        if n > 2:
            for bad in (u[:-1], np.concatenate([u, u[:1]]), electrical_signal(u[:-1]), u[:-1].tolist()):
                r = raises(ValueError, MZM, x, bad, **kw)
                if r is not True:
                    fail("C06 MZM mismatched lengths raise ValueError", f"n {n}: {r}")

    # on/off power ratio equals ER_dB
    for ER_dB in [0.0, 0.5, 3, 10, 26, 30, 45.5, 60]:
        for loss_dB in (0.0, 2.0, 7.3):
            for Vpi in (1.0, 5.0, 3.3):
                n = 64
                x = optical_signal(np.full(n, 0.7 + 0.2j))
                on = MZM(x, -1.25, bias=1.25, Vpi=Vpi, loss_dB=loss_dB, ER_dB=ER_dB)  # theta = 0
                off = MZM(x, np.full(n, Vpi - 1.25), bias=1.25, Vpi=Vpi, loss_dB=loss_dB, ER_dB=ER_dB)  # theta = pi/2
                ratio = 10 * np.log10(np.abs(on.signal) ** 2 / np.abs(off.signal) ** 2)
                if not np.allclose(ratio, ER_dB, rtol=0, atol=1e-6):
                    fail("C06 MZM on/off ratio equals ER_dB", f"ER {ER_dB} loss {loss_dB} Vpi {Vpi}: {ratio[0]}")
                if not np.allclose(np.abs(on.signal) ** 2, 10 ** (-loss_dB / 10) * np.abs(x.signal) ** 2, rtol=1e-12):
                    fail("C06 MZM on-state power", f"ER {ER_dB} loss {loss_dB}")
                # sweep: extremes of the transfer over a fine drive sweep
                sweep = np.linspace(0, 2 * Vpi, 4001)
                xs = optical_signal(np.ones(sweep.size))
                pw = np.abs(MZM(xs, sweep, bias=0.0, Vpi=Vpi, loss_dB=loss_dB, ER_dB=ER_dB).signal) ** 2
                if abs(10 * np.log10(pw.max() / pw.min()) - ER_dB) > 1e-4:
                    fail("C06 MZM on/off ratio equals ER_dB (sweep)", f"ER {ER_dB}")

    r = raises(TypeError, MZM, electrical_signal(np.ones(5)), 3)
    if r is not True:
        fail("C06 MZM op_input type", str(r))

    if has_param(MZM, "return_transfer"):
        x = rand_field(rng, 50, 2, True)
        u = rng.normal(size=50)
        y, h = MZM(x, u, bias=1.0, Vpi=4.0, loss_dB=1.0, ER_dB=20.0, pol="Y", return_transfer=True)
        y0 = MZM(x, u, bias=1.0, Vpi=4.0, loss_dB=1.0, ER_dB=20.0, pol="y")
        if not (np.array_equal(y.signal, y0.signal) and close(y.signal[1], x.signal[1] * h)):
            fail("feature MZM return_transfer/pol", "values")


def check_pm():
    rng = np.random.default_rng(616)
    for trial in range(120):
        n = int(rng.integers(1, 200))
        n_pol = int(rng.integers(1, 3))
        noise = bool(rng.integers(0, 2))
        x = rand_field(rng, n, n_pol, noise)
        Vpi = float(10 ** rng.uniform(-1, 1.5))
        a = rng.uniform(-6 * Vpi, 6 * Vpi, n)
        b = rng.uniform(-6 * Vpi, 6 * Vpi, n)
        tot_in = x.signal + (x.noise if noise else 0)

        y = PM(x, a, Vpi)
        if not isinstance(y, optical_signal) or y.signal.shape != x.signal.shape or y.n_pol != x.n_pol:
            fail("C06 PM output shape", f"trial {trial}")
            continue
        tot = y.signal + (y.noise if noise else 0)
        if noise and y.noise is None:
            fail("C06 PM keeps noise", f"trial {trial}")
        if not np.allclose(np.abs(tot) ** 2, np.abs(tot_in) ** 2, rtol=1e-12, atol=0):
            fail("C06 PM leaves instantaneous power unchanged", f"trial {trial}")
        if not np.allclose(np.abs(y.signal) ** 2, np.abs(x.signal) ** 2, rtol=1e-12, atol=0):
            fail("C06 PM pure rotation of the signal", f"trial {trial}")
        rot = np.exp(1j * np.pi * a / Vpi)
        if not close(y.signal, x.signal * rot, rtol=1e-11) or (noise and not close(y.noise, x.noise * rot, rtol=1e-11)):
            fail("C06 PM phase shift pi*u/Vpi", f"trial {trial}")
        # composition
        y2 = PM(PM(x, a, Vpi), b, Vpi)
        y3 = PM(x, a + b, Vpi)
        if not close(y2.signal, y3.signal, rtol=1e-10, atol=1e-12) or (noise and not close(y2.noise, y3.noise, rtol=1e-10, atol=1e-12)):
            fail("C06 PM composes additively", f"trial {trial}")
        # containers
        y_es = PM(x, electrical_signal(a), Vpi)
        if not np.array_equal(y_es.signal, y.signal) or (noise and not np.array_equal(y_es.noise, y.noise)):
            fail("C06 PM drive containers identical", f"trial {trial}")
        a0 = float(a[0])
        y_sc = PM(x, a0, Vpi)
        y_ar = PM(x, np.full(n, a0), Vpi)
        y_e1 = PM(x, electrical_signal(np.full(n, a0)), Vpi)
        if not (np.array_equal(y_sc.signal, y_ar.signal) and np.array_equal(y_ar.signal, y_e1.signal)):
            fail("C06 PM scalar drive == constant array", f"trial {trial}")
        y_i = PM(x, 2, Vpi)
        if not close(y_i.signal, x.signal * np.exp(2j * np.pi / Vpi), rtol=1e-11):
            fail("C06 PM int drive", f"trial {trial}")
        # default Vpi = 5 V (gv.Vpi not defined)
        if not hasattr(gv, "Vpi"):
            if not close(PM(x, a).signal, x.signal * np.exp(1j * np.pi * a / 5.0), rtol=1e-11):
                fail("C06 PM default Vpi", f"trial {trial}")
        if n > 2:
            for bad in (a[:-1], np.concatenate([a, a[:1]]), electrical_signal(a[:-1])):
                r = raises(ValueError, PM, x, bad, Vpi)
                if r is not True:
                    fail("C06 PM mismatched lengths raise ValueError", f"n {n}: {r}")
    r = raises(TypeError, PM, electrical_signal(np.ones(5)), 3.0)
    if r is not True:
        fail("C06 PM op_input type", str(r))

    if has_param(PM, "loss_dB"):
        x = rand_field(rng, 30, 1, True)
        y = PM(x, 1.0, 5.0, loss_dB=3.0)
        if not close(np.abs(y.signal) ** 2, 10 ** -0.3 * np.abs(x.signal) ** 2):
            fail("feature PM loss_dB", "power")
        if not np.array_equal(PM(x, [0.5] * 30, 5.0).signal, PM(x, np.full(30, 0.5), 5.0).signal):
            fail("feature PM list drive", "values")


def check_laser():
    rng = np.random.default_rng(626)
    np.random.seed(626)
    for sps, R in ((16, 1e9), (8, 10e9), (32, 2.5e9)):
        set_gv(sps, R)
        fs = gv.fs
        for trial in range(25):
            n = int(rng.choice([1, 2, 17, 256, 1000, 4096]))
            t = np.arange(n) * gv.dt
            p = float(rng.uniform(-40, 30))
            P = 1e-3 * 10 ** (p / 10)
            lw = [None, 0.0, 1e3, 1e5, 10e6, 1e9][int(rng.integers(0, 6))]
            df = [None, 0.0, float(rng.uniform(-fs / 2, fs / 2)), float(rng.uniform(-fs / 2, fs / 2)) * 0.999][int(rng.integers(0, 4))]
            y = LASER(t, p, lw=lw, df=df)
            if not isinstance(y, optical_signal) or y.signal.shape != (n,):
                fail("C06 LASER output shape", f"n {n}")
                continue
            tot = y.signal + (y.noise if y.noise is not None else 0)
            if not np.allclose(np.abs(tot) ** 2, P, rtol=1e-12, atol=0):
                fail("C06 LASER |E|^2 = P without RIN", f"p {p} lw {lw} df {df}")
        # keyword / positional forms
        t = np.arange(512) * gv.dt
        for call in (lambda: LASER(t, 3.0), lambda: LASER(t, p=3.0), lambda: LASER(t=t, p=3.0, lw=None, rin=None, df=None)):
            if not np.allclose(np.abs(call().signal) ** 2, 1e-3 * 10 ** 0.3, rtol=1e-12, atol=0):
                fail("C06 LASER |E|^2 = P", "call forms")
        if not np.allclose(LASER(t, 10).signal, np.sqrt(1e-2), rtol=1e-12):
            fail("C06 LASER ideal CW", "no phase terms -> constant real field")

        # spectral peak at df
        n = 4096
        t = np.arange(n) * gv.dt
        f = np.fft.fftfreq(n, gv.dt)
        for df in [0.0, fs / 8, -fs / 4, 0.4 * fs, -0.49 * fs, float(rng.uniform(-0.49, 0.49)) * fs, 1e6, float(f[37]), float(f[-100])]:
            for lw in (None, 0.0):
                y = LASER(t, float(rng.uniform(-10, 10)), lw=lw, df=df)
                S = np.abs(np.fft.fft(y.signal))
                fp = f[int(np.argmax(S))]
                if abs(fp - df) > fs / n * 0.5000001:
                    fail("C06 LASER spectral peak at df", f"df {df}: peak {fp}")
            # narrow linewidth: peak within a few linewidth-limited bins
            y = LASER(t, 0.0, lw=1e3, df=df)
            S = np.abs(np.fft.fft(y.signal))
            fp = f[int(np.argmax(S))]
            if abs(fp - df) > 2 * fs / n:
                fail("C06 LASER spectral peak at df (1 kHz linewidth)", f"df {df}: peak {fp}")
        # offsets at the Nyquist limit are accepted
        for df in (fs / 2, -fs / 2):
            try:
                y = LASER(t, 0.0, df=df)
                if not np.allclose(np.abs(y.signal) ** 2, 1e-3, rtol=1e-12):
                    fail("C06 LASER |E|^2 = P", "df at Nyquist")
            except Exception as e:
                fail("C06 LASER offsets within Nyquist accepted", f"{df}: {type(e).__name__} {e}")

        # phase noise statistics are those of a Wiener process of the given linewidth
        n = 20000
        t = np.arange(n) * gv.dt
        lw = 5e6
        y = LASER(t, 0.0, lw=lw)
        dphi = np.angle(y.signal[1:] * np.conj(y.signal[:-1]))
        var = 2 * np.pi * lw * gv.dt
        if abs(dphi.var() / var - 1) > 0.1 or abs(dphi.mean()) > 5 * np.sqrt(var / n):
            fail("C06 LASER phase noise variance 2*pi*lw*dt", f"{dphi.var()} vs {var}")

    if has_param(LASER, "seed"):
        set_gv(16)
        t = np.arange(300) * gv.dt
        a = LASER(t, 1.0, lw=1e6, rin=-150, df=1e8, seed=5)
        b = LASER(t, 1.0, lw=1e6, rin=-150, df=1e8, seed=5)
        if not np.array_equal(a.signal, b.signal):
            fail("feature LASER seed", "not reproducible")
        c = LASER(t, 1.0, lw=1e6, df=1e8, seed=5, phi0=0.3)
        if not np.allclose(np.abs(c.signal) ** 2, 1e-3 * 10 ** 0.1, rtol=1e-12):
            fail("feature LASER phi0", "power")
        if not np.allclose(LASER(list(t), 1.0).signal, LASER(t, 1.0).signal):
            fail("feature LASER list t", "values")


def main():
    warnings.filterwarnings("ignore", category=DeprecationWarning)
    checks = [check_prbs, check_dac, check_mzm, check_pm, check_laser]
    for chk in checks:
        try:
            chk()
        except SystemExit:
            raise
        except Exception as e:  # an unexpected exception is a failure of the clause under test
            import traceback

            traceback.print_exc()
            fail(chk.__name__, f"unexpected {type(e).__name__}: {e}")
        finally:
            gv.clean() if hasattr(gv, "clean") else None
    finish()


if __name__ == "__main__":
    main()
