"""Contract check for BPF, EDFA, DM, FIBER, LPF and PD (properties C07 .. C11).

Prints PASS and exits 0 when every sampled clause holds, prints the failing clauses and exits 1 otherwise.
`opticomlib` is imported from PYTHONPATH.
"""
import os
import sys

_here = os.path.dirname(os.path.abspath(__file__))
if sys.path and os.path.abspath(sys.path[0] or os.getcwd()) == _here:
    del sys.path[0]  # the package comes from PYTHONPATH, not from the directory of this script

import inspect
import warnings

import numpy as np
import scipy.signal as sg
from numpy.fft import fft, ifft, fftfreq, fftshift, ifftshift
from scipy.constants import k as kB, e as qe, h as hP, pi

warnings.simplefilter("ignore")

import opticomlib
from opticomlib import gv, optical_signal, electrical_signal
from opticomlib.devices import BPF, EDFA, DM, FIBER, LPF, PD

FAILURES = []


def check(cond, clause, detail=""):
    if not cond:
        FAILURES.append(f"{clause}: {detail}")
        print(f"FAIL {clause}: {detail}", flush=True)
    return cond


def rel_err(a, b):
    a = np.asarray(a)
    b = np.asarray(b)
    scale = max(np.abs(b).max(), 1e-300)
    return np.abs(a - b).max() / scale


def has_param(func, name):
    return name in inspect.signature(func).parameters


def set_fs(sps, R):
    with warnings.catch_warnings():
        warnings.simplefilter("ignore")
        gv(sps=sps, R=R)


def rand_field(rng, n, n_pol, amp=1.0):
    shape = (n,) if n_pol == 1 else (2, n)
    return amp * (rng.standard_normal(shape) + 1j * rng.standard_normal(shape)) / np.sqrt(2)


def energy(x):
    return np.sum(np.abs(x) ** 2, axis=-1)


def w_of(n):
    return 2 * pi * fftfreq(n) * gv.fs


RATES = [(16, 1e9), (8, 10e9), (32, 2.5e9), (7, 3e9)]

# ----------------------------------------------------------------------------------------------------------
# C07
# ----------------------------------------------------------------------------------------------------------


def check_C07():
    rng = np.random.default_rng(707)
    for sps, R in RATES:
        set_fs(sps, R)
        for n in (17, 64, 101, 256, 333):
            for n_pol in (1, 2):
                x = rand_field(rng, n, n_pol, amp=rng.uniform(0.01, 2))
                inp = optical_signal(x)
                check(inp.n_pol == n_pol, "C07/setup", "n_pol of the sampled input")
                w = w_of(n)
                scale = 1 / (2 * pi * gv.fs) ** 2 * 1e24  # D giving a phase of 1/2 rad at w = 2*pi*fs
                D1, D2 = rng.uniform(-40, 40, 2) * scale * rng.choice([1, 0.01, 10])

                # DM is the documented filter
                out = DM(inp, D1)
                ref = ifft(fft(x, axis=-1) * np.exp(-1j * D1 * 1e-24 * w**2 / 2), axis=-1)
                check(rel_err(out.signal, ref) < 1e-9, "C07/DM filter", f"n={n} n_pol={n_pol} D={D1}")
                check(out.signal.shape == x.shape and out.n_pol == n_pol, "C07/DM layout", f"{out.signal.shape} vs {x.shape}")
                check(isinstance(out, optical_signal), "C07/DM type", "")
                # energy
                check(np.allclose(energy(out.signal), energy(x), rtol=1e-10, atol=0), "C07/DM energy", f"n={n} D={D1}")
                # inverse
                back = DM(DM(inp, D1), -D1)
                check(rel_err(back.signal, x) < 1e-9, "C07/DM inverse", f"n={n} D={D1}")
                # additivity
                a = DM(DM(inp, D2), D1)
                b = DM(inp, D1 + D2)
                check(rel_err(a.signal, b.signal) < 1e-9, "C07/DM additivity", f"n={n} D1={D1} D2={D2}")
                # retH is the applied filter
                out2, H = DM(inp, D1, retH=True)
                check(np.shape(H) == (n,), "C07/DM retH shape", f"{np.shape(H)}")
                ref2 = ifft(fft(x, axis=-1) * ifftshift(H), axis=-1)
                check(rel_err(out2.signal, ref2) < 1e-9, "C07/DM retH", f"n={n} D={D1}")
                check(rel_err(out2.signal, out.signal) < 1e-12, "C07/DM retH output", "")
                # input untouched
                check(np.array_equal(inp.signal, x), "C07/DM input unchanged", "")

                # FIBER, gamma = 0
                L = rng.uniform(0.1, 100)
                b2 = rng.uniform(-25, 25) * rng.choice([1, 0.1]) * scale / 40
                b3 = rng.uniform(-0.2, 0.2) * scale / 40 / (2 * pi * gv.fs * 1e-12)
                alpha = rng.choice([0.0, rng.uniform(0, 0.5)])
                f = FIBER(inp, length=L, beta_2=b2)
                d = DM(inp, b2 * L)
                check(rel_err(f.signal, d.signal) < 1e-9, "C07/FIBER = DM", f"n={n} L={L} b2={b2}")
                check(f.signal.shape == x.shape and f.n_pol == n_pol, "C07/FIBER layout", "")

                f = FIBER(inp, length=L, alpha=alpha, beta_2=b2, beta_3=b3)
                wps = w * 1e-12
                Href = np.exp(-alpha * L / 4.343 / 2 - 1j * b2 * L * wps**2 / 2 - 1j * b3 * L * wps**3 / 6)
                ref = ifft(fft(x, axis=-1) * Href, axis=-1)
                check(rel_err(f.signal, ref) < 1e-9, "C07/FIBER filter", f"n={n} L={L} a={alpha} b2={b2} b3={b3}")
                Hexact = np.exp(-alpha * L * np.log(10) / 10 / 2 - 1j * b2 * L * wps**2 / 2 - 1j * b3 * L * wps**3 / 6)
                ref = ifft(fft(x, axis=-1) * Hexact, axis=-1)
                check(rel_err(f.signal, ref) < 1e-3, "C07/FIBER filter (dB loss)", f"n={n} L={L} a={alpha}")
                # power law
                p_in = np.mean(np.abs(x) ** 2, axis=-1)
                p_out = np.mean(np.abs(f.signal) ** 2, axis=-1)
                check(np.allclose(p_out, p_in * 10 ** (-alpha * L / 10), rtol=1e-3), "C07/FIBER loss", f"L={L} a={alpha}")
                # spans add
                L2 = rng.uniform(0.1, 50)
                two = FIBER(FIBER(inp, length=L, alpha=alpha, beta_2=b2, beta_3=b3), length=L2, alpha=alpha, beta_2=b2, beta_3=b3)
                one = FIBER(inp, length=L + L2, alpha=alpha, beta_2=b2, beta_3=b3)
                check(rel_err(two.signal, one.signal) < 1e-9, "C07/FIBER spans", f"L={L}+{L2}")


# ----------------------------------------------------------------------------------------------------------
# C08
# ----------------------------------------------------------------------------------------------------------


def nlse_reference(x, L, alpha_db, b2, b3, gamma, steps):
    """Fixed (small) step symmetric split-step with the nonlinear phase integrated over the lossy step."""
    a = alpha_db * np.log(10) / 10
    n = x.shape[-1]
    w = w_of(n) * 1e-12
    h = L / steps
    half = np.exp((-a / 2 - 1j / 2 * b2 * w**2 - 1j / 6 * b3 * w**3) * h / 2)
    A = x.astype(complex)
    for _ in range(steps):
        A = ifft(half * fft(A, axis=-1), axis=-1)
        A = A * np.exp(1j * gamma * np.abs(A) ** 2 * h)
        A = ifft(half * fft(A, axis=-1), axis=-1)
    return A


def pulse_train(rng, n, peak, first_zero=0):
    t = np.arange(n)
    x = np.zeros(n, complex)
    for c in rng.uniform(0.15, 0.85, 3) * n:
        x += rng.uniform(0.3, 1) * np.exp(-((t - c) ** 2) / (2 * (n / 24) ** 2)) * np.exp(1j * rng.uniform(0, 2 * pi))
    x[:first_zero] = 0
    return x / np.abs(x).max() * np.sqrt(peak)


def check_C08():
    rng = np.random.default_rng(808)
    set_fs(16, 10e9)

    # energy / finiteness / shape, whatever phi_max
    cases = 0
    for n in (64, 129):
        for n_pol in (1, 2):
            for phi_max in (0.1, 0.02, 5e-3):
                for kind in ("pulses", "random"):
                    peak = rng.uniform(0.01, 0.5)
                    if kind == "pulses":
                        x = pulse_train(rng, n, peak, first_zero=rng.choice([0, 5]))
                        if n_pol == 2:
                            x = np.array([x, 0.5 * pulse_train(rng, n, peak)])
                    else:
                        x = rand_field(rng, n, n_pol)
                        x[..., :3] = 0
                        x = x / np.abs(x).max() * np.sqrt(peak)
                    tot_peak = np.sum(np.abs(np.atleast_2d(x)) ** 2, axis=0).max()
                    L = rng.uniform(1, 100)
                    gamma = min(rng.uniform(0, 5), 2.0 / (tot_peak * L))  # modest number of steps
                    alpha = rng.choice([0.0, rng.uniform(0, 0.5)])
                    b2 = rng.uniform(-25, 25)
                    b3 = rng.uniform(-0.2, 0.2)
                    out = FIBER(optical_signal(x), length=L, alpha=alpha, beta_2=b2, beta_3=b3, gamma=gamma, phi_max=phi_max)
                    tag = f"n={n} n_pol={n_pol} phi={phi_max} L={L:.3g} a={alpha:.3g} b2={b2:.3g} g={gamma:.3g}"
                    check(np.all(np.isfinite(out.signal)), "C08/finite", tag)
                    check(out.signal.shape == x.shape and out.n_pol == n_pol, "C08/shape", tag)
                    check(np.allclose(energy(out.signal), energy(x) * 10 ** (-alpha * L / 10), rtol=1e-3, atol=1e-300), "C08/energy", tag)
                    cases += 1

    # SPM closed form
    for n_pol in (1, 2):
        for alpha in (0.0, 0.2, 0.5):
            for phi_max in (0.1, 0.01):
                n = 96
                x = pulse_train(rng, n, 0.5, first_zero=4)
                if n_pol == 2:
                    x = np.array([x, np.zeros(n)])
                L = rng.uniform(5, 100)
                a = alpha / 4.343
                Leff = L if alpha == 0 else (1 - np.exp(-a * L)) / a
                gamma = min(5.0, 6.0 / (0.5 * Leff))
                out = FIBER(optical_signal(x), length=L, alpha=alpha, gamma=gamma, phi_max=phi_max)
                ref = x * np.exp(-a * L / 2) * np.exp(1j * gamma * np.abs(x) ** 2 * Leff)
                err = rel_err(out.signal, ref)
                tol = 1e-9 if alpha == 0 else 10 * phi_max
                check(err < tol, "C08/SPM closed form", f"n_pol={n_pol} a={alpha} phi={phi_max} L={L:.3g} g={gamma:.3g} err={err:.3g}")

    # convergence to the NLSE
    for n_pol in (1, 2):
        for (L, alpha, b2, b3, gamma, peak) in [
            (20, 0.2, -20, 0.1, 2.0, 0.1),
            (40, 0.0, 15, -0.2, 1.3, 0.05),
            (5, 0.3, -25, 0.0, 1.0, 1e-3),  # a single step would be longer than the fibre
            (80, 0.5, 5, 0.2, 5.0, 0.02),
        ]:
            n = 128
            x = pulse_train(rng, n, peak, first_zero=6)
            if n_pol == 2:
                x = np.array([x, np.zeros(n)])
            ref = nlse_reference(x, L, alpha, b2, b3, gamma, 4000)
            errs = []
            for phi_max in (0.1, 0.03, 0.01, 3e-3):
                out = FIBER(optical_signal(x), length=L, alpha=alpha, beta_2=b2, beta_3=b3, gamma=gamma, phi_max=phi_max)
                errs.append(rel_err(out.signal, ref))
                check(errs[-1] < 3 * phi_max + 1e-3, "C08/NLSE convergence", f"n_pol={n_pol} L={L} phi={phi_max} err={errs[-1]:.3g}")
            check(errs[-1] <= errs[0] + 1e-3, "C08/NLSE error decreases", f"{errs}")

    # one polarisation == x of (x, 0)
    for _ in range(6):
        n = int(rng.choice([64, 97]))
        x = pulse_train(rng, n, rng.uniform(0.05, 0.5), first_zero=3)
        L = rng.uniform(1, 40)
        gamma = min(rng.uniform(0.5, 5), 3.0 / (0.5 * L))
        kw = dict(length=L, alpha=rng.uniform(0, 0.5), beta_2=rng.uniform(-25, 25), beta_3=rng.uniform(-0.2, 0.2), gamma=gamma, phi_max=0.02)
        one = FIBER(optical_signal(x), **kw)
        two = FIBER(optical_signal(np.array([x, np.zeros(n)])), **kw)
        check(rel_err(two.signal[0], one.signal) < 1e-10, "C08/one-pol = x-pol", f"{kw}")
        check(np.abs(two.signal[1]).max() == 0, "C08/empty y stays empty", "")


# ----------------------------------------------------------------------------------------------------------
# C11
# ----------------------------------------------------------------------------------------------------------


def check_C11():
    rng = np.random.default_rng(1111)
    for sps, R in RATES:
        set_fs(sps, R)
        fs = gv.fs
        for order in range(1, 9):
            fc = rng.uniform(0.01, 0.45) * fs
            n = int(rng.choice([40, 257, 1000]))
            # LPF -----------------------------------------------------------------------------------
            x, y = rng.standard_normal((2, n))
            a, b = rng.uniform(-3, 3, 2)
            fx, fy, fxy = LPF(x, fc, n=order), LPF(y, fc, n=order), LPF(a * x + b * y, fc, n=order)
            tag = f"fs={fs:.3g} order={order} fc/fs={fc/fs:.3f} n={n}"
            check(isinstance(fx, electrical_signal), "C11/LPF type", tag)
            check(fx.signal.shape == (n,), "C11/LPF length", tag)
            check(rel_err(fxy.signal, a * fx.signal + b * fy.signal) < 1e-9, "C11/LPF linear", tag)
            c = LPF(electrical_signal(x, y), fc, n=order)
            check(rel_err(c.signal, fx.signal) < 1e-12 and rel_err(c.noise, fy.signal) < 1e-12, "C11/LPF signal+noise", tag)
            check(c.signal.shape == (n,) and c.noise.shape == (n,), "C11/LPF container length", tag)
            c2 = LPF(electrical_signal(x), fc, n=order)
            check(rel_err(c2.signal, fx.signal) < 1e-12 and c2.noise is None, "C11/LPF container", tag)
            k = rng.uniform(-5, 5)
            check(rel_err(LPF(np.full(n, k), fc, n=order).signal, np.full(n, k)) < 1e-9, "C11/LPF constant", tag)
            # explicit fs
            other = LPF(x, fc / 2, n=order, fs=fs / 2)
            check(rel_err(other.signal, fx.signal) < 1e-9, "C11/LPF fs argument", tag)

            # BPF -----------------------------------------------------------------------------------
            for n_pol in (1, 2):
                u, v = rand_field(rng, n, n_pol), rand_field(rng, n, n_pol)
                ca, cb = rng.standard_normal(2) + 1j * rng.standard_normal(2)
                bu, bv = BPF(optical_signal(u), 2 * fc, n=order), BPF(optical_signal(v), 2 * fc, n=order)
                buv = BPF(optical_signal(ca * u + cb * v), 2 * fc, n=order)
                check(isinstance(bu, optical_signal) and bu.n_pol == n_pol, "C11/BPF type", tag)
                check(bu.signal.shape == u.shape, "C11/BPF length", tag)
                check(rel_err(buv.signal, ca * bu.signal + cb * bv.signal) < 1e-9, "C11/BPF linear", tag)
                both = BPF(optical_signal(u, v), 2 * fc, n=order)
                check(rel_err(both.signal, bu.signal) < 1e-12 and rel_err(both.noise, bv.signal) < 1e-12, "C11/BPF signal+noise", tag)
                if n_pol == 2:
                    px, py = BPF(optical_signal(u[0]), 2 * fc, n=order), BPF(optical_signal(u[1]), 2 * fc, n=order)
                    check(rel_err(bu.signal[0], px.signal) < 1e-12 and rel_err(bu.signal[1], py.signal) < 1e-12, "C11/BPF polarisations", tag)
                kc = complex(*rng.uniform(-2, 2, 2))
                const = np.full(u.shape, kc)
                check(rel_err(BPF(optical_signal(const), 2 * fc, n=order).signal, const) < 1e-9, "C11/BPF constant", tag)
                # real and imaginary parts see the LPF of the same cutoff
                if n_pol == 1:
                    check(rel_err(bu.signal.real, LPF(u.real, fc, n=order).signal) < 1e-9, "C11/BPF = LPF on quadratures", tag)

    # tones: -6 dB at cutoff, monotone attenuation, no power increase
    set_fs(16, 1e9)
    fs = gv.fs
    n = 8192
    t = np.arange(n) / fs
    mid = slice(n // 4, 3 * n // 4)
    for order in range(1, 9):
        for fc in np.array([0.0101, 0.05, 0.2, 0.33, 0.449]) * fs:
            tone = np.cos(2 * pi * fc * t + rng.uniform(0, 2 * pi))
            out = LPF(tone, fc, n=order).signal
            gain = np.sqrt(2 * np.mean(out[mid] ** 2))
            if fc / fs > 0.02:  # enough cycles in the window to measure the amplitude from the power
                check(abs(20 * np.log10(gain) + 6.0206) < 0.1, "C11/LPF -6 dB", f"order={order} fc/fs={fc/fs:.3f} gain={20*np.log10(gain):.3f} dB")
            ctone = np.exp(1j * (2 * pi * fc * t + 0.3))
            for sign in (1, -1):
                o = BPF(optical_signal(ctone if sign == 1 else ctone.conj()), 2 * fc, n=order).signal
                g = np.abs(o[mid]).mean()
                check(abs(20 * np.log10(g) + 6.0206) < 0.1, "C11/BPF -6 dB", f"order={order} fc/fs={sign*fc/fs:.3f} gain={20*np.log10(g):.3f} dB")

            freqs = np.linspace(0.002, 0.499, 25) * fs
            gains = []
            for f0 in freqs:
                tn = np.exp(2j * pi * f0 * t)
                o = BPF(optical_signal(tn), 2 * fc, n=order).signal
                gains.append(np.abs(o[mid]).mean())
                p_out = np.mean(np.abs(o) ** 2)
                check(p_out <= 1 + 1e-9, "C11/BPF tone power", f"order={order} fc/fs={fc/fs:.3f} f0/fs={f0/fs:.3f} p={p_out}")
                ro = LPF(np.cos(2 * pi * f0 * t), fc, n=order).signal
                check(np.mean(ro**2) <= 0.5 * (1 + 1e-6) + 1e-9, "C11/LPF tone power", f"order={order} fc/fs={fc/fs:.3f} f0/fs={f0/fs:.3f} p={np.mean(ro**2)}")
            gains = np.array(gains)
            check(np.all(np.diff(gains) <= 1e-7), "C11/monotone attenuation", f"order={order} fc/fs={fc/fs:.3f}")
            check(np.all(gains <= 1 + 1e-9), "C11/gain <= 1", f"order={order} fc/fs={fc/fs:.3f}")

    # zero phase: symmetric pulse -> symmetric response
    for order in range(1, 9):
        for n in (401, 1001):
            fc = rng.uniform(0.01, 0.45) * fs
            k = np.arange(n) - n // 2
            p = np.exp(-(k**2) / (2 * rng.uniform(2, 20) ** 2))
            o = LPF(p, fc, n=order).signal
            check(rel_err(o, o[::-1]) < 1e-9, "C11/LPF zero delay", f"order={order} n={n}")
            check(np.argmax(o) == n // 2, "C11/LPF peak instant", f"order={order} n={n}")
            o = BPF(optical_signal(p * (1 + 0.5j)), 2 * fc, n=order).signal
            check(rel_err(o, o[::-1]) < 1e-9, "C11/BPF zero delay", f"order={order} n={n}")

    # retH
    for sps, R in RATES:
        set_fs(sps, R)
        fs = gv.fs
        for order in range(1, 9):
            for n in (64, 101):
                fc = rng.uniform(0.01, 0.45) * fs
                x = rng.standard_normal(n)
                out, H = LPF(x, fc, n=order, retH=True)
                check(rel_err(out.signal, LPF(x, fc, n=order).signal) < 1e-12, "C11/retH output", "")
                check(np.shape(H) == (n,), "C11/retH grid", f"{np.shape(H)}")
                f = fftshift(fftfreq(n)) * fs
                z, p_, k_ = sg.bessel(order, fc, btype="low", fs=fs, output="zpk", norm="mag")
                _, Href = sg.freqz_zpk(z, p_, k_, worN=2 * pi * f / fs)
                check(np.abs(H - Href).max() < 1e-6, "C11/retH prototype", f"order={order} n={n} fc/fs={fc/fs:.3f} err={np.abs(H - Href).max():.3g}")


# ----------------------------------------------------------------------------------------------------------
# C09
# ----------------------------------------------------------------------------------------------------------

SELECTIONS = {
    "ase-only": ("ase",),
    "thermal-only": ("thermal",),
    "shot-only": ("shot",),
    "ase-thermal": ("ase", "thermal"),
    "ase-shot": ("ase", "shot"),
    "thermal-shot": ("thermal", "shot"),
    "all": ("ase", "thermal", "shot"),
}


def spell(sel, rng):
    return "".join(ch.upper() if rng.random() < 0.5 else ch for ch in sel)


def expect_raises(exc, clause, func, *args, **kw):
    try:
        func(*args, **kw)
    except exc:
        return True
    except Exception as err:  # noqa
        return check(False, clause, f"raised {type(err).__name__} instead of {exc.__name__}")
    return check(False, clause, f"did not raise {exc.__name__}")


def check_C09():
    rng = np.random.default_rng(909)

    for sps, R in RATES:
        set_fs(sps, R)
        fs = gv.fs
        for n_pol in (1, 2):
            for with_noise in (False, True):
                n = int(rng.choice([17, 100, 513]))
                x = rand_field(rng, n, n_pol, amp=rng.uniform(1e-3, 0.1))
                nz = rand_field(rng, n, n_pol, amp=1e-3) if with_noise else None
                inp = optical_signal(x, nz)
                BW = rng.uniform(0.02, 0.49) * fs
                r = rng.uniform(0.05, 1)
                Rl = rng.uniform(1, 1e3)
                T = rng.uniform(0, 400)
                idark = rng.uniform(0, 1e-7)
                tag = f"fs={fs:.3g} n={n} n_pol={n_pol} noise={with_noise} BW/fs={BW/fs:.3f}"

                P = np.abs(x) ** 2 if n_pol == 1 else (np.abs(x) ** 2).sum(axis=0)
                ref = LPF(Rl * r * P, BW).signal

                for sel in SELECTIONS:
                    o = PD(inp, BW, r=r, T=T, R_load=Rl, include_noise=spell(sel, rng), i_dark=idark, Fn=rng.uniform(0, 6))
                    check(isinstance(o, electrical_signal), "C09/type", tag)
                    check(o.signal.shape == (n,) and o.noise.shape == (n,), "C09/length", f"{tag} sel={sel}")
                    check(rel_err(o.signal, ref) < 1e-9, "C09/signal = LPF(R r |E|^2)", f"{tag} sel={sel}")
                    check(np.isrealobj(o.signal) and np.isrealobj(o.noise), "C09/real output", tag)

                # ase-only is deterministic
                o = PD(inp, BW, r=r, T=T, R_load=Rl, include_noise="ase-only", i_dark=idark)
                if with_noise:
                    beat = 2 * (x * nz.conj()).real + np.abs(nz) ** 2
                    beat = beat if n_pol == 1 else beat.sum(axis=0)
                else:
                    beat = np.zeros(n)
                refn = LPF(Rl * (r * beat + idark), BW).signal
                check(np.abs(o.noise - refn).max() <= 1e-9 * max(np.abs(refn).max(), 1e-300), "C09/ase terms + dark offset", tag)
                # T = 0: the thermal term vanishes, only the dark offset is left
                o = PD(inp, BW, r=r, T=0, R_load=Rl, include_noise="thermal-only", i_dark=idark)
                check(np.abs(o.noise - Rl * idark).max() <= 1e-9 * Rl * idark + 1e-300, "C09/thermal at T=0", tag)

                # invariances of the signal part
                base = PD(inp, BW, r=r, T=T, R_load=Rl, i_dark=idark).signal
                again = PD(inp, BW, r=r, T=T, R_load=Rl, i_dark=idark).signal
                check(np.array_equal(base, again), "C09/deterministic signal", tag)
                ph = np.exp(1j * rng.uniform(0, 2 * pi))
                check(rel_err(PD(optical_signal(x * ph, nz), BW, r=r, R_load=Rl).signal, base) < 1e-9, "C09/phase invariance", tag)
                tph = np.exp(1j * rng.uniform(0, 2 * pi, n))
                check(rel_err(PD(optical_signal(x * tph, nz), BW, r=r, R_load=Rl).signal, base) < 1e-9, "C09/phase(t) invariance", tag)
                if n_pol == 2:
                    th, p1, p2 = rng.uniform(0, 2 * pi, 3)
                    U = np.array([[np.cos(th) * np.exp(1j * p1), -np.sin(th) * np.exp(1j * p2)],
                                  [np.sin(th) * np.exp(-1j * p2), np.cos(th) * np.exp(-1j * p1)]])
                    check(rel_err(PD(optical_signal(U @ x), BW, r=r, R_load=Rl).signal, base) < 1e-9, "C09/polarisation invariance", tag)
                r2 = rng.uniform(0.05, 1)
                check(rel_err(PD(inp, BW, r=r2, R_load=Rl).signal, base * r2 / r) < 1e-9, "C09/linear in r", tag)
                check(rel_err(PD(inp, BW, r=r, R_load=3 * Rl).signal, 3 * base) < 1e-9, "C09/linear in R_load", tag)
                s = rng.uniform(0.1, 4)
                check(rel_err(PD(optical_signal(s * x, nz), BW, r=r, R_load=Rl).signal, s**2 * base) < 1e-9, "C09/quadratic in amplitude", tag)

                # CW
                Pcw = rng.uniform(1e-6, 1e-1)
                amp = np.sqrt(Pcw) * np.exp(1j * rng.uniform(0, 2 * pi))
                if n_pol == 1:
                    cw = np.full(n, amp)
                else:
                    split = rng.uniform(0, 1)
                    cw = np.array([np.full(n, amp * np.sqrt(split)), np.full(n, amp * np.sqrt(1 - split) * 1j)])
                o = PD(optical_signal(cw), BW, r=r, R_load=Rl)
                check(rel_err(o.signal, np.full(n, r * Pcw * Rl)) < 1e-9, "C09/CW", tag)

    # errors
    set_fs(16, 1e9)
    inp = optical_signal(np.ones(100), np.random.default_rng(1).normal(0, 0.1, 100), n_pol=2)
    expect_raises(TypeError, "C09/TypeError input", PD, electrical_signal([1, 2, 3] * 20), 5e9)
    expect_raises(TypeError, "C09/TypeError input ndarray", PD, np.ones(100), 5e9)
    for bad in (0, -0.1, 1.5, 2):
        expect_raises(ValueError, "C09/ValueError r", PD, inp, 5e9, r=bad)
    for bad in ("1", [0.5], None, 0.5j):
        expect_raises(TypeError, "C09/TypeError r", PD, inp, 5e9, r=bad)
    for bad in (-1, -1e-9):
        expect_raises(ValueError, "C09/ValueError T", PD, inp, 5e9, T=bad)
    for bad in ("300", [300], None):
        expect_raises(TypeError, "C09/TypeError T", PD, inp, 5e9, T=bad)
    for bad in (-50, -1e-3):
        expect_raises(ValueError, "C09/ValueError R_load", PD, inp, 5e9, R_load=bad)
    for bad in ("50", (50,), None):
        expect_raises(TypeError, "C09/TypeError R_load", PD, inp, 5e9, R_load=bad)
    for bad in (True, 1, None, ["all"]):
        expect_raises(TypeError, "C09/TypeError include_noise", PD, inp, 5e9, include_noise=bad)
    for bad in ("", "foo", "ase", "thermal", "shot", "every", "ase-only-x", "allx", "none", "only"):
        expect_raises(ValueError, "C09/ValueError include_noise", PD, inp, 5e9, include_noise=bad)
    # limits of the valid ranges
    o = PD(inp, 5e9, r=1, T=0, R_load=1e-3)
    check(o.signal.shape == (100,), "C09/range limits accepted", "")
    o = PD(inp, 5e9, r=1, T=0, R_load=50, i_dark=0, Fn=0)
    check(o.signal.shape == (100,), "C09/range limits accepted", "")

    # statistics
    n = 2**18
    for sps, R in [(16, 1e9), (8, 10e9)]:
        set_fs(sps, R)
        fs = gv.fs
        B = fs / 2
        for n_pol, with_noise in [(1, False), (2, True), (1, True)]:
            np.random.seed(9000 + n_pol + 10 * with_noise)
            amp = rng.uniform(3e-3, 3e-2)
            x = amp * np.exp(1j * rng.uniform(0, 2 * pi, (n,) if n_pol == 1 else (2, n)))
            if n_pol == 2:
                x = x * np.array([[0.8], [0.6]])
            nz = rand_field(rng, n, n_pol, amp=0.7 * amp) if with_noise else None
            inp = optical_signal(x, nz)
            BW = rng.uniform(0.3, 0.45) * fs
            r = rng.uniform(0.3, 1)
            Rl = rng.uniform(20, 200)
            T = rng.uniform(100, 400)
            idark = rng.uniform(0, 1e-6)
            Fn = rng.uniform(0, 5)
            _, H = LPF(np.zeros(n), BW, retH=True)
            neb = np.mean(np.abs(H) ** 4)  # fraction of the white noise power left by the forward-backward filter
            n_eff = n * np.mean(np.abs(H) ** 4) ** 2 / np.mean(np.abs(H) ** 8)
            band = 6 * np.sqrt(2 / n_eff)

            Psig = np.mean(np.abs(x) ** 2, axis=-1).sum()
            Pn = np.mean(np.abs(nz) ** 2, axis=-1).sum() if with_noise else 0.0
            var_T = 4 * kB * T * 10 ** (Fn / 10) * B / Rl
            var_S = 2 * qe * (r * (Psig + Pn) + idark) * B
            if with_noise:
                beat = 2 * (x * nz.conj()).real + np.abs(nz) ** 2
                beat = beat if n_pol == 1 else beat.sum(axis=0)
            else:
                beat = np.zeros(n)
            det_ase = LPF(Rl * r * beat, BW).signal

            for sel, terms in SELECTIONS.items():
                o = PD(inp, BW, r=r, T=T, R_load=Rl, include_noise=spell(sel, rng), i_dark=idark, Fn=Fn)
                resid = o.noise - Rl * idark - (det_ase if "ase" in terms else 0)
                core = resid[64:-64]
                expected = Rl**2 * neb * ((var_T if "thermal" in terms else 0) + (var_S if "shot" in terms else 0))
                tag = f"fs={fs:.3g} n_pol={n_pol} noise={with_noise} sel={sel}"
                if expected == 0:
                    check(np.abs(resid).max() <= 1e-9 * np.abs(o.noise).max(), "C09/only selected terms", tag)
                    continue
                v = np.var(core)
                check(abs(v / expected - 1) < band, "C09/noise variance", f"{tag} ratio={v/expected:.4f} band={band:.4f}")
                m = np.mean(core)
                check(abs(m) < 6 * np.sqrt(expected / n_eff), "C09/zero mean + dark offset", f"{tag} mean={m:.3g}")
                kurt = np.mean((core - m) ** 4) / v**2 - 3
                check(abs(kurt) < 6 * np.sqrt(24 / n_eff) * 2, "C09/gaussian", f"{tag} kurt={kurt:.3g}")
                # independent realisation on the next call
                o2 = PD(inp, BW, r=r, T=T, R_load=Rl, include_noise=sel, i_dark=idark, Fn=Fn)
                resid2 = (o2.noise - Rl * idark - (det_ase if "ase" in terms else 0))[64:-64]
                rho = np.mean(core * resid2) / v
                check(abs(rho) < 6 / np.sqrt(n_eff), "C09/fresh noise", f"{tag} rho={rho:.3g}")
                # the noises do not follow the signal
                sig = o.signal[64:-64] - o.signal[64:-64].mean()
                if sig.std() > 0:
                    rho = np.mean(core * sig) / np.sqrt(v) / sig.std()
                    check(abs(rho) < 6 / np.sqrt(n_eff) * 2, "C09/noise independent of signal", f"{tag} rho={rho:.3g}")


# ----------------------------------------------------------------------------------------------------------
# C10
# ----------------------------------------------------------------------------------------------------------


def check_C10():
    rng = np.random.default_rng(1010)
    n = 2**16
    configs = [(16, 1e9, 1550e-9), (8, 10e9, 1310e-9), (32, 2.5e9, 1550e-9)]
    for sps, R, wl in configs:
        with warnings.catch_warnings():
            warnings.simplefilter("ignore")
            gv(sps=sps, R=R, wavelength=wl)
        fs, f0 = gv.fs, gv.f0
        for n_pol in (1, 2):
            for with_noise in (False, True):
                for G, NF in [(0.0, 3.0), (rng.uniform(0.5, 40), rng.uniform(3, 10)), (40.0, 10.0), (rng.uniform(5, 30), 3.0)]:
                    np.random.seed(int(rng.integers(1 << 30)))
                    g = 10 ** (G / 10)
                    P_ase = 10 ** (NF / 10) * hP * f0 * (g - 1) * fs
                    amp = 10 ** rng.uniform(-4, -1)
                    x = rand_field(rng, n, n_pol, amp=amp)
                    nz = rand_field(rng, n, n_pol, amp=amp * 10 ** rng.uniform(-3, -1)) if with_noise else None
                    inp = optical_signal(x, nz)
                    out = EDFA(inp, G, NF)
                    tag = f"fs={fs:.3g} n_pol={n_pol} noise={with_noise} G={G:.3g} NF={NF:.3g}"
                    check(isinstance(out, optical_signal) and out.n_pol == 2, "C10/two polarisations", tag)
                    check(out.signal.shape == (2, n) and out.noise is not None and out.noise.shape == (2, n), "C10/shape", tag)
                    if n_pol == 1:
                        check(rel_err(out.signal[0], np.sqrt(g) * x) < 1e-12, "C10/signal gain", tag)
                        check(np.abs(out.signal[1]).max() == 0, "C10/empty y signal", tag)
                        amp_noise = np.array([np.sqrt(g) * nz, np.zeros(n)]) if with_noise else 0
                    else:
                        check(rel_err(out.signal, np.sqrt(g) * x) < 1e-12, "C10/signal gain", tag)
                        amp_noise = np.sqrt(g) * nz if with_noise else 0
                    ase = out.noise - amp_noise
                    if g == 1:
                        check(np.abs(ase).max() <= 1e-12 * (np.abs(out.noise).max() + 1e-300), "C10/no ASE at unit gain", tag)
                        if with_noise:
                            osnr_in = np.mean(np.abs(x) ** 2, axis=-1).sum() / np.mean(np.abs(nz) ** 2, axis=-1).sum()
                            osnr_out = out.power("signal").sum() / out.power("noise").sum()
                            check(osnr_out <= osnr_in * (1 + 1e-9), "C10/OSNR", tag)
                        continue
                    parts = np.array([ase[0].real, ase[0].imag, ase[1].real, ase[1].imag])
                    total = np.mean(np.abs(ase) ** 2, axis=-1).sum()
                    # sum of 4n squared gaussians: relative std sqrt(2/(4n))
                    check(abs(total / P_ase - 1) < 6 * np.sqrt(2 / (4 * n)), "C10/ASE power", f"{tag} ratio={total/P_ase:.5f}")
                    for i in range(4):
                        vi = np.var(parts[i])
                        check(abs(vi / (P_ase / 4) - 1) < 6 * np.sqrt(2 / n), "C10/ASE circular, both polarisations", f"{tag} part={i} ratio={vi/(P_ase/4):.4f}")
                        check(abs(np.mean(parts[i])) < 6 * np.sqrt(P_ase / 4 / n), "C10/ASE zero mean", f"{tag} part={i}")
                        kurt = np.mean(parts[i] ** 4) / vi**2 - 3
                        check(abs(kurt) < 6 * np.sqrt(24 / n), "C10/ASE gaussian", f"{tag} part={i} kurt={kurt:.3g}")
                        lag = np.mean(parts[i][1:] * parts[i][:-1]) / vi
                        check(abs(lag) < 6 / np.sqrt(n), "C10/ASE white", f"{tag} part={i} lag1={lag:.3g}")
                        for j in range(i + 1, 4):
                            rho = np.mean(parts[i] * parts[j]) / (P_ase / 4)
                            check(abs(rho) < 6 / np.sqrt(n), "C10/ASE independent parts", f"{tag} {i},{j} rho={rho:.3g}")
                    # independent of the input and of the previous draw
                    xs = np.atleast_2d(x)[0]
                    rho = np.abs(np.mean(ase[0] * xs.conj())) / np.sqrt(np.mean(np.abs(ase[0]) ** 2) * np.mean(np.abs(xs) ** 2))
                    check(rho < 6 / np.sqrt(n), "C10/ASE independent of signal", f"{tag} rho={rho:.3g}")
                    out2 = EDFA(inp, G, NF)
                    ase2 = out2.noise - amp_noise
                    rho = np.abs(np.mean(ase * ase2.conj())) / (P_ase / 2)
                    check(rho < 6 / np.sqrt(2 * n), "C10/fresh ASE", f"{tag} rho={rho:.3g}")
                    check(np.array_equal(out2.signal, out.signal), "C10/deterministic signal", tag)
                    # OSNR
                    if with_noise and G >= 5:
                        osnr_in = np.mean(np.abs(x) ** 2, axis=-1).sum() / np.mean(np.abs(nz) ** 2, axis=-1).sum()
                        osnr_out = out.power("signal").sum() / out.power("noise").sum()
                        check(osnr_out <= osnr_in * (1 + 1e-9), "C10/OSNR", f"{tag} in={osnr_in:.4g} out={osnr_out:.4g}")

        # bandwidth argument
        for n_pol in (1, 2):
            for with_noise in (False, True):
                m = 4096
                G, NF = rng.uniform(5, 30), rng.uniform(3, 10)
                g = 10 ** (G / 10)
                x = rand_field(rng, m, n_pol, amp=1e-2)
                nz = rand_field(rng, m, n_pol, amp=1e-3) if with_noise else None
                BW = rng.uniform(0.04, 0.3) * fs
                out = EDFA(optical_signal(x, nz), G, NF, BW)
                tag = f"fs={fs:.3g} n_pol={n_pol} noise={with_noise} BW/fs={BW/fs:.3f}"
                check(out.n_pol == 2 and out.signal.shape == (2, m) and out.noise.shape == (2, m), "C10/BW shape", tag)
                xs = np.array([x, np.zeros(m)]) if n_pol == 1 else x
                ref = BPF(optical_signal(np.sqrt(g) * xs), BW).signal
                check(rel_err(out.signal, ref) < 1e-9, "C10/BW filters the signal", tag)
                f = np.abs(fftfreq(m) * fs)
                S = np.abs(fft(out.noise, axis=-1)) ** 2
                frac = S[:, f > 2 * BW].sum() / S.sum()
                check(frac < 1e-2, "C10/BW filters the noise", f"{tag} out-of-band fraction={frac:.3g}")
                Ssig = np.abs(fft(out.signal, axis=-1)) ** 2
                frac = Ssig[:, f > 2 * BW].sum() / Ssig.sum()
                check(frac < 1e-2, "C10/BW filters the signal (spectrum)", f"{tag} out-of-band fraction={frac:.3g}")
                P_ase = 10 ** (NF / 10) * hP * f0 * (g - 1) * fs
                check(out.power("noise").sum() < P_ase + (g * np.mean(np.abs(nz) ** 2, axis=-1).sum() * 1.2 if with_noise else 0), "C10/BW reduces the noise", tag)

    expect_raises(TypeError, "C10/TypeError", EDFA, electrical_signal(np.ones(50)), 10, 5)
    expect_raises(TypeError, "C10/TypeError", EDFA, np.ones(50), 10, 5)
    expect_raises(TypeError, "C10/TypeError", EDFA, [1.0, 2.0, 3.0], 10, 5, 1e9)
    expect_raises(TypeError, "C10/TypeError", EDFA, None, 10, 5)
    with warnings.catch_warnings():
        warnings.simplefilter("ignore")
        gv(sps=16, R=1e9, wavelength=1550e-9)


# ----------------------------------------------------------------------------------------------------------
# features that are not in every version of the library: they must not disturb the contract
# ----------------------------------------------------------------------------------------------------------


def check_options():
    rng = np.random.default_rng(4242)
    set_fs(16, 1e9)
    fs = gv.fs
    x = rand_field(rng, 300, 2, amp=0.05)
    nz = rand_field(rng, 300, 2, amp=0.005)
    inp = optical_signal(x, nz)

    if has_param(BPF, "fc"):
        a = BPF(inp, 0.2 * fs)
        b = BPF(inp, 0.2 * fs, n=4, fc=0.0, ftype="Bessel")
        check(np.array_equal(a.signal, b.signal) and np.array_equal(a.noise, b.noise), "options/BPF defaults", "")
        c = BPF(x, 0.2 * fs)
        check(np.array_equal(a.signal, c.signal), "options/BPF array input", "")
    if has_param(LPF, "ftype"):
        r = x[0].real
        a = LPF(r, 0.1 * fs)
        check(np.array_equal(a.signal, LPF(list(r), 0.1 * fs, ftype="bessel").signal), "options/LPF list input", "")
        check(np.array_equal(a.signal, LPF(tuple(r), 0.1 * fs).signal), "options/LPF tuple input", "")
    if has_param(DM, "S"):
        check(np.array_equal(DM(inp, 300.0).signal, DM(inp, 300.0, S=0.0).signal), "options/DM S=0", "")
    if has_param(PD, "seed"):
        for sel in SELECTIONS:
            a = PD(inp, 0.3 * fs, include_noise=sel, seed=3)
            b = PD(inp, 0.3 * fs, include_noise=sel.replace("-", "_").upper(), seed=3, filter_order=4)
            check(np.array_equal(a.noise, b.noise) and np.array_equal(a.signal, b.signal), "options/PD seed + spelling", sel)
    if has_param(EDFA, "seed"):
        a = EDFA(inp, 20, 5, seed=11)
        b = EDFA(inp, 20, 5, seed=11, filter_order=4)
        check(np.array_equal(a.noise, b.noise), "options/EDFA seed", "")
    if has_param(FIBER, "max_steps"):
        p = pulse_train(rng, 64, 0.2)
        a = FIBER(optical_signal(p), 10, alpha=0.2, beta_2=-20, gamma=1.5, phi_max=0.05)
        b = FIBER(optical_signal(p), 10, alpha=0.2, beta_2=-20, gamma=1.5, phi_max=0.05, max_steps=10**6)
        check(np.array_equal(a.signal, b.signal), "options/FIBER max_steps", "")


def main():
    for part in (check_C07, check_C11, check_C09, check_C10, check_C08, check_options):
        before = len(FAILURES)
        try:
            part()
        except Exception as err:  # an exception inside the quantified domain is a violation as well
            import traceback

            traceback.print_exc()
            FAILURES.append(f"{part.__name__}: unexpected {type(err).__name__}: {err}")
        print(f"{part.__name__}: {'ok' if len(FAILURES) == before else 'FAILED'}", flush=True)

    if FAILURES:
        print(f"FAIL ({len(FAILURES)} clause checks)")
        for f in FAILURES[:50]:
            print("  -", f)
        sys.exit(1)
    print("PASS")
    sys.exit(0)


if __name__ == "__main__":
    print("opticomlib from", os.path.dirname(opticomlib.__file__), flush=True)
    main()
