"""Contract check for ADC / GET_EYE / FBG (clauses C16, C17, C18).

Run with PYTHONPATH pointing to the package under test:

    MPLBACKEND=Agg OMP_NUM_THREADS=1 PYTHONPATH=<pkg root> python contract_check.py

Prints PASS and exits 0 when every sampled clause holds, prints the failing clause(s) and exits 1 otherwise.
"""
import os
import sys

_here = os.path.dirname(os.path.abspath(__file__))
if sys.path and os.path.abspath(sys.path[0] or os.getcwd()) == _here:
    sys.path.pop(0)  # PYTHONPATH decides which opticomlib is imported

import inspect
import io
import contextlib
import warnings

import numpy as np
import scipy.signal as sg
from scipy.constants import c, pi
from scipy.integrate import quad
from numpy.fft import fft, ifft, ifftshift

import opticomlib
from opticomlib import gv, optical_signal, electrical_signal
from opticomlib.devices import ADC, GET_EYE, FBG, PRBS
from opticomlib.utils import shortest_int, rcos

warnings.simplefilter("ignore")

FAILS = []


def check(cond, clause, detail=""):
    if not cond:
        FAILS.append(f"{clause}: {detail}")
        if len(FAILS) <= 40:
            print(f"FAIL {clause}: {detail}")
    return bool(cond)


def has_param(func, name):
    return name in inspect.signature(func).parameters


def quiet(func, *args, **kwargs):
    with contextlib.redirect_stdout(io.StringIO()):
        return func(*args, **kwargs)


# ----------------------------------------------------------------------------------------------
# C16  FBG
# ----------------------------------------------------------------------------------------------
NEFF = 1.45
ODE_TOL = 5e-3  # accuracy granted to the ODE solver (default RK45 tolerances of the original code)

BUILTIN = {
    "uniform": lambda z: 1.0 + 0 * z,
    "rcos": lambda z: rcos(z, alpha=1, T=2),
    "gaussian": lambda z: np.exp(-4 * np.log(2) * (3 * z) ** 2),
    "parabolic": lambda z: 1 - (2 * z) ** 2,
}


def random_callable(rng):
    a0 = rng.uniform(0.4, 1.0)
    a1 = rng.uniform(-0.3, 0.3)
    a2 = rng.uniform(-0.3, 0.3)
    ph = rng.uniform(0, 2 * pi)

    def f(z):
        return a0 + 0.3 * a1 * np.cos(2 * pi * z + ph) + 0.3 * a2 * np.sin(4 * pi * z) + 0.05 * z

    return f


def make_optical(rng, n, npol):
    if npol == 1:
        x = rng.normal(size=n) + 1j * rng.normal(size=n)
    else:
        x = rng.normal(size=(2, n)) + 1j * rng.normal(size=(2, n))
    return optical_signal(x)


def check_filtering(x, out, H, clause):
    ref = ifft(fft(x.signal, axis=-1) * ifftshift(H), axis=-1)
    ok = out.signal.shape == x.signal.shape and np.allclose(out.signal, ref, rtol=1e-10, atol=1e-12 * np.abs(ref).max())
    check(ok, clause, "output is not the input filtered by H in every polarisation")
    e_in = np.sum(np.abs(x.signal) ** 2)
    e_out = np.sum(np.abs(out.signal) ** 2)
    check(e_out <= e_in * (1 + 2 * ODE_TOL), clause, f"output energy {e_out} exceeds input energy {e_in}")


def c16():
    rng = np.random.default_rng(1601)

    # ---- passivity + filtering over the whole domain ------------------------------------------
    cases = []
    for i in range(36):
        kL = float(np.exp(rng.uniform(np.log(0.1), np.log(8))))
        vd = float(np.exp(rng.uniform(np.log(1e-5), np.log(1e-3))))
        F = float(rng.uniform(-20, 20)) if i % 3 else 0.0
        apo = ["uniform", "rcos", "gaussian", "parabolic", "callable"][i % 5]
        route = i % 3
        n = int(2 ** rng.integers(8, 13))
        if vd < 5e-5 and kL > 3:
            n = min(n, 2 ** 10)  # long gratings: many integration steps, keep the run short
        npol = 1 + (i % 2)
        fs = float(rng.uniform(20e9, 400e9))
        cases.append((kL, vd, F, apo, route, n, npol, fs))
    # corners
    cases += [
        (0.1, 1e-5, -20.0, "uniform", 0, 2 ** 8, 1, 20e9),
        (8.0, 1e-3, 20.0, "gaussian", 1, 2 ** 12, 2, 400e9),
        (8.0, 1e-3, 0.0, "uniform", 2, 2 ** 12, 1, 400e9),
        (8.0, 1e-5, 20.0, "rcos", 0, 2 ** 9, 2, 20e9),
        (0.1, 1e-3, 0.0, "parabolic", 1, 2 ** 10, 1, 100e9),
    ]

    for (kL, vd, F, apo, route, n, npol, fs) in cases:
        gv(sps=16, R=fs / 16)
        x = make_optical(rng, n, npol)
        apodization = random_callable(rng) if apo == "callable" else apo
        landa = c / gv.f0
        L = kL / (pi * vd / landa)
        if route == 0:
            kw = dict(fc=gv.f0, vdneff=vd, kL=kL)
        elif route == 1:
            kw = dict(landa_D=landa, vdneff=vd, L=L)
        else:
            kw = dict(fc=gv.f0, vdneff=vd, N=L * 2 * NEFF / landa)
        tag = f"kL={kL:.3g} vd={vd:.3g} F={F:.3g} apo={apo} route={route} n={n} npol={npol} fs={fs:.3g}"
        out, H = quiet(FBG, x, neff=NEFF, apodization=apodization, F=F, retH=True, print_params=False, **kw)
        check(H.shape == (n,) and np.all(np.isfinite(H)), "C16 finite H", tag)
        check(np.abs(H).max() <= 1 + ODE_TOL, "C16 |H|<=1", f"{tag}: max|H|={np.abs(H).max()}")
        check_filtering(x, out, H, "C16 filtering " + tag)
        # the plain call (no retH) returns the same field
        if n <= 2 ** 9:
            out2 = quiet(FBG, x, neff=NEFF, apodization=apodization, F=F, print_params=False, **kw)
            check(np.allclose(out2.signal, out.signal, rtol=1e-9, atol=1e-12), "C16 retH-independent output", tag)

    # ---- Bragg reflectivity, any apodisation (unchirped) ---------------------------------------
    for i in range(30):
        kL = float(np.exp(rng.uniform(np.log(0.1), np.log(8))))
        vd = float(np.exp(rng.uniform(np.log(1e-5), np.log(1e-3))))
        apo = ["uniform", "rcos", "gaussian", "parabolic", "callable", "callable"][i % 6]
        fs = float(rng.uniform(20e9, 400e9))
        n = 2 ** 8
        gv(sps=16, R=fs / 16)
        x = make_optical(rng, n, 1)
        if apo == "callable":
            func = random_callable(rng)
            apodization = func
        else:
            func = BUILTIN[apo]
            apodization = apo
        integral = quad(func, -0.5, 0.5)[0]
        _, H = quiet(FBG, x, neff=NEFF, fc=gv.f0, vdneff=vd, kL=kL, apodization=apodization, retH=True, print_params=False, filtfilt=bool(i % 2))
        ic = int(np.argmin(np.abs(x.w(shift=True))))
        got = np.abs(H[ic]) ** 2
        want = np.tanh(kL * integral) ** 2
        check(abs(got - want) <= ODE_TOL, "C16 Bragg reflectivity tanh^2(kL*int apo)", f"kL={kL:.3g} vd={vd:.3g} apo={apo}: {got} vs {want}")

    # ---- uniform grating: whole spectrum -------------------------------------------------------
    for i in range(16):
        kL = float(np.exp(rng.uniform(np.log(0.1), np.log(8))))
        vd = float(np.exp(rng.uniform(np.log(1e-5), np.log(1e-3))))
        fs = float(rng.uniform(20e9, 400e9))
        n = int(2 ** rng.integers(8, 11))
        gv(sps=16, R=fs / 16)
        x = make_optical(rng, n, 1)
        _, H = quiet(FBG, x, neff=NEFF, fc=gv.f0, vdneff=vd, kL=kL, retH=True, print_params=False)
        landa_D = c / gv.f0
        L = kL / (pi * vd / landa_D)
        lam = 2 * pi * c / (x.w(shift=True) + 2 * pi * gv.f0)
        d = 2 * pi * NEFF * (1 / lam - 1 / landa_D) * L
        k = pi * vd / lam * L
        g = np.sqrt((k ** 2 - d ** 2).astype(complex))
        with np.errstate(all="ignore"):
            want = (np.sinh(g) ** 2 / (np.cosh(g) ** 2 - d ** 2 / k ** 2)).real
        got = np.abs(H) ** 2
        err = np.nanmax(np.abs(got - want))
        check(err <= ODE_TOL, "C16 uniform spectrum closed form", f"kL={kL:.3g} vd={vd:.3g} fs={fs:.3g} n={n}: err={err}")

    # ---- equivalent specifications -------------------------------------------------------------
    for i in range(10):
        vd = float(np.exp(rng.uniform(np.log(1e-5), np.log(1e-3))))
        kL_target = float(np.exp(rng.uniform(np.log(0.1), np.log(8))))
        F = float(rng.uniform(-20, 20)) if i % 2 else 0.0
        apo = ["uniform", "rcos", "gaussian", "parabolic"][i % 4]
        fs = float(rng.uniform(20e9, 400e9))
        gv(sps=16, R=fs / 16)
        x = make_optical(rng, 2 ** 8, 1)
        landa = c / gv.f0
        N = int(round(kL_target / (pi * vd / landa) * 2 * NEFF / landa))
        L = N * landa / (2 * NEFF)
        kL = pi * vd / landa * L
        Hs = []
        for centre in (dict(fc=gv.f0), dict(landa_D=landa)):
            for length in (dict(kL=kL), dict(L=L), dict(N=N)):
                _, H = quiet(FBG, x, neff=NEFF, vdneff=vd, apodization=apo, F=F, retH=True, print_params=False, **centre, **length)
                Hs.append(H)
        dev = max(np.abs(h - Hs[0]).max() for h in Hs[1:])
        check(dev <= 1e-6, "C16 equivalent specifications", f"vd={vd:.3g} kL={kL:.3g} F={F:.3g} apo={apo}: max deviation {dev}")

    # ---- incomplete specifications ---------------------------------------------------------------
    gv(sps=16, R=100e9 / 16)
    x = make_optical(rng, 2 ** 8, 1)
    landa = c / gv.f0
    incomplete = [
        dict(),
        dict(vdneff=1e-4, kL=2),
        dict(fc=gv.f0),
        dict(fc=gv.f0, kL=2),
        dict(fc=gv.f0, vdneff=1e-4),
        dict(fc=gv.f0, dneff=1e-4),
        dict(landa_D=landa),
        dict(landa_D=landa, vdneff=1e-4),
        dict(landa_D=landa, dneff=1e-4),
        dict(landa_D=landa, kL=2),
        dict(landa_D=landa, L=1e-2),
    ]
    for kw in incomplete:
        try:
            quiet(FBG, x, print_params=False, **kw)
            check(False, "C16 incomplete specification raises ValueError", f"{kw}: no exception")
        except ValueError:
            pass
        except Exception as err:  # noqa
            check(False, "C16 incomplete specification raises ValueError", f"{kw}: {type(err).__name__}")

    # ---- optional features (only where they exist) ----------------------------------------------
    if has_param(FBG, "rtol"):
        gv(sps=16, R=100e9 / 16)
        x = make_optical(rng, 2 ** 8, 2)
        for method, rtol, atol in (("RK45", 1e-3, 1e-6), ("DOP853", 1e-7, 1e-9), ("RK23", 1e-4, 1e-7)):
            out, H = quiet(FBG, x, fc=gv.f0, vdneff=1e-4, kL=3.0, apodization="rcos", F=5.0, retH=True, print_params=False, method=method, rtol=rtol, atol=atol)
            check(np.abs(H).max() <= 1 + ODE_TOL, "C16 |H|<=1 (solver options)", f"{method}")
            check_filtering(x, out, H, f"C16 filtering (solver options {method})")
        # array input and alias names
        out_a, H_a = quiet(FBG, x.signal, fc=gv.f0, vdneff=1e-4, kL=3.0, apodization="Raised-Cosine", retH=True, print_params=False)
        out_b, H_b = quiet(FBG, x, fc=gv.f0, vdneff=1e-4, kL=3.0, apodization="rcos", retH=True, print_params=False)
        check(np.allclose(H_a, H_b) and np.allclose(out_a.signal, out_b.signal), "C16 array input / apodization alias", "differs from canonical call")
        out_u, H_u = quiet(FBG, x, fc=gv.f0, vdneff=1e-4, kL=3.0, apodization=None, retH=True, print_params=False)
        out_v, H_v = quiet(FBG, x, fc=gv.f0, vdneff=1e-4, kL=3.0, retH=True, print_params=False)
        check(np.allclose(H_u, H_v), "C16 apodization=None is uniform", "")
        check(isinstance(getattr(out_b, "params", None), dict) and abs(out_b.params["kL"] - 3.0) < 1e-9, "C16 params attribute", "")
        for bad in (dict(fc=-gv.f0, vdneff=1e-4, kL=2), dict(fc=gv.f0, vdneff=1e-4, kL=2, neff=0), dict(fc=gv.f0, vdneff=1e-4, kL=2, v=1.5)):
            try:
                quiet(FBG, x, print_params=False, **bad)
                check(False, "C16 non physical parameters rejected", str(bad))
            except ValueError:
                pass


# ----------------------------------------------------------------------------------------------
# C17  GET_EYE
# ----------------------------------------------------------------------------------------------
def nrz(bits, sps, a, b, sigma, rng, smooth):
    x = np.kron(np.asarray(bits, dtype=float), np.ones(sps))
    m = max(2, int(round(smooth * sps)))
    # mild band-limiting: circular moving average over a fraction of the slot
    h = np.zeros(x.size)
    h[:m] = 1 / m
    x = np.real(ifft(fft(x) * fft(np.roll(h, -(m // 2)))))
    return a + (b - a) * x + rng.normal(0, sigma, x.size)


def eye_timing(e):
    return (float(e.t_left), float(e.t_right), float(e.t_opt), int(e.i))


def c17():
    rng = np.random.default_rng(1701)
    prbs7 = np.asarray(PRBS(order=7).data).astype(int)
    n_cases = 30
    for i in range(n_cases):
        sps = [8, 16, 32][i % 3]
        gv(sps=sps, R=1e9)
        if i % 4 == 0:
            bits = np.resize(prbs7, 127 * (1 + i % 2))
        else:
            nb = int(rng.integers(32, 200)) * 2
            bits = rng.integers(0, 2, nb)
            bits[:4] = [0, 1, 1, 0]
        d = float(np.exp(rng.uniform(np.log(1e-3), np.log(100))))
        a = float(rng.uniform(-1, 1)) * d if i % 2 else 0.0
        b = a + d
        sigma = float(rng.uniform(0.005, 0.05)) * d
        smooth = float(rng.uniform(0.2, 0.4))
        y = nrz(bits, sps, a, b, sigma, rng, smooth)
        tag = f"case {i}: sps={sps} slots={len(bits)} a={a:.4g} b={b:.4g} sigma={sigma:.3g} smooth={smooth:.2f}"

        np.random.seed(1000 + i)
        arg = y if i % 2 else electrical_signal(y)
        e = GET_EYE(arg, sps_resamp=128)

        vals = [e.mu0, e.mu1, e.s0, e.s1, e.threshold, e.t_left, e.t_right, e.t_opt]
        if not check(all(v is not None and np.isfinite(v) for v in vals), "C17 finite estimates", tag):
            continue
        check(abs(e.mu0 - a) <= 0.08 * d, "C17 mu0 within 8% of a", f"{tag}: mu0={e.mu0}")
        check(abs(e.mu1 - b) <= 0.08 * d, "C17 mu1 within 8% of b", f"{tag}: mu1={e.mu1}")
        for name, s in (("s0", e.s0), ("s1", e.s1)):
            check(sigma / 2 <= s <= 2 * sigma + 0.03 * d, f"C17 {name} in [sigma/2, 2 sigma + 3%]", f"{tag}: {name}={s}")
        check(e.mu0 < e.threshold < e.mu1, "C17 mu0 < threshold < mu1", f"{tag}: {e.mu0} {e.threshold} {e.mu1}")
        check(abs((e.t_right - e.t_left) - 1) <= 0.1, "C17 crossings one slot apart", f"{tag}: {e.t_left} {e.t_right}")
        check(abs(e.t_opt - (e.t_left + e.t_right) / 2) <= 1 / 128 + 1e-12, "C17 optimum midway between crossings", f"{tag}: {e.t_left} {e.t_opt} {e.t_right}")
        check(isinstance(e.i, (int, np.integer)) and 0 <= e.i < sps, "C17 integer sampling index in [0, sps)", f"{tag}: i={e.i!r}")

        # equivariance under a change of units
        if i % 2 == 0:
            alpha = float(np.exp(rng.uniform(np.log(1e-3), np.log(1e3))))
            beta = float(rng.uniform(-2, 2)) * alpha * d
            np.random.seed(1000 + i)
            y2 = alpha * y + beta
            e2 = GET_EYE(y2 if i % 4 else electrical_signal(y2), sps_resamp=128)
            tol = 1e-6 * alpha * d
            check(abs(e2.mu0 - (alpha * e.mu0 + beta)) <= tol, "C17 equivariance mu0", f"{tag} alpha={alpha:.3g} beta={beta:.3g}: {e2.mu0} vs {alpha*e.mu0+beta}")
            check(abs(e2.mu1 - (alpha * e.mu1 + beta)) <= tol, "C17 equivariance mu1", f"{tag} alpha={alpha:.3g} beta={beta:.3g}")
            check(abs(e2.s0 - alpha * e.s0) <= tol and abs(e2.s1 - alpha * e.s1) <= tol, "C17 equivariance s0/s1", f"{tag} alpha={alpha:.3g}")
            check(eye_timing(e2) == eye_timing(e), "C17 timing unchanged by units", f"{tag}: {eye_timing(e)} vs {eye_timing(e2)}")
            check(e2.mu0 < e2.threshold < e2.mu1, "C17 mu0 < threshold < mu1 (scaled)", tag)

    # optional features
    if has_param(GET_EYE, "random_state"):
        gv(sps=16, R=1e9)
        bits = rng.integers(0, 2, 128)
        y = nrz(bits, 16, 0.0, 1.0, 0.02, rng, 0.2)
        e1 = GET_EYE(y, sps_resamp=128, random_state=3)
        e2 = GET_EYE(y, sps_resamp=128, random_state=3)
        check(eye_timing(e1) == eye_timing(e2) and e1.mu0 == e2.mu0 and e1.mu1 == e2.mu1, "C17 random_state reproducible", "")
        check(abs(e1.mu0) <= 0.08 and abs(e1.mu1 - 1) <= 0.08 and e1.mu0 < e1.threshold < e1.mu1, "C17 levels with random_state", "")
        gv(sps=8, R=1e9)  # the explicit `sps` wins over the global one
        e3 = GET_EYE(y, sps_resamp=128, sps=16, random_state=3, nslots=None)
        check(eye_timing(e3) == eye_timing(e1) and e3.mu1 == e1.mu1, "C17 explicit sps", f"{eye_timing(e3)} vs {eye_timing(e1)}")
        e4 = GET_EYE(list(y), sps_resamp=128, sps=16, random_state=3)
        check(e4.mu0 == e1.mu0, "C17 list input", "")
        check(hasattr(e1, "q") and np.isclose(e1.q, (e1.mu1 - e1.mu0) / (e1.s0 + e1.s1)), "C17 q factor", "")


# ----------------------------------------------------------------------------------------------
# C18  ADC (+ shortest_int, which ADC relies on)
# ----------------------------------------------------------------------------------------------
def adc_signal(rng, kind, n):
    if kind == "gauss":
        return rng.normal(rng.uniform(-1, 1), rng.uniform(0.01, 5), n)
    if kind == "uniform":
        lo = rng.uniform(-3, 3)
        return rng.uniform(lo, lo + rng.uniform(0.01, 10), n)
    if kind == "sine":
        t = np.arange(n)
        return rng.uniform(0.1, 3) * np.sin(2 * pi * rng.uniform(0.001, 0.4) * t + rng.uniform(0, 6)) + rng.uniform(-1, 1)
    levels = int(rng.integers(2, 40))
    return np.round(rng.normal(0, 1, n) * levels / 4) / levels * rng.uniform(0.1, 4)


def c18():
    rng = np.random.default_rng(1801)
    lengths = [2, 3, 5, 17, 100, 1000, 9999, 10 ** 4, 10 ** 4 + 1, 2 ** 14, 50000, 2 ** 17]
    kinds = ["gauss", "uniform", "sine", "quant"]
    case = 0
    for length in lengths:
        for kind in kinds:
            for rep in range(2):
                case += 1
                nb = int(rng.integers(1, 13))
                x = adc_signal(rng, kind, length)
                if np.ptp(x) == 0:
                    x[0] += 1.0
                if length >= 2 * 10 ** 4 and kind == "gauss":
                    x[int(rng.integers(length))] += 100 * np.ptp(x)  # an outlier
                vmin, vmax = shortest_int(x, 99.99)
                tag = f"len={length} kind={kind} n={nb}"
                if vmax == vmin:
                    continue
                step = (vmax - vmin) / (2 ** nb - 1)
                arg = electrical_signal(x) if case % 2 else x

                yv = ADC(arg, n=nb) if case % 3 else ADC(arg, n=nb, otype="v")
                v = np.asarray(yv.signal)
                check(v.shape == (length,), "C18 output length", tag)
                check(np.all(np.isreal(v)) and np.unique(v.real).size <= 2 ** nb, "C18 at most 2^n values", f"{tag}: {np.unique(v.real).size}")
                v = v.real
                eps = 1e-9 * max(abs(vmin), abs(vmax), vmax - vmin)
                check(v.min() >= vmin - eps and v.max() <= vmax + eps, "C18 values within [V_min, V_max]", f"{tag}: [{v.min()}, {v.max()}] vs [{vmin}, {vmax}]")
                inside = (x >= vmin) & (x <= vmax)
                check(np.all(np.abs(v[inside] - x[inside]) <= step / 2 + eps), "C18 inside samples move <= step/2", f"{tag}: {np.abs(v[inside]-x[inside]).max()} vs {step/2}")
                check(np.allclose(v[x < vmin], vmin, atol=eps) and np.allclose(v[x > vmax], vmax, atol=eps), "C18 outside samples saturate (v)", tag)
                if length >= 2 * 10 ** 4 and kind == "gauss":
                    check(vmax < x.max(), "C18 99.99% range excludes the outlier", tag)

                yn = ADC(arg, n=nb, otype="n")
                k = np.asarray(yn.signal)
                check(k.shape == (length,), "C18 output length (n)", tag)
                kr = k.real
                check(np.all(k.imag == 0) and np.all(kr == np.round(kr)) and kr.min() >= 0 and kr.max() <= 2 ** nb - 1, "C18 codes are integers in [0, 2^n-1]", tag)
                check(np.all(kr[x < vmin] == 0) and np.all(kr[x > vmax] == 2 ** nb - 1), "C18 outside samples saturate at end codes", tag)
                rec = kr * step + vmin
                check(np.all(np.abs(rec[inside] - x[inside]) <= step / 2 + eps), "C18 inside samples move <= step/2 (codes)", tag)
                check(np.allclose(rec, v, atol=eps), "C18 'v' and 'n' outputs agree", tag)

    # shortest_int
    for length in (2, 3, 10, 101, 1000, 20000):
        for kind in kinds:
            for p in (0.5, 10, 50, 90, 99.99, float(rng.uniform(0.01, 99.99))):
                data = adc_signal(rng, kind, length)
                lag = int(np.floor(p * length / 100))
                if lag < 1:
                    continue
                lo, hi = shortest_int(data, p)
                srt = np.sort(data)
                widths = srt[lag:] - srt[:-lag]
                tag = f"len={length} kind={kind} p={p:.4g}"
                check(lo <= hi and lo in srt and hi in srt, "C18 shortest_int returns data values", tag)
                check(hi - lo == widths.min(), "C18 shortest_int is shortest", f"{tag}: {hi-lo} vs {widths.min()}")
                check(np.any((srt[:-lag] == lo) & (srt[lag:] == hi)), "C18 shortest_int order statistics lag apart", tag)
                check(np.sum((data >= lo) & (data <= hi)) >= lag + 1, "C18 interval contains lag+1 samples", tag)

    # optional features
    if has_param(ADC, "vrange"):
        x = rng.normal(0, 1, 5000)
        y = ADC(x, n=4, vrange=(-2, 2))
        v = y.signal.real
        check(np.unique(v).size <= 16 and v.min() >= -2 and v.max() <= 2, "C18 vrange", "")
        inside = np.abs(x) <= 2
        check(np.all(np.abs(v[inside] - x[inside]) <= (4 / 15) / 2 + 1e-12), "C18 vrange half step", "")
        k = ADC(list(x), n=4, otype="CODES", out_dtype=np.uint8).signal
        check(k.dtype == np.uint8 and k.max() <= 15, "C18 out_dtype / otype spelling / list input", f"{k.dtype}")
        check(np.array_equal(k, ADC(x, n=4, otype="n").signal), "C18 out_dtype keeps the codes", "")
        check(y.nbits == 4 and y.vrange == (-2.0, 2.0) and np.isclose(y.lsb, 4 / 15), "C18 conversion attributes", "")
        zc = ADC(electrical_signal(x.astype(complex)), n=5).signal
        check(np.allclose(zc, ADC(x, n=5).signal), "C18 complex dtype with zero imaginary part", "")
        for bad in (dict(n=0), dict(n=2.5), dict(otype="x"), dict(vrange=(1, 1)), dict(otype="n", n=10, out_dtype=np.uint8)):
            try:
                ADC(x, **{"n": 4, **bad})
                check(False, "C18 invalid options rejected", str(bad))
            except ValueError:
                pass


def main():
    sections = sys.argv[1:] or ["c18", "c17", "c16"]
    for name in sections:
        {"c16": c16, "c17": c17, "c18": c18}[name]()
        print(f"[{name} done, {len(FAILS)} failure(s) so far]", flush=True)
    if FAILS:
        print(f"{len(FAILS)} clause check(s) failed; first: {FAILS[0]}")
        sys.exit(1)
    print(f"PASS ({opticomlib.__file__})")
    sys.exit(0)


if __name__ == "__main__":
    main()
