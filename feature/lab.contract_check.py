"""Contract check for opticomlib.lab: PPG3204 driver (range, memory round trip) and SYNC.

Run with PYTHONPATH pointing at the package to check; prints PASS / the failing clause.
"""
import sys, os

_here = os.path.dirname(os.path.abspath(__file__))
if sys.path and os.path.abspath(sys.path[0] or os.getcwd()) == _here:
    del sys.path[0]  # PYTHONPATH decides which opticomlib is checked

import re
import inspect
import warnings
import contextlib
import io

import numpy as np

import opticomlib
from opticomlib.lab import PPG3204, SYNC
from opticomlib.typing import electrical_signal, binary_sequence, gv

MEM = 2**21
PRBS_ORDERS = [7, 9, 11, 15, 23, 31]
FAILS = []


def fail(clause, detail):
    FAILS.append((clause, detail))
    print(f'FAIL [{clause}] {detail}')
    if len(FAILS) > 20:
        finish()


def finish():
    if FAILS:
        print(f'{len(FAILS)} failure(s); first: [{FAILS[0][0]}] {FAILS[0][1]}')
        sys.exit(1)
    print('PASS')
    sys.exit(0)


# --------------------------------------------------------------------------------------
# simulated instrument
# --------------------------------------------------------------------------------------
class FakePPG:
    """Minimal PPG3204 model: records every command, keeps a sparse bit memory per channel."""

    def __init__(self):
        self.log = []
        self.mem = {ch: {} for ch in range(1, 5)}  # ch -> {address: bit}
        self.state = {}
        self.timeout = 0

    def clear(self):
        pass

    def close(self):
        pass

    def query(self, cmd):
        self.log.append(cmd)
        m = re.fullmatch(r':DIG(\d+):PATT:DATA (-?\d+),(\d+),#(\d)(.*)', cmd)
        if m:
            ch, p, n, k = int(m[1]), int(m[2]), int(m[3]), int(m[4])
            rest = m[5]
            bits = rest[k:]
            if ch in self.mem:
                for j, b in enumerate(bits):
                    self.mem[ch][p + j] = int(b)
            return '\n'
        m = re.fullmatch(r':DIG(\d+):PATT:DATA\? (-?\d+),(\d+)', cmd)
        if m:
            ch, p, n = int(m[1]), int(m[2]), int(m[3])
            mem = self.mem.get(ch, {})
            bits = ''.join(str(mem.get(p + j, 0)) for j in range(n))
            return f'#{len(str(n))}{n}{bits}\n'
        if cmd.endswith('?'):
            key = cmd[:-1]
            if key == ':FREQ':
                return str(self.state.get(key, '1.0e10')) + '\n'
            m = re.fullmatch(r':VOLT(\d):OFFS', key)
            if m:
                for rail in ('POS', 'NEG'):
                    v = self.state.get(f':VOLT{m[1]}:{rail}:OFFS')
                    if v is not None:
                        return v.rstrip('v') + '\n'
                return '0\n'
            v = self.state.get(key)
            if v is None:
                v = 'DATA' if key.endswith('TYPE') else '7' if key.endswith('PLEN') else '2'
            return v.rstrip('v') + '\n'
        parts = cmd.split(' ', 1)
        if len(parts) == 2:
            self.state[parts[0]] = parts[1]
        return '\n'


def new_ppg():
    ppg = PPG3204()
    ppg.inst = FakePPG()
    return ppg


def call(fn, *args, **kwargs):
    """Call and return (result, exception, warnings list, commands emitted)."""
    ppg = fn.__self__
    n0 = len(ppg.inst.log)
    with warnings.catch_warnings(record=True) as w, contextlib.redirect_stdout(io.StringIO()):
        warnings.simplefilter('always')
        try:
            res, exc = fn(*args, **kwargs), None
        except Exception as e:  # noqa
            res, exc = None, e
    return res, exc, list(w), ppg.inst.log[n0:]


# --------------------------------------------------------------------------------------
# clause 1: every emitted command in range, clamped + warning rather than error
# --------------------------------------------------------------------------------------
LIMITS = {
    'freq': (1.5e9, 32e9),
    'amp': (0.3, 2.0),
    'offs': (-2.0, 3.0),
    'skew': (-25e-12, 25e-12),
    'leng': (2, MEM),
}

CMD_PATTERNS = [
    ('leng', re.compile(r':DIG(-?\d+):PATT:LENG (\S+)')),
    ('plen', re.compile(r':DIG(-?\d+):PATT:PLEN (\S+)')),
    ('freq', re.compile(r':FREQ() (\S+)')),
    ('skew', re.compile(r':SKEW(-?\d+) (\S+)')),
    ('amp', re.compile(r':VOLT(-?\d+):POS (\S+?)v?')),
    ('offs', re.compile(r':VOLT(-?\d+):(?:POS|NEG):OFFS (\S+?)v?')),
    ('data', re.compile(r':DIG(-?\d+):PATT:DATA (.*)')),
    ('dataq', re.compile(r':DIG(-?\d+):PATT:DATA\? (.*)')),
    ('other', re.compile(r':(?:DIG|OUTP|VOLT|SKEW)(-?\d+)\S*(?: .*)?')),
]


def check_command(cmd, where):
    """Check channel and value of one emitted command."""
    for kind, pat in CMD_PATTERNS:
        m = pat.fullmatch(cmd)
        if not m:
            continue
        if m[1] != '':
            ch = int(m[1])
            if not 1 <= ch <= 4:
                fail('range/channel', f'{where}: command {cmd!r} addresses channel {ch}')
        if kind in LIMITS:
            try:
                v = float(m[2])
            except ValueError:
                fail('range/value', f'{where}: cannot parse value in {cmd!r}')
                return kind
            lo, hi = LIMITS[kind]
            if not (lo <= v <= hi):
                fail('range/value', f'{where}: command {cmd!r} carries {v!r} outside [{lo}, {hi}]')
            if kind == 'leng' and not float(v).is_integer():
                fail('range/value', f'{where}: non-integer pattern length in {cmd!r}')
        elif kind == 'plen':
            try:
                v = float(m[2])
            except ValueError:
                fail('range/prbs', f'{where}: cannot parse value in {cmd!r}')
                return kind
            if v not in PRBS_ORDERS:
                fail('range/prbs', f'{where}: command {cmd!r} carries unsupported PRBS order')
        return kind
    if cmd.startswith(':'):
        return 'other'
    return 'other'


def decades(rng, lo, hi, integer=False):
    """Values over several decades around both limits (inside, outside, at, either sign)."""
    vals = [lo, hi, (lo + hi) / 2]
    for lim in (lo, hi):
        base = abs(lim) if lim else 1.0
        for e in np.arange(-3, 4.01, 0.5):
            f = 10.0 ** e
            vals += [np.sign(lim or 1) * base * f, -np.sign(lim or 1) * base * f]
        for eps in (1e-9, 1e-6, 1e-3, 0.04, 0.051):
            vals += [lim * (1 + eps), lim * (1 - eps), lim + eps * base, lim - eps * base]
    vals += [0.0, rng.uniform(lo, hi), rng.uniform(lo, hi)]
    if integer:
        vals = sorted({int(round(v)) for v in vals})
    return vals


def channel_selections(rng):
    sels = [None, 1, 2, 3, 4, 0, 5, -1, 9, 100, [1], [4], [1, 2], [3, 4], [1, 2, 3, 4], [4, 3, 2, 1],
            [0, 1], [4, 5], [-3, 7], [0, 0], [9, 9, 9], [1, 2, 3, 4, 5], [1, 2, 3, 4, 1, 2], [5, 6, 7, 8, 9, 10],
            (2, 3), np.array([1, 4]), np.array([0, 6, 2])]
    for _ in range(6):
        sels.append([int(c) for c in rng.integers(-4, 10, size=rng.integers(1, 7))])
    return sels


def n_selected(sel):
    if sel is None:
        return 4
    return min(np.size(sel), 4)


def sel_out_of_range(sel):
    if sel is None:
        return False
    a = np.atleast_1d(np.asarray(sel))
    return bool((a < 1).any() or (a > 4).any() or a.size > 4)


def check_range_clause():
    rng = np.random.default_rng(20)
    sels = channel_selections(rng)

    per_channel = [
        ('set_patt_len', 'leng', decades(rng, 2, MEM, integer=True), True),
        ('set_output_voltage', 'amp', decades(rng, 0.3, 2.0), False),
        ('set_offset', 'offs', decades(rng, -2.0, 3.0), False),
        ('set_skew', 'skew', decades(rng, -25e-12, 25e-12), False),
    ]

    for meth, kind, values, integer in per_channel:
        lo, hi = LIMITS[kind]
        # scalars x channel selections
        for i, v in enumerate(values):
            for sel in (sels if i % 5 == 0 else [sels[j] for j in rng.integers(0, len(sels), 3)]):
                ppg = new_ppg()
                where = f'{meth}({v!r}, CHs={sel!r})'
                res, exc, w, cmds = call(getattr(ppg, meth), v, sel)
                if exc is not None:
                    fail('range/no-error', f'{where} raised {type(exc).__name__}: {exc}')
                    continue
                n = n_selected(sel)
                kinds = [check_command(c, where) for c in cmds]
                if kinds.count(kind) != n or len(cmds) != n:
                    fail('range/commands', f'{where} emitted {cmds!r}, expected {n} {kind} commands')
                if (not lo <= v <= hi or sel_out_of_range(sel)) and n > 0 and not w:
                    fail('range/warning', f'{where}: out-of-range request without a warning')
        # per-channel lists
        for _ in range(150):
            sel = sels[rng.integers(0, len(sels))]
            n = n_selected(sel)
            if n == 0:
                continue
            lst = [values[j] for j in rng.integers(0, len(values), n)]
            if rng.random() < 0.3:
                lst = np.array(lst)
            elif rng.random() < 0.2:
                lst = tuple(lst)
            ppg = new_ppg()
            where = f'{meth}({lst!r}, CHs={sel!r})'
            res, exc, w, cmds = call(getattr(ppg, meth), lst, sel)
            if exc is not None:
                fail('range/no-error', f'{where} raised {type(exc).__name__}: {exc}')
                continue
            kinds = [check_command(c, where) for c in cmds]
            if kinds.count(kind) != n or len(cmds) != n:
                fail('range/commands', f'{where} emitted {cmds!r}, expected {n} {kind} commands')
            if (any(not lo <= x <= hi for x in lst) or sel_out_of_range(sel)) and not w:
                fail('range/warning', f'{where}: out-of-range request without a warning')

    # frequency (common to all channels)
    for v in decades(rng, 1.5e9, 32e9):
        ppg = new_ppg()
        where = f'set_freq({v!r})'
        res, exc, w, cmds = call(ppg.set_freq, v)
        if exc is not None:
            fail('range/no-error', f'{where} raised {type(exc).__name__}: {exc}')
            continue
        kinds = [check_command(c, where) for c in cmds]
        if kinds != ['freq']:
            fail('range/commands', f'{where} emitted {cmds!r}')
        if not 1.5e9 <= v <= 32e9 and not w:
            fail('range/warning', f'{where}: out-of-range request without a warning')

    # PRBS order
    orders = sorted(set(list(range(-5, 70)) + [10**k for k in range(2, 10)] + [-10**k for k in range(1, 6)]
                        + [7 * 10**k for k in range(1, 5)] + [31 * 10**k for k in range(1, 5)]))
    for i, v in enumerate(orders):
        for sel in (sels if i % 7 == 0 else [sels[j] for j in rng.integers(0, len(sels), 2)]):
            ppg = new_ppg()
            where = f'set_prbs_order({v!r}, CHs={sel!r})'
            res, exc, w, cmds = call(ppg.set_prbs_order, v, sel)
            if exc is not None:
                fail('range/no-error', f'{where} raised {type(exc).__name__}: {exc}')
                continue
            n = n_selected(sel)
            kinds = [check_command(c, where) for c in cmds]
            if kinds.count('plen') != n or len(cmds) != n:
                fail('range/commands', f'{where} emitted {cmds!r}, expected {n} plen commands')
            if (v not in PRBS_ORDERS or sel_out_of_range(sel)) and n > 0 and not w:
                fail('range/warning', f'{where}: unsupported request without a warning')
    for _ in range(150):
        sel = sels[rng.integers(0, len(sels))]
        n = n_selected(sel)
        if n == 0:
            continue
        lst = [orders[j] for j in rng.integers(0, len(orders), n)]
        if rng.random() < 0.3:
            lst = np.array(lst)
        ppg = new_ppg()
        where = f'set_prbs_order({lst!r}, CHs={sel!r})'
        res, exc, w, cmds = call(ppg.set_prbs_order, lst, sel)
        if exc is not None:
            fail('range/no-error', f'{where} raised {type(exc).__name__}: {exc}')
            continue
        kinds = [check_command(c, where) for c in cmds]
        if kinds.count('plen') != n or len(cmds) != n:
            fail('range/commands', f'{where} emitted {cmds!r}, expected {n} plen commands')
        if (any(x not in PRBS_ORDERS for x in lst) or sel_out_of_range(sel)) and not w:
            fail('range/warning', f'{where}: unsupported request without a warning')


# --------------------------------------------------------------------------------------
# clause 2: memory blocks and round trip
# --------------------------------------------------------------------------------------
DATA_CMD = re.compile(r':DIG(\d+):PATT:DATA (\d+),(\d+),#(\d)(\d*)')


def check_memory_clause():
    rng = np.random.default_rng(2020)
    lengths = [1, 2, 3, 9, 10, 11, 99, 100, 101, 999, 1000, 1001, 1023, 1024, 1025, 2047, 2048, 2049,
               3071, 3072, 3073, 4096, 5000, 9999, 10000, 10**4 - 1024, 8192, 8193]
    lengths += [int(x) for x in rng.integers(1, 10001, 40)]
    lengths += [int(10 ** x) for x in rng.uniform(0, 4, 20)]
    sels = [None, 1, 2, 3, 4, [1], [2, 3], [1, 2, 3, 4], [4, 1], [3, 3], [0], [5], [0, 7], [1, 2, 3, 4, 5], (4, 2), np.array([2, 4])]

    for it, n in enumerate(lengths):
        sel = sels[it % len(sels)] if it < 2 * len(sels) else sels[rng.integers(0, len(sels))]
        start = [1, 1, 2, 1000, 1024, 1025, MEM - n + 1, int(rng.integers(1, MEM - n + 2))][rng.integers(0, 8)]
        bits = rng.integers(0, 2, n).astype(np.uint8)
        form = it % 4
        if form == 0:
            data = bits
        elif form == 1:
            data = bits.tolist()
        elif form == 2:
            data = ''.join(map(str, bits)) if n > 1 else bits.tolist()
        else:
            data = tuple(int(b) for b in bits)

        ppg = new_ppg()
        where = f'set_data(<{n} bits as {type(data).__name__}>, {start}, CHs={sel!r})'
        res, exc, w, cmds = call(ppg.set_data, data, start, sel)
        if exc is not None:
            fail('memory/set_data', f'{where} raised {type(exc).__name__}: {exc}')
            continue

        chans = [1, 2, 3, 4] if sel is None else [int(c) for c in np.clip(np.atleast_1d(np.asarray(sel)), 1, 4)[:4]]
        per_ch = {}
        for c in cmds:
            m = DATA_CMD.fullmatch(c)
            if not m:
                fail('memory/blocks', f'{where}: unexpected command {c[:60]!r}')
                continue
            ch, p, cnt, k, rest = int(m[1]), int(m[2]), int(m[3]), int(m[4]), m[5]
            if not 1 <= ch <= 4:
                fail('memory/channel', f'{where}: block for channel {ch}')
            if cnt > 1024 or cnt < 1:
                fail('memory/blocks', f'{where}: block of {cnt} bits')
            if k != len(str(cnt)) or rest[:k] != str(cnt) or len(rest) != k + cnt:
                fail('memory/header', f'{where}: wrong IEEE-488.2 header in {c[:40]!r}')
            if set(rest[k:]) - {'0', '1'}:
                fail('memory/header', f'{where}: payload is not binary')
            per_ch.setdefault(ch, []).append((p, cnt, rest[k:]))
        if sorted(per_ch) != sorted(set(chans)):
            fail('memory/channel', f'{where}: blocks for channels {sorted(per_ch)}, selected {chans}')
        for ch, blocks in per_ch.items():
            reps = chans.count(ch)
            if len(blocks) % reps:
                fail('memory/blocks', f'{where}: uneven blocks for repeated channel {ch}')
                continue
            per = len(blocks) // reps
            for r in range(reps):
                blk = blocks[r * per:(r + 1) * per]
                addr = start
                for p, cnt, payload in blk:
                    if p != addr:
                        fail('memory/address', f'{where}: block at {p}, expected {addr}')
                        break
                    addr += cnt
                if ''.join(b[2] for b in blk) != ''.join(map(str, bits)):
                    fail('memory/content', f'{where}: transferred bits differ from the data (channel {ch})')

        where_g = f'get_data({n}, {start}, CHs={sel!r}) after {where}'
        res, exc, w, cmds = call(ppg.get_data, n, start, sel)
        if exc is not None:
            fail('memory/get_data', f'{where_g} raised {type(exc).__name__}: {exc}')
            continue
        for c in cmds:
            m = re.fullmatch(r':DIG(\d+):PATT:DATA\? (\d+),(\d+)', c)
            if not m or not 1 <= int(m[1]) <= 4 or not 1 <= int(m[3]) <= 1024 or int(m[2]) < 1 or int(m[2]) + int(m[3]) - 1 > MEM:
                fail('memory/query', f'{where_g}: bad query {c!r}')
        res = np.asarray(res)
        if res.shape != (len(chans), n):
            fail('memory/roundtrip', f'{where_g}: shape {res.shape}, expected {(len(chans), n)}')
            continue
        for row, ch in zip(res, chans):
            if not np.array_equal(np.asarray(row).astype(int), bits.astype(int)):
                fail('memory/roundtrip', f'{where_g}: channel {ch} does not return the written bits')

    # per-channel rows
    for n in [1, 5, 1024, 1025, 3000]:
        rows = rng.integers(0, 2, (3, n)).astype(np.uint8)
        ppg = new_ppg()
        res, exc, w, cmds = call(ppg.set_data, rows, 7, [4, 1, 2])
        if exc is not None:
            fail('memory/set_data', f'2D set_data raised {type(exc).__name__}: {exc}')
            continue
        res, exc, w, cmds = call(ppg.get_data, n, 7, [4, 1, 2])
        if exc is not None or not np.array_equal(np.asarray(res).astype(int), rows.astype(int)):
            fail('memory/roundtrip', f'2D data of {n} bits per channel not returned ({exc})')

    # partial overwrite / partial read back (arbitrary sequences on one instrument)
    ppg = new_ppg()
    model = {ch: np.zeros(30000, dtype=int) for ch in range(1, 5)}
    for step in range(120):
        ch_sel = [None, 1, 2, 3, 4, [1, 3], [2, 4], [4, 3, 2, 1]][rng.integers(0, 8)]
        chans = [1, 2, 3, 4] if ch_sel is None else [int(c) for c in np.atleast_1d(ch_sel)]
        n = int(rng.integers(1, 4000))
        start = int(rng.integers(1, 20000))
        if rng.random() < 0.55:
            bits = rng.integers(0, 2, n)
            res, exc, w, cmds = call(ppg.set_data, bits.astype(np.uint8), start, ch_sel)
            if exc is not None:
                fail('memory/sequence', f'set_data step {step} raised {type(exc).__name__}: {exc}')
                break
            for c in cmds:
                check_command(c, f'sequence step {step}')
            for ch in chans:
                model[ch][start:start + n] = bits
        else:
            res, exc, w, cmds = call(ppg.get_data, n, start, ch_sel)
            if exc is not None:
                fail('memory/sequence', f'get_data step {step} raised {type(exc).__name__}: {exc}')
                break
            want = np.array([model[ch][start:start + n] for ch in chans])
            if not np.array_equal(np.asarray(res).astype(int), want):
                fail('memory/sequence', f'get_data step {step} ({n} bits at {start}, CHs={ch_sel}) differs from the memory model')
                break


# --------------------------------------------------------------------------------------
# arbitrary set_/get_ sequences: everything emitted stays in range
# --------------------------------------------------------------------------------------
def check_sequences():
    rng = np.random.default_rng(7)
    ppg = new_ppg()
    sels = channel_selections(rng)
    setters = {
        'set_patt_len': lambda: int(10 ** rng.uniform(-1, 9)) * (1 if rng.random() < .9 else -1),
        'set_output_voltage': lambda: float(10 ** rng.uniform(-3, 3)) * (1 if rng.random() < .9 else -1),
        'set_offset': lambda: float(10 ** rng.uniform(-3, 3)) * (1 if rng.random() < .5 else -1),
        'set_skew': lambda: float(10 ** rng.uniform(-14, -8)) * (1 if rng.random() < .5 else -1),
        'set_prbs_order': lambda: int(rng.integers(-10, 80)),
    }
    getters = ['get_patt_len', 'get_mode', 'get_prbs_order', 'get_bits_shift', 'get_skew', 'get_output_voltage', 'get_offset']
    for step in range(600):
        sel = sels[rng.integers(0, len(sels))]
        r = rng.random()
        if r < 0.55:
            name = list(setters)[rng.integers(0, len(setters))]
            n = n_selected(sel)
            val = setters[name]()
            if rng.random() < 0.4 and n > 0:
                val = [setters[name]() for _ in range(n)]
            where = f'sequence step {step}: {name}({val!r}, {sel!r})'
            res, exc, w, cmds = call(getattr(ppg, name), val, sel)
        elif r < 0.65:
            val = float(10 ** rng.uniform(6, 13))
            where = f'sequence step {step}: set_freq({val!r})'
            res, exc, w, cmds = call(ppg.set_freq, val)
        elif r < 0.75:
            name = ['set_mode', 'enable_outputs', 'disable_outputs', 'set_bits_shift'][rng.integers(0, 4)]
            args = {'set_mode': (['data', 'prbs'][rng.integers(0, 2)], sel), 'set_bits_shift': (int(rng.integers(-50, 50)), sel)}.get(name, (sel,))
            where = f'sequence step {step}: {name}{args!r}'
            res, exc, w, cmds = call(getattr(ppg, name), *args)
        elif r < 0.8:
            where = f'sequence step {step}: get_freq()'
            res, exc, w, cmds = call(ppg.get_freq)
            if exc is None and not 1.5e9 <= res <= 32e9:
                fail('sequence/freq', f'{where} returned {res}')
        else:
            name = getters[rng.integers(0, len(getters))]
            where = f'sequence step {step}: {name}({sel!r})'
            res, exc, w, cmds = call(getattr(ppg, name), sel)
            if exc is None and np.size(res) != n_selected(sel):
                fail('sequence/get', f'{where} returned {res!r}')
        if exc is not None:
            fail('sequence/no-error', f'{where} raised {type(exc).__name__}: {exc}')
            continue
        for c in cmds:
            check_command(c, where)

    # the all-in-one configuration call goes through the same setters
    ppg = new_ppg()
    res, exc, w, cmds = call(ppg.__call__, freq=1e12, patt_len=10**8, Vout=10.0, offset=-7.0, bsh=3, skew=1e-9, mode='PRBS', order=40, CHs=[0, 9])
    if exc is not None:
        fail('sequence/no-error', f'ppg(...) raised {type(exc).__name__}: {exc}')
    for c in cmds:
        check_command(c, 'ppg(...)')


# --------------------------------------------------------------------------------------
# clause 3: SYNC
# --------------------------------------------------------------------------------------
def prbs(order, seed=1):
    taps = {7: (7, 6), 9: (9, 5), 11: (11, 9), 15: (15, 14)}[order]
    state = [(seed >> i) & 1 for i in range(order)]
    if not any(state):
        state[0] = 1
    out = []
    for _ in range(2**order - 1):
        new = state[taps[0] - 1] ^ state[taps[1] - 1]
        out.append(state[-1])
        state = [new] + state[:-1]
    return np.array(out, dtype=np.uint8)


def check_sync_clause():
    rng = np.random.default_rng(333)
    has_new = 'max_lag' in inspect.signature(SYNC).parameters
    cases = 0
    for order, sps_list in [(7, [1, 2, 4, 8, 16]), (9, [2, 8]), (11, [4])]:
        for sps in sps_list:
            slots = prbs(order, seed=int(rng.integers(1, 2**order)))
            tx = np.kron(slots, np.ones(sps))
            l = tx.size
            delays = sorted(set([1, 2, sps, sps + 1, l // 2, l - 2, l - 1] + [int(x) for x in rng.integers(1, l, 12 if order == 7 else 5)]))
            if has_new:
                delays = [0] + delays
            for d in delays:
                if not 0 <= d < l:
                    continue
                for mode in ('roll', 'pad'):
                    reps = int(rng.integers(2, 5))
                    wave = np.tile(tx, reps)
                    if mode == 'roll':
                        rx0 = np.roll(wave, d)
                    else:
                        rx0 = np.concatenate((np.zeros(d), wave))
                    if reps >= 3 and rng.random() < 0.5:
                        rx0 = rx0[:len(rx0) - int(rng.integers(0, l // 2))]  # records need not hold a whole number of patterns
                    sigma = [0.0, 0.02, 0.1, 0.2][rng.integers(0, 4)]
                    gain, offset = [(1.0, 0.0), (0.5, 0.1), (2.0, -0.3)][rng.integers(0, 3)]
                    rx = gain * rx0 + offset + sigma * gain * rng.standard_normal(rx0.size)
                    where = f'SYNC(order={order}, sps={sps}, d={d}, {mode}, sigma={sigma}, gain={gain}, offset={offset}, N={rx.size})'
                    cases += 1
                    try:
                        form = cases % 3
                        if form == 0:
                            out, i = SYNC(rx, slots, sps)
                        elif form == 1:
                            out, i = SYNC(rx, binary_sequence(slots), sps=sps)
                        else:
                            gv(sps=sps, R=1e9)
                            out, i = SYNC(electrical_signal(rx), binary_sequence(slots))
                    except Exception as e:  # noqa
                        fail('sync/index', f'{where} raised {type(e).__name__}: {e}')
                        continue
                    if int(i) != d:
                        fail('sync/index', f'{where} returned index {i}')
                        continue
                    sig = np.asarray(out.signal if hasattr(out, 'signal') else out)
                    if sig.size < 1 or not np.array_equal(np.real(sig), rx[d:d + sig.size]):
                        fail('sync/signal', f'{where}: returned signal does not start at sample {d}')

    # short records are rejected
    for sps in (1, 4, 8):
        slots = prbs(7, seed=5)
        l = slots.size * sps
        for n in (1, 2, l // 2, l - sps, l - 1):
            rx = np.tile(np.kron(slots, np.ones(sps)), 2)[:n] + 0.05 * rng.standard_normal(n)
            for form in range(2):
                try:
                    if form == 0:
                        SYNC(rx, slots, sps)
                    else:
                        gv(sps=sps, R=1e9)
                        SYNC(electrical_signal(rx), binary_sequence(slots))
                except Exception:
                    continue
                fail('sync/short', f'record of {n} samples accepted for a pattern of {l} samples')


if __name__ == '__main__':
    print('checking', os.path.dirname(opticomlib.__file__))
    check_range_clause()
    check_memory_clause()
    check_sequences()
    check_sync_clause()
    finish()
