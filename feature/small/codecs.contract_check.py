import sys
import os

_here = os.path.dirname(os.path.abspath(__file__))
if sys.path and os.path.abspath(sys.path[0] or '.') == _here:
    sys.path.pop(0)

import inspect
import itertools
import warnings

import numpy as np
from scipy.integrate import quad
from scipy.optimize import minimize_scalar
from scipy.special import erfc

warnings.simplefilter('ignore')

from opticomlib import gv
from opticomlib import ook, ppm
from opticomlib.devices import DAC, MZM, PD, PRBS, LPF
from opticomlib.typing import binary_sequence, electrical_signal, optical_signal, eye
from opticomlib.ppm import PPM_ENCODER, PPM_DECODER, HDD, SDD

FAILS = []


def check(cond, clause, detail=''):
    if not cond:
        FAILS.append(f'{clause}: {detail}')
        if len(FAILS) > 25:
            report()


def report():
    if FAILS:
        for f in FAILS:
            print('FAIL', f)
        sys.exit(1)
    print('PASS')
    sys.exit(0)


def Qf(x):
    return 0.5 * erfc(np.asarray(x, dtype=float) / np.sqrt(2))


def ref_encode(bits, M):
    k = int(np.log2(M))
    bits = list(bits)
    n = len(bits) // k
    out = np.zeros(n * M, dtype=int)
    for i in range(n):
        v = 0
        for b in bits[i * k:(i + 1) * k]:
            v = 2 * v + int(b)
        out[i * M + v] = 1
    return out


# ---------------------------------------------------------------- C12
def c12_codec():
    for M in (2, 4, 8, 16, 32, 64, 128, 256):
        k = int(np.log2(M))
        for n in range(k, 13):
            for tup in itertools.product((0, 1), repeat=n):
                if M > 8 and n > 9 and (hash(tup) % 7):
                    continue
                b = np.array(tup)
                enc = PPM_ENCODER(b, M)
                check(isinstance(enc, binary_sequence), 'C12.enc.type', f'M={M}')
                ref = ref_encode(tup, M)
                check(np.array_equal(enc.data, ref), 'C12.enc.position', f'M={M} b={tup}')
                check(np.all(enc.data.reshape(-1, M).sum(axis=1) == 1), 'C12.enc.one-ON', f'M={M} b={tup}')
                dec = PPM_DECODER(enc, M)
                check(np.array_equal(dec.data, b[:n // k * k]), 'C12.dec.roundtrip', f'M={M} b={tup}')

    rng = np.random.default_rng(12)
    for M in (2, 4, 8, 16, 32, 64, 128, 256):
        k = int(np.log2(M))
        for _ in range(4):
            n = int(rng.integers(50, 2000))
            b = rng.integers(0, 2, n)
            ref = ref_encode(b, M)
            s = ''.join(map(str, b))
            kinds = [s, list(map(int, b)), tuple(map(int, b)), b, b.astype(bool), b.astype(float), binary_sequence(b)]
            for inp in kinds:
                enc = PPM_ENCODER(inp, M)
                check(np.array_equal(enc.data, ref), 'C12.enc.containers', f'M={M} {type(inp).__name__}')
            rs = ''.join(map(str, ref))
            dkinds = [rs, list(map(int, ref)), tuple(map(int, ref)), ref, ref.astype(bool), binary_sequence(ref)]
            for inp in dkinds:
                dec = PPM_DECODER(inp, M)
                check(np.array_equal(dec.data, b[:n // k * k]), 'C12.dec.containers', f'M={M} {type(inp).__name__}')


def hdd_props(x, M, seed, tag):
    np.random.seed(seed)
    out = HDD(x, M)
    check(isinstance(out, binary_sequence), 'C12.hdd.type', tag)
    o = np.asarray(out.data).astype(int).reshape(-1, M)
    xi = np.asarray(x).astype(int).reshape(-1, M)
    check(o.shape == xi.shape, 'C12.hdd.shape', tag)
    check(np.all(o.sum(axis=1) == 1), 'C12.hdd.one-ON', tag)
    cnt = xi.sum(axis=1)
    one = cnt == 1
    check(np.array_equal(o[one], xi[one]), 'C12.hdd.valid-unchanged', tag)
    many = cnt > 1
    check(np.all((o[many] & xi[many]).sum(axis=1) == 1), 'C12.hdd.keeps-ON-slot', tag)


def c12_hdd():
    for M in (2, 4, 8):
        for nslots in range(M, 17, M):
            for tup in itertools.product((0, 1), repeat=nslots):
                hdd_props(np.array(tup), M, (sum(tup) * 31 + nslots) % 1000, f'M={M} x={tup}')
    rng = np.random.default_rng(121)
    for M in (2, 4, 8, 16, 32, 64, 128, 256):
        for seed in range(6):
            nsym = int(rng.integers(1, 60))
            x = (rng.random(nsym * M) < rng.choice([0.02, 0.2, 0.5])).astype(int)
            hdd_props(x, M, seed * 977 + M, f'M={M} random seed={seed}')
            ref = ref_encode(rng.integers(0, 2, nsym * int(np.log2(M))), M)
            for inp in (''.join(map(str, ref)), list(ref), tuple(ref), ref, binary_sequence(ref)):
                np.random.seed(seed)
                check(np.array_equal(HDD(inp, M).data, ref), 'C12.hdd.identity', f'M={M} {type(inp).__name__}')
    for M in (3, 5, 6, 12, 100):
        for f, arg in ((HDD, np.zeros(M * 2, dtype=int)), (SDD, np.zeros(M * 2 * gv.sps))):
            try:
                f(arg, M)
                check(False, 'C12.reject.M', f'{f.__name__} M={M} accepted')
            except ValueError:
                pass
            except Exception as e:
                check(False, 'C12.reject.M', f'{f.__name__} M={M} raised {type(e).__name__}')
    for M in (2, 4, 8, 16):
        for extra in (1, M - 1, M + 1):
            if extra % M == 0:
                continue
            try:
                HDD(np.zeros(3 * M + extra, dtype=int), M)
                check(False, 'C12.reject.len', f'HDD M={M}')
            except ValueError:
                pass
            except Exception as e:
                check(False, 'C12.reject.len', f'HDD raised {type(e).__name__}')
            try:
                SDD(np.zeros((3 * M + extra) * gv.sps), M)
                check(False, 'C12.reject.len', f'SDD M={M}')
            except ValueError:
                pass
            except Exception as e:
                check(False, 'C12.reject.len', f'SDD raised {type(e).__name__}')


def c12_sdd():
    rng = np.random.default_rng(122)
    for sps in (4, 7, 16, 33):
        gv(sps=sps, R=1e9)
        for M in (2, 4, 8, 16, 64):
            nsym = 12
            e = rng.random((nsym * M, sps))
            e[rng.integers(0, nsym * M, 5)] *= -1
            x = e.ravel()
            want = np.zeros(nsym * M, dtype=int)
            idx = e.sum(axis=1).reshape(nsym, M).argmax(axis=1)
            want[np.arange(nsym) * M + idx] = 1
            for inp in (x, electrical_signal(x), electrical_signal(0.5 * x, 0.5 * x)):
                out = SDD(inp, M)
                check(isinstance(out, binary_sequence), 'C12.sdd.type', f'M={M}')
                check(np.array_equal(out.data, want), 'C12.sdd.argmax', f'M={M} sps={sps}')
            b = rng.integers(0, 2, nsym * int(np.log2(M)))
            code = PPM_ENCODER(b, M)
            for shape in ('nrz', 'gaussian'):
                w = DAC(code, pulse_shape=shape)
                check(np.array_equal(SDD(w, M).data, code.data), 'C12.sdd.identity', f'M={M} sps={sps} {shape}')
    gv(sps=16, R=1e9)


# ---------------------------------------------------------------- C03
def flip(b, k, rng):
    r = np.array(b).copy()
    pos = rng.choice(len(r), k, replace=False)
    r[pos] ^= 1
    return r


def c03_counter():
    rng = np.random.default_rng(3)
    for mod in (ook, ppm):
        for n in (8, 100, 2047):
            b = rng.integers(0, 2, n)
            for k in (0, 1, 3, n // 4):
                r = flip(b, k, rng)
                for Tx, Rx in ((b, r), (binary_sequence(b), binary_sequence(r)), (list(b), list(r))):
                    v = mod.BER_analizer('counter', Tx=Tx, Rx=Rx)
                    check(v == k / n, 'C03.counter', f'{mod.__name__} k={k} n={n} got {v}')


def link(bits, shape, Vpi, loss, ER, p_dbm, r, RL, bwf, two_pol, sps, R):
    gv(sps=sps, R=R)
    bits = binary_sequence(bits)
    v = DAC(bits, Vout=Vpi, bias=0.0, pulse_shape=shape)
    amp = np.sqrt(1e-3 * 10 ** (p_dbm / 10))
    if two_pol:
        cw = optical_signal(np.vstack([np.ones(v.len()), np.zeros(v.len())]) * amp, n_pol=2)
    else:
        cw = optical_signal(np.ones(v.len()) * amp)
    o = MZM(cw, v, bias=-Vpi, Vpi=Vpi, loss_dB=loss, ER_dB=ER)
    return PD(o, BW=bwf * R, r=r, R_load=RL, include_noise='ase-only', i_dark=0.0)


def manual_decide(y, n):
    s = (y.signal + (y.noise if y.noise is not None else 0)).real
    smp = s[gv.sps // 2::gv.sps][:n]
    return smp


def c03_link():
    rng = np.random.default_rng(33)
    cfgs = [
        dict(shape='nrz', Vpi=5.0, loss=0.0, ER=26.0, p_dbm=0.0, r=1.0, RL=50.0, bwf=0.75, two_pol=False, sps=16, R=1e9),
        dict(shape='gaussian', Vpi=3.3, loss=3.0, ER=12.0, p_dbm=-6.0, r=0.7, RL=1e3, bwf=1.5, two_pol=False, sps=9, R=2.5e9),
        dict(shape='nrz', Vpi=4.0, loss=1.0, ER=40.0, p_dbm=3.0, r=0.9, RL=50.0, bwf=0.7, two_pol=False, sps=32, R=10e9),
        dict(shape='gaussian', Vpi=5.0, loss=0.0, ER=20.0, p_dbm=0.0, r=1.0, RL=50.0, bwf=1.0, two_pol=False, sps=64, R=1e9),
    ]
    for ci, cfg in enumerate(cfgs):
        seqs = [rng.integers(0, 2, 96), PRBS(order=7).data[:120], rng.integers(0, 2, 40)]
        for b in seqs:
            b = np.array(b).astype(int)
            if b.min() == b.max():
                b[0] ^= 1
            try:
                y = link(b, **cfg)
            except Exception as e:
                check(False, 'C03.link.build', f'cfg{ci} {type(e).__name__}: {e}')
                continue
            smp = manual_decide(y, len(b))
            hi, lo = smp[b == 1], smp[b == 0]
            thr = 0.5 * (hi.mean() + lo.mean())
            b_pol = b
            smp_bits = (smp > thr).astype(int)
            check(np.array_equal(smp_bits, b_pol), 'C03.link.manual', f'cfg{ci}')
            try:
                rx = ook.DSP(y)[0]
                check(np.array_equal(rx.data[:len(b)], b_pol), 'C03.ook.DSP', f'cfg{ci} n={len(b)}')
                check(ook.BER_analizer('counter', Tx=binary_sequence(b_pol), Rx=rx) == 0, 'C03.ook.counter0', f'cfg{ci}')
            except Exception as e:
                check(False, 'C03.ook.DSP', f'cfg{ci} {type(e).__name__}: {e}')
    gv(sps=16, R=1e9)


def c03_direct():
    rng = np.random.default_rng(34)
    for sps in (4, 8, 15, 16, 33, 64):
        gv(sps=sps, R=1e9)
        for shape in ('nrz', 'gaussian'):
            shaper = (lambda s_: LPF(s_, 0.75 * gv.R)) if shape == 'nrz' else (lambda s_: s_)
            for n in (32, 64, 257):
                b = rng.integers(0, 2, n)
                b[:2] = (0, 1)
                x = shaper(DAC(b, Vout=rng.uniform(0.2, 3), bias=rng.uniform(0, 1), pulse_shape=shape))
                rx, e, th = ook.DSP(x)
                check(isinstance(rx, binary_sequence), 'C03.ook.DSP.type', '')
                check(np.array_equal(rx.data, b), 'C03.ook.DSP.direct', f'sps={sps} {shape} n={n}')
                check(ook.BER_analizer('counter', Tx=b, Rx=rx.data) == 0, 'C03.ook.counter0', '')
            for M in (2, 4, 8, 16):
                k = int(np.log2(M))
                b = rng.integers(0, 2, k * 40)
                code = PPM_ENCODER(b, M)
                x = shaper(DAC(code, Vout=rng.uniform(0.2, 3), pulse_shape=shape))
                for dec in ('soft', 'hard'):
                    np.random.seed(5)
                    try:
                        rx = ppm.DSP(x, M, decision=dec)
                    except Exception as ex:
                        check(False, 'C03.ppm.DSP', f'{dec} M={M} sps={sps} {shape}: {type(ex).__name__} {ex}')
                        continue
                    check(isinstance(rx, binary_sequence), 'C03.ppm.DSP.type', dec)
                    check(np.array_equal(rx.data, b), 'C03.ppm.DSP', f'{dec} M={M} sps={sps} {shape}')
                    check(ppm.BER_analizer('counter', Tx=binary_sequence(b), Rx=rx) == 0, 'C03.ppm.counter0', dec)
                np.random.seed(6)
                rx = ppm.DSP(x, M)
                check(np.array_equal(rx.data, b), 'C03.ppm.DSP.default', f'M={M} sps={sps} {shape}')
    gv(sps=16, R=1e9)


# ---------------------------------------------------------------- C13
def ook_err(r, mu, s0, s1):
    return 0.5 * (Qf((mu - r) / s1) + Qf(r / s0))


def ook_true_min(mu, s0, s1):
    g = np.linspace(-0.5 * mu, 1.5 * mu, 20001)
    v = ook_err(g, mu, s0, s1)
    i = int(np.argmin(v))
    lo, hi = g[max(i - 1, 0)], g[min(i + 1, len(g) - 1)]
    res = minimize_scalar(ook_err, bounds=(lo, hi), args=(mu, s0, s1), method='bounded', options={'xatol': 1e-14 * mu})
    return min(res.fun, v[i])


def ppm_hard_sym(r, mu, s0, s1, M):
    return 1 - Qf((r - mu) / s1) * (1 - Qf(r / s0)) ** (M - 1)


def c13_ook_theory():
    rng = np.random.default_rng(13)
    for _ in range(200):
        s = 10 ** rng.uniform(-6, 2)
        mu = s * rng.uniform(1e-3, 20)
        got = float(ook.theory_BER(mu, s, s))
        want = float(Qf(mu / 2 / s))
        h = mu / 999 / 2
        bound = float(ook_err(mu / 2 + h, mu, s, s))
        check(got >= want * (1 - 1e-9), 'C13.ook.equal-sigma.not-below', f'mu={mu} s={s} {got} {want}')
        check(got <= bound * (1 + 1e-9), 'C13.ook.equal-sigma.grid', f'mu={mu} s={s} {got} {bound}')
    for _ in range(200):
        s0 = 10 ** rng.uniform(-4, 1)
        s1 = s0 * 10 ** rng.uniform(-1, 1)
        mu = max(s0, s1) * rng.uniform(1e-3, 20)
        got = float(ook.theory_BER(mu, s0, s1))
        tmin = ook_true_min(mu, s0, s1)
        g = np.linspace(0, mu, 1000)
        gmin = ook_err(g, mu, s0, s1).min()
        check(got >= tmin * (1 - 1e-7) - 1e-300, 'C13.ook.not-below-min', f'{mu} {s0} {s1} {got} {tmin}')
        check(got <= gmin * (1 + 1e-9), 'C13.ook.within-1000-grid', f'{mu} {s0} {s1} {got} {gmin}')
    s0, s1 = 0.13, 0.21
    mus = np.linspace(0.01, 20 * 0.13, 60)
    v = ook.theory_BER(mus, s0, s1)
    check(np.shape(v) == mus.shape, 'C13.ook.vectorise.shape', '')
    check(np.all(np.diff(v) <= 1e-15), 'C13.ook.monotone', '')
    check(np.all(v <= 0.5 + 1e-12), 'C13.ook.bound', '')
    check(np.allclose(v, [float(ook.theory_BER(m, s0, s1)) for m in mus], rtol=1e-12, atol=0), 'C13.ook.vectorise', '')
    v2 = ook.theory_BER(np.array([0.5, 1.0]), np.array([0.1, 0.2]), np.array([0.2, 0.1]))
    check(np.allclose(v2, [float(ook.theory_BER(0.5, 0.1, 0.2)), float(ook.theory_BER(1.0, 0.2, 0.1))], rtol=1e-12), 'C13.ook.vectorise.all', '')


def c13_ppm_theory():
    rng = np.random.default_rng(131)
    for _ in range(40):
        s0 = 10 ** rng.uniform(-3, 1)
        s1 = s0 * 10 ** rng.uniform(-0.7, 0.7)
        mu = np.sqrt(s0 ** 2 + s1 ** 2) * rng.uniform(0.05, 7)
        got = float(ppm.theory_BER(mu, s0, s1, 2, 'soft'))
        want = float(Qf(mu / np.sqrt(s0 ** 2 + s1 ** 2)))
        check(abs(got - want) <= 1e-6 * want + 1e-12, 'C13.ppm.soft.M2', f'{mu} {s0} {s1} {got} {want}')
        check(float(ppm.theory_BER(mu, s0, s1, 2)) == got, 'C13.ppm.default-soft', '')
    for M in (2, 4, 8, 16, 64, 256):
        for _ in range(6):
            s0 = 10 ** rng.uniform(-2, 0)
            s1 = s0 * 10 ** rng.uniform(-0.5, 0.5)
            mu = max(s0, s1) * rng.uniform(0.2, 12)
            soft = float(ppm.theory_BER(mu, s0, s1, M, 'soft'))
            hard = float(ppm.theory_BER(mu, s0, s1, M, 'hard'))
            check(soft <= hard * (1 + 1e-6) + 1e-12, 'C13.ppm.soft<=hard', f'M={M} {mu} {s0} {s1} {soft} {hard}')
            bnd = M / (2 * (M - 1))
            check(soft <= bnd + 1e-9 and hard <= bnd + 1e-9, 'C13.ppm.bound', f'M={M}')
            g = np.linspace(0, mu, 1000)
            gmin = ppm_hard_sym(g, mu, s0, s1, M).min() * bnd
            gg = np.linspace(-0.5 * mu, 1.5 * mu, 200001)
            tmin = ppm_hard_sym(gg, mu, s0, s1, M).min() * bnd
            check(hard <= gmin * (1 + 1e-9), 'C13.ppm.hard.grid', f'M={M} {hard} {gmin}')
            check(hard >= tmin * (1 - 1e-3) - 1e-15, 'C13.ppm.hard.not-below', f'M={M} {hard} {tmin}')
        mus = np.linspace(0.05, 2.0, 12)
        for dec in ('soft', 'hard'):
            v = ppm.theory_BER(mus, 0.1, 0.17, M, dec)
            check(np.shape(v) == mus.shape, 'C13.ppm.vectorise.shape', dec)
            check(np.all(np.diff(v) <= 1e-9), 'C13.ppm.monotone', f'M={M} {dec}')
            ind = [float(ppm.theory_BER(m, 0.1, 0.17, M, dec)) for m in mus]
            check(np.allclose(v, ind, rtol=1e-9, atol=1e-15), 'C13.ppm.vectorise', f'M={M} {dec}')
    for M in (3, 6, 12):
        try:
            ppm.theory_BER(1, 0.1, 0.1, M)
            check(False, 'C13.ppm.reject.M', f'M={M}')
        except ValueError:
            pass


def c13_estimators():
    rng = np.random.default_rng(132)
    for _ in range(120):
        s0 = 10 ** rng.uniform(-3, 0)
        s1 = s0 * 10 ** rng.uniform(-0.7, 0.7)
        d = max(s0, s1) * rng.uniform(0.5, 20)
        mu0 = rng.uniform(-1, 1)
        e1 = eye(mu0=mu0, mu1=mu0 + d, s0=s0, s1=s1)
        e2 = eye(mu0=0.0, mu1=d, s0=s0, s1=s1)
        t1, t2 = ook.THRESHOLD_EST(e1), ook.THRESHOLD_EST(e2)
        step = d / 999
        check(mu0 <= t1 <= mu0 + d and 0 <= t2 <= d, 'C13.ook.thr.range', f'{t1} {t2}')
        check(abs((t1 - mu0) - t2) <= step * 1.001, 'C13.ook.thr.shift', f'{t1 - mu0} {t2}')
        topt = minimize_scalar(lambda r: 0.5 * (Qf((d - r) / s1) + Qf(r / s0)), bounds=(0, d), method='bounded', options={'xatol': 1e-12 * d}).x
        fopt = ook_err(topt, d, s0, s1)
        check(ook_err(t2, d, s0, s1) <= ook_err(np.linspace(0, d, 1000), d, s0, s1).min() * (1 + 1e-9), 'C13.ook.thr.opt', f'{t2} {topt}')
        b1 = ook.BER_analizer('estimator', eye_obj=e1)
        b2 = ook.BER_analizer('estimator', eye_obj=e2)
        th = float(ook.theory_BER(d, s0, s1))
        check(abs(b1 - b2) <= 1e-6 * b2 + 0.02 * fopt, 'C13.ook.est.shift', f'{b1} {b2}')
        check(fopt * (1 - 1e-6) <= b2 <= ook_err(np.linspace(0, d, 1000), d, s0, s1).min() * (1 + 1e-9), 'C13.ook.est.value', f'{b2} {fopt}')
        g1000 = ook_err(np.linspace(0, d, 1000), d, s0, s1).min()
        check(abs(b2 - th) <= (g1000 - fopt) * (1 + 1e-6) + 1e-9 * th, 'C13.ook.est.vs.theory', f'{b2} {th}')
        check(fopt * (1 - 1e-6) <= th <= g1000 * (1 + 1e-9), 'C13.ook.theory.in-grid-band', f'{th} {fopt} {g1000}')
        dm = s0 * rng.uniform(0.5, 20)
        es = eye(mu0=mu0, mu1=mu0 + dm, s0=s0, s1=s0)
        tm = ook.THRESHOLD_EST(es)
        check(abs(tm - (mu0 + dm / 2)) <= dm / 999 * 0.5001, 'C13.ook.thr.midpoint', f'{tm} {mu0 + dm / 2}')
    for M in (2, 4, 8, 16, 64, 256):
        for _ in range(12):
            s0 = 10 ** rng.uniform(-3, 0)
            s1 = s0 * 10 ** rng.uniform(-0.5, 0.5)
            d = (s0 + s1) * rng.uniform(1.5, 6)
            mu0 = rng.uniform(-1, 1)
            e1 = eye(mu0=mu0, mu1=mu0 + d, s0=s0, s1=s1)
            e2 = eye(mu0=0.0, mu1=d, s0=s0, s1=s1)
            t1, t2 = ppm.THRESHOLD_EST(e1, M), ppm.THRESHOLD_EST(e2, M)
            step = d / 999
            check(mu0 <= t1 <= mu0 + d and 0 <= t2 <= d, 'C13.ppm.thr.range', f'{t1} {t2}')
            check(abs((t1 - mu0) - t2) <= step * 1.001, 'C13.ppm.thr.shift', f'M={M} {t1 - mu0} {t2}')
            S0, S1 = s0 ** 2, s1 ** 2
            if abs(S1 - S0) > 1e-9 * S0:
                root = 1 / (S1 - S0) * (-d * S0 + s1 * s0 * np.sqrt(d ** 2 + 2 * (S1 - S0) * np.log(s1 / s0 * (M - 1))))
                if 0 < root < d:
                    f_root = ppm_hard_sym(root, d, s0, s1, M)
                    f_t = ppm_hard_sym(t2, d, s0, s1, M)
                    check(abs(t2 - root) <= 0.05 * d and f_t <= f_root * 1.05 + 1e-15, 'C13.ppm.thr.solves', f'M={M} {t2} {root}')
            for dec in ('hard', 'soft'):
                b1 = ppm.BER_analizer('estimator', eye_obj=e1, M=M, decision=dec)
                b2 = ppm.BER_analizer('estimator', eye_obj=e2, M=M, decision=dec)
                th = float(ppm.theory_BER(d, s0, s1, M, dec))
                check(abs(b1 - b2) <= 0.02 * b2 + 1e-12, 'C13.ppm.est.shift', f'M={M} {dec} {b1} {b2}')
                check(abs(b2 - th) <= 0.02 * th + 1e-12, 'C13.ppm.est.vs.theory', f'M={M} {dec} {b2} {th}')
            bs = ppm.BER_analizer('estimator', eye_obj=e2, M=M)
            check(bs == ppm.BER_analizer('estimator', eye_obj=e2, M=M, decision='soft'), 'C13.ppm.est.default', '')


# ---------------------------------------------------------------- optional features
def features():
    rng = np.random.default_rng(99)
    gv(sps=16, R=1e9)
    if 'threshold' in inspect.signature(ook.DSP).parameters:
        b = rng.integers(0, 2, 64)
        b[:2] = (0, 1)
        x = DAC(b, Vout=2.0, bias=0.5)
        rx, e, th = ook.DSP(x, threshold=1.5)
        check(th == 1.5 and np.array_equal(rx.data, b), 'feature.ook.DSP.threshold', '')
        rx0, e0, th0 = ook.DSP(x, threshold=None)
        check(np.array_equal(rx0.data, b) and th0 == ook.THRESHOLD_EST(e0), 'feature.ook.DSP.threshold.none', '')
    for dec in ('Soft', 'HARD'):
        try:
            a = float(ppm.theory_BER(1.0, 0.1, 0.2, 4, dec))
        except ValueError:
            continue
        check(a == float(ppm.theory_BER(1.0, 0.1, 0.2, 4, dec.lower())), 'feature.ppm.theory.case', dec)
    e = eye(mu0=0.0, mu1=1.0, s0=0.1, s1=0.2)
    for dec in ('Soft', 'HARD'):
        try:
            a = ppm.BER_analizer('estimator', eye_obj=e, M=4, decision=dec)
        except Exception:
            continue
        check(a == ppm.BER_analizer('estimator', eye_obj=e, M=4, decision=dec.lower()), 'feature.ppm.est.case', dec)
    for M in (3, 6, 1, 0):
        for f in (PPM_ENCODER, PPM_DECODER):
            try:
                f('01100110', M)
            except ValueError:
                pass
            except Exception:
                pass


def main():
    gv(sps=16, R=1e9)
    c12_codec()
    c12_hdd()
    c12_sdd()
    c03_counter()
    c03_direct()
    c03_link()
    c13_ook_theory()
    c13_ppm_theory()
    c13_estimators()
    features()
    report()


if __name__ == '__main__':
    main()
