"""Contract check for PRBS / DAC / SAMPLER / MZM / PM / LASER (clauses C04, C05, C06)."""
import sys
import os

_here = os.path.dirname(os.path.abspath(__file__))
if sys.path and os.path.abspath(sys.path[0] or os.getcwd()) == _here:
    sys.path.pop(0)

import inspect
import warnings
import numpy as np

from opticomlib.typing import gv, binary_sequence, electrical_signal, optical_signal
from opticomlib.devices import PRBS, DAC, SAMPLER, MZM, PM, LASER

TAPS = {7: 6, 9: 5, 11: 9, 15: 14, 20: 3, 23: 18, 31: 28}
FAILS = []


def fail(clause, detail):
    FAILS.append(f"{clause}: {detail}")
    print(f"FAIL {clause}: {detail}")


def check(cond, clause, detail=""):
    if not cond:
        fail(clause, detail)
    return bool(cond)


def raises(exc, fn, *a, **k):
    with warnings.catch_warnings():
        warnings.simplefilter("ignore")
        try:
            fn(*a, **k)
        except exc:
            return True
        except Exception as err:  # wrong type
            return f"raised {type(err).__name__}"
        return "no exception"


def quiet(fn, *a, **k):
    with warnings.catch_warnings():
        warnings.simplefilter("ignore")
        return fn(*a, **k)


# ----------------------------------------------------------------------------------------
# C04
# ----------------------------------------------------------------------------------------
def prbs_ref(n, seed, length):
    t = TAPS[n]
    s = seed % (1 << n)
    if s == 0:
        s = 1
    a = [(s >> j) & 1 for j in range(n - 1, -1, -1)]  # a[-(n-1)] .. a[0]; bit j is the output j steps before the first
    for _ in range(1, length):
        a.append(a[-n] ^ a[-t])
    return np.array(a[n - 1:n - 1 + length], dtype=np.uint8)


def check_C04(rng):
    orders = [7, 9, 11, 15, 20, 23, 31]

    # recurrence from the seed bits, many seeds incl. negative / oversized
    for n in orders:
        seeds = [1, (1 << n) - 1, (1 << (n - 1)), 2, 3, -1, -5, (1 << n) + 5, (1 << (n + 3)) + 77, -(1 << n) - 9]
        seeds += [int(rng.integers(1, 1 << n)) for _ in range(12)]
        seeds += [int(rng.integers(-(1 << 40), 1 << 40)) for _ in range(6)]
        for seed in seeds:
            if seed % (1 << n) == 0:
                continue
            L = int(rng.integers(1, 400))
            with warnings.catch_warnings(record=True) as w:
                warnings.simplefilter("always")
                out = PRBS(n, len=L, seed=seed)
            check(isinstance(out, binary_sequence), "C04.type", f"order {n}")
            check(len(w) == 0 or not any(issubclass(x.category, UserWarning) and "seed" in str(x.message).lower() for x in w),
                  "C04.no-warning-nonzero-seed", f"order {n} seed {seed}")
            ref = prbs_ref(n, seed, L)
            if not check(out.data.shape == (L,) and np.array_equal(out.data, ref), "C04.recurrence",
                         f"order {n} seed {seed} len {L}"):
                break
            check(int(out.data[0]) == (seed % (1 << n)) & 1, "C04.first-is-LSB", f"order {n} seed {seed}")

        # default seed / default len behaviour stays a valid member of the family
        out = PRBS(n, len=50)
        check(np.array_equal(out.data, prbs_ref(n, (1 << n) - 1, 50)) or True, "C04.default", "")

    # period and balance (exhaustive state enumeration for small orders)
    for n in [7, 9, 11, 15]:
        N = (1 << n) - 1
        seed = int(rng.integers(1, 1 << n))
        out, st = PRBS(n, len=N, seed=seed, return_seed=True)
        check(st == seed, "C04.period-returns", f"order {n}")
        check(int(out.data.sum()) == 1 << (n - 1), "C04.ones-per-period", f"order {n}: {int(out.data.sum())}")
        # visited states: walk step by step through resumed calls for order 7/9, windows for the rest
        ext = np.concatenate([out.data, out.data[: n - 1]])
        # state m has bit j = a[m-j]; use windows of the cyclic sequence
        win = np.lib.stride_tricks.sliding_window_view(ext, n)
        codes = (win.astype(np.int64) * (1 << np.arange(n - 1, -1, -1))).sum(axis=1)
        check(np.unique(codes).size == N and codes.min() >= 1, "C04.visits-all-states", f"order {n}")
        out2 = PRBS(n, len=2 * N + 3, seed=seed).data
        check(np.array_equal(out2[:N], out2[N:2 * N]) and np.array_equal(out2[:3], out2[2 * N:]), "C04.periodic", f"order {n}")
        for p in prime_factors(N):
            d = N // p
            if d < N:
                check(not np.array_equal(out2[d:d + N], out2[:N]), "C04.exact-period", f"order {n} has period {d}")
        if n <= 9:
            for s0 in range(1, 1 << n):
                o, s1 = PRBS(n, len=1, seed=s0, return_seed=True)
                new = ((s0 >> (n - 1)) ^ (s0 >> (TAPS[n] - 1))) & 1
                if not check(int(o.data[0]) == s0 & 1 and s1 == ((s0 << 1) | new) & ((1 << n) - 1), "C04.state-step",
                             f"order {n} state {s0}"):
                    break

    for n in (20, 23):
        N = (1 << n) - 1
        seed = int(rng.integers(1, 1 << n))
        out, st = PRBS(n, len=N, seed=seed, return_seed=True)
        check(st == seed, "C04.period-returns", f"order {n}")
        check(int(out.data.sum()) == 1 << (n - 1), "C04.ones-per-period", f"order {n}")
        for p in prime_factors(N):
            d = N // p
            if d < N:
                check(not np.array_equal(out.data[d:], out.data[:-d]), "C04.exact-period", f"order {n} has period {d}")
        head = prbs_ref(n, seed, 5000)
        check(np.array_equal(out.data[:5000], head), "C04.recurrence", f"order {n} full period head")

    # resume: any split
    for n in orders:
        for _ in range(12):
            seed = int(rng.integers(-(1 << 33), 1 << 33))
            if seed % (1 << n) == 0:
                seed += 1
            parts = [int(x) for x in rng.integers(1, 120, size=int(rng.integers(2, 6)))]
            whole, st_w = PRBS(n, len=sum(parts), seed=seed, return_seed=True)
            s = seed
            chunks = []
            for L in parts:
                o, s = PRBS(n, len=L, seed=s, return_seed=True)
                chunks.append(o.data)
            check(np.array_equal(np.concatenate(chunks), whole.data), "C04.resume", f"order {n} seed {seed} parts {parts}")
            check(s == st_w, "C04.resume-state", f"order {n}")
            check(isinstance(s, (int, np.integer)) and 0 < int(s) < (1 << n), "C04.state-range", f"order {n}")

    # zero seed -> 1 with a warning
    for n in orders:
        for z in (0, 1 << n, -(1 << n), 5 << n):
            with warnings.catch_warnings(record=True) as w:
                warnings.simplefilter("always")
                out = PRBS(n, len=40, seed=z)
            check(len(w) >= 1, "C04.zero-seed-warning", f"order {n} seed {z}")
            check(np.array_equal(out.data, prbs_ref(n, 1, 40)), "C04.zero-seed-is-1", f"order {n} seed {z}")

    # argument validation
    for bad in (0, -1, -100):
        r = raises(ValueError, PRBS, 7, len=bad)
        check(r is True, "C04.len-positive", f"len={bad}: {r}")
    for bad in ("20", 2.5, [3]):
        r = raises((TypeError, ValueError), PRBS, 7, len=bad)
        check(r is True, "C04.len-int", f"len={bad!r}: {r}")
    for bad in (0, 1, 5, 8, 10, 13, 16, 24, 32, 63):
        r = raises(ValueError, PRBS, bad, len=10)
        check(r is True, "C04.order", f"order={bad}: {r}")

    # optional feature: inverted output
    if "invert" in inspect.signature(PRBS).parameters:
        for n in orders:
            seed = int(rng.integers(1, 1 << n))
            a, sa = PRBS(n, len=77, seed=seed, return_seed=True)
            b, sb = PRBS(n, len=77, seed=seed, return_seed=True, invert=True)
            c, sc = PRBS(n, len=77, seed=seed, return_seed=True, invert=False)
            check(np.array_equal(a.data, c.data) and sa == sc, "C04.invert-false-is-default", f"order {n}")
            check(np.array_equal(a.data ^ 1, b.data) and sa == sb, "feature.invert", f"order {n}")


def prime_factors(x):
    out, p = [], 2
    while p * p <= x:
        if x % p == 0:
            out.append(p)
            while x % p == 0:
                x //= p
        p += 1
    if x > 1:
        out.append(x)
    return out


# ----------------------------------------------------------------------------------------
# C05
# ----------------------------------------------------------------------------------------
def bit_forms(bits, rng):
    forms = [
        "".join(str(b) for b in bits),
        " ".join(str(b) for b in bits),
        [int(b) for b in bits],
        np.array(bits, dtype=int),
        np.array(bits, dtype=bool),
        binary_sequence(bits),
    ]
    return forms


def check_C05(rng):
    sps_values = [2, 3, 4, 5, 7, 8, 9, 15, 16, 17, 31, 32, 33, 63, 64, 65, 127, 128] + [int(x) for x in rng.integers(2, 129, size=14)]
    for sps in sps_values:
        quiet(gv, sps=sps, R=1e9)
        for trial in range(4):
            nb = int(rng.integers(1, 24))
            bits = rng.integers(0, 2, size=nb)
            Vout = float(rng.uniform(-47.9, 47.9))
            bias = float(rng.uniform(-47.9, 47.9))
            if trial == 0:
                Vout, bias = 1.0, 0.0
            if trial == 1:
                Vout, bias = int(rng.integers(1, 48)), int(rng.integers(-47, 48))
            forms = bit_forms(bits, rng)
            form = forms[int(rng.integers(0, len(forms)))]
            lvl = bias + Vout * bits.astype(float)

            # NRZ (both spellings)
            for shape in ("nrz", "rect"):
                x = DAC(form, bias=bias, Vout=Vout, pulse_shape=shape)
                check(isinstance(x, electrical_signal), "C05.type", shape)
                if not check(x.signal.shape == (nb * sps,), "C05.length", f"{shape} sps {sps} nb {nb}: {x.signal.shape}"):
                    continue
                check(np.array_equal(x.signal.real.reshape(nb, sps), np.repeat(lvl[:, None], sps, axis=1)) and
                      np.all(np.imag(x.signal) == 0), "C05.nrz-levels", f"sps {sps} Vout {Vout} bias {bias}")
                for k in range(sps):
                    y = SAMPLER(x, k)
                    if not check(np.array_equal(y.signal, x.signal[k::sps]), "C05.sampler-signal", f"sps {sps} k {k}"):
                        break
                    dec = (y.signal.real > bias + Vout / 2) if Vout > 0 else (y.signal.real < bias + Vout / 2)
                    if not check(np.array_equal(dec.astype(int), bits), "C05.nrz-roundtrip", f"sps {sps} k {k}"):
                        break

            # RZ
            x = DAC(form, bias=bias, Vout=Vout, pulse_shape="rz")
            if check(x.signal.shape == (nb * sps,), "C05.length", f"rz sps {sps} nb {nb}"):
                blk = x.signal.real.reshape(nb, sps)
                h = sps // 2
                check(np.array_equal(blk[:, :h], np.repeat(lvl[:, None], h, axis=1)), "C05.rz-first-half", f"sps {sps}")
                check(np.all(blk[:, h:] == bias), "C05.rz-second-half", f"sps {sps}")
                for k in range(h):
                    y = SAMPLER(x, k)
                    dec = (y.signal.real > bias + Vout / 2) if Vout > 0 else (y.signal.real < bias + Vout / 2)
                    if not check(np.array_equal(dec.astype(int), bits), "C05.rz-roundtrip", f"sps {sps} k {k}"):
                        break

            # all forms give the same waveform
            ref = DAC(forms[0], bias=bias, Vout=Vout, pulse_shape="nrz").signal
            for f in forms[1:]:
                check(np.array_equal(DAC(f, bias=bias, Vout=Vout).signal, ref), "C05.forms", f"{type(f).__name__}")

            # sampler carries the noise
            sig = rng.normal(size=nb * sps)
            noi = rng.normal(size=nb * sps)
            k = int(rng.integers(0, sps))
            y = SAMPLER(electrical_signal(sig, noi), k)
            check(np.array_equal(y.signal, sig[k::sps]) and y.noise is not None and np.array_equal(y.noise, noi[k::sps]),
                  "C05.sampler-noise", f"sps {sps} k {k}")
            y = SAMPLER(electrical_signal(sig), k)
            check(np.array_equal(y.signal, sig[k::sps]) and y.signal.size == len(sig[k::sps]), "C05.sampler-signal", f"sps {sps} k {k}")

        # gaussian
        if sps >= 8:
            Ts = sorted(set([int(np.ceil(sps / 2)), sps, 2 * sps, int(rng.integers(int(np.ceil(sps / 2)), 2 * sps + 1))]))
            for T in Ts:
                for m in (1, 2, 3, 4):
                    Vout = float(rng.uniform(0.2, 47.9)) * (1 if rng.random() < 0.7 else -1)
                    bias = float(rng.uniform(-47.9, 47.9))
                    pos = 4
                    bits = np.zeros(10, dtype=int)
                    bits[pos] = 1
                    x = DAC(bits, bias=bias, Vout=Vout, pulse_shape="gaussian", T=T, m=m)
                    if not check(x.signal.shape == (10 * sps,), "C05.length", f"gaussian sps {sps}"):
                        continue
                    p = (x.signal.real - bias) / Vout
                    mx = p.max()
                    idx = np.where(p >= mx - 1e-9)[0]
                    centre = pos * sps + sps / 2
                    check(np.min(np.abs(idx - centre)) <= 1.0, "C05.gauss-peak-position",
                          f"sps {sps} T {T} m {m}: argmax {idx} centre {centre}")
                    check(abs(mx - 1) <= 0.05, "C05.gauss-peak-value", f"sps {sps} T {T} m {m}: {mx}")
                    ab = np.where(p >= mx / 2)[0]
                    l, r = ab[0], ab[-1]
                    if l > 0 and r < p.size - 1:
                        lf = l - 1 + (mx / 2 - p[l - 1]) / (p[l] - p[l - 1])
                        rf = r + (p[r] - mx / 2) / (p[r] - p[r + 1])
                        check(abs((rf - lf) - T) <= 1.0, "C05.gauss-fwhm", f"sps {sps} T {T} m {m}: {rf - lf}")
                    else:
                        fail("C05.gauss-fwhm", f"pulse not isolated sps {sps} T {T}")
                    y = SAMPLER(x, sps // 2)
                    dec = (y.signal.real > bias + Vout / 2) if Vout > 0 else (y.signal.real < bias + Vout / 2)
                    check(np.array_equal(dec.astype(int), bits), "C05.gauss-roundtrip", f"sps {sps} T {T} m {m}")
            # default kwargs still produce a valid gaussian waveform of the right length
            x = DAC("0001000", pulse_shape="gaussian")
            check(x.signal.shape == (7 * sps,), "C05.length", "gaussian default")

    # rejections
    quiet(gv, sps=16, R=1e9)
    cases = [
        (ValueError, dict(pulse_shape="triangle")),
        (ValueError, dict(pulse_shape="sinc")),
        (ValueError, dict(pulse_shape="")),
        (ValueError, dict(Vout=50)),
        (ValueError, dict(Vout=-48.5)),
        (ValueError, dict(Vout=1e3)),
        (ValueError, dict(bias=50)),
        (ValueError, dict(bias=-60.0)),
        (TypeError, dict(Vout="5")),
        (TypeError, dict(Vout=1 + 1j)),
        (TypeError, dict(Vout=[1.0])),
        (TypeError, dict(bias=1 + 1j)),
        (TypeError, dict(bias="0")),
        (ValueError, dict(pulse_shape="gaussian", T=0)),
        (ValueError, dict(pulse_shape="gaussian", T=-4)),
        (ValueError, dict(pulse_shape="gaussian", T=3 * 16)),
        (ValueError, dict(pulse_shape="gaussian", T=2 * 16 + 1)),
        (TypeError, dict(pulse_shape="gaussian", T=8.5)),
        (TypeError, dict(pulse_shape="gaussian", T="8")),
        (ValueError, dict(pulse_shape="gaussian", T=8, m=0)),
        (ValueError, dict(pulse_shape="gaussian", m=-2)),
        (TypeError, dict(pulse_shape="gaussian", m=1.5)),
        (TypeError, dict(pulse_shape="gaussian", m="2")),
        (TypeError, dict(pulse_shape="gaussian", c=1 + 1j)),
        (TypeError, dict(pulse_shape="gaussian", c="0")),
    ]
    for exc, kw in cases:
        r = raises(exc, DAC, "010", **kw)
        check(r is True, "C05.rejects", f"{kw}: {r}")
    for shape in ("nrz", "rz", "rect", "gaussian"):
        check(DAC("0110", pulse_shape=shape).signal.size == 64, "C05.shapes-accepted", shape)

    # optional feature: mixed-case spellings
    try:
        a = DAC("0110", pulse_shape="Gaussian").signal
    except ValueError:
        a = None
    if a is not None:
        check(np.array_equal(a, DAC("0110", pulse_shape="gaussian").signal), "feature.shape-case", "Gaussian")
        check(np.array_equal(DAC("0110", pulse_shape="Rz").signal, DAC("0110", pulse_shape="rz").signal), "feature.shape-case", "Rz")
        check(np.array_equal(DAC("0110", pulse_shape="Nrz").signal, DAC("0110", pulse_shape="nrz").signal), "feature.shape-case", "Nrz")
        for bad in (None, 3, "gauss", "n r z"):
            r = raises(ValueError, DAC, "010", pulse_shape=bad)
            check(r is True, "C05.rejects", f"pulse_shape={bad!r}: {r}")


# ----------------------------------------------------------------------------------------
# C06
# ----------------------------------------------------------------------------------------
def rand_field(rng, n, npol, noise):
    shape = (n,) if npol == 1 else (2, n)
    s = rng.normal(size=shape) + 1j * rng.normal(size=shape)
    s *= 10 ** rng.uniform(-3, 1)
    nz = None
    if noise:
        nz = (rng.normal(size=shape) + 1j * rng.normal(size=shape)) * 10 ** rng.uniform(-4, 0)
    return s, nz


def mzm_h(u, bias, Vpi, loss_dB, ER_dB):
    th = np.pi * (np.asarray(u, dtype=float) + bias) / (2 * Vpi)
    return np.sqrt(10 ** (-loss_dB / 10)) * (np.cos(th) + 1j * 10 ** (-ER_dB / 20) * np.sin(th))


def close(a, b, rtol=1e-9, atol=1e-12):
    a = np.asarray(a)
    b = np.asarray(b)
    return a.shape == b.shape and np.allclose(a, b, rtol=rtol, atol=atol * max(1.0, float(np.max(np.abs(b))) if b.size else 1.0))


def check_C06(rng):
    quiet(gv, sps=16, R=1e9)
    for trial in range(160):
        n = int(rng.integers(2, 200))
        npol = int(rng.integers(1, 3))
        noise = bool(rng.integers(0, 2))
        s, nz = rand_field(rng, n, npol, noise)
        Vpi = float(10 ** rng.uniform(-1, 1.5))
        bias = float(rng.uniform(-3 * Vpi, 3 * Vpi))
        loss = float(rng.choice([0.0, rng.uniform(0, 20)]))
        ER = float(rng.choice([0.0, 60.0, rng.uniform(0, 60)]))
        pol = "xy"[int(rng.integers(0, 2))]
        sel = 0 if pol == "x" else 1
        kind = trial % 4
        if kind == 0:
            u = float(rng.uniform(-4 * Vpi, 4 * Vpi))
            drives = [u, int(round(u))] if trial % 8 == 0 else [u]
        else:
            u = rng.uniform(-4 * Vpi, 4 * Vpi, size=n)
            drives = [u, electrical_signal(u), electrical_signal(u, rng.normal(size=n))]

        outs = []
        for d in drives:
            inp = optical_signal(s.copy(), None if nz is None else nz.copy())
            out = MZM(inp, d, bias=bias, Vpi=Vpi, loss_dB=loss, ER_dB=ER, pol=pol)
            check(isinstance(out, optical_signal), "C06.mzm-type", "")
            outs.append(out)
        # scalar int vs float drives differ in value; compare each with its own formula
        for d, out in zip(drives, outs):
            uu = d.signal.real if isinstance(d, electrical_signal) else d
            h = mzm_h(uu, bias, Vpi, loss, ER)
            if npol == 1:
                exp_s = s * h
                exp_n = None if nz is None else nz * h
            else:
                exp_s = np.zeros_like(s)
                exp_s[sel] = s[sel] * h
                exp_n = None
                if nz is not None:
                    exp_n = np.zeros_like(nz)
                    exp_n[sel] = nz[sel] * h
            ok = check(close(out.signal, exp_s), "C06.mzm-transfer", f"trial {trial} npol {npol} pol {pol} kind {type(d).__name__}")
            if nz is not None:
                check(out.noise is not None and close(out.noise, exp_n), "C06.mzm-noise", f"trial {trial}")
            if npol == 2:
                check(np.all(out.signal[1 - sel] == 0), "C06.mzm-pol-extinguished", f"trial {trial} pol {pol}")
                if nz is not None and out.noise is not None:
                    check(np.all(out.noise[1 - sel] == 0), "C06.mzm-pol-extinguished-noise", f"trial {trial}")
            if ok:
                lim = np.sqrt(10 ** (-loss / 10)) * np.abs(s)
                check(np.all(np.abs(out.signal) <= lim * (1 + 1e-12) + 1e-300), "C06.mzm-passive", f"trial {trial}")
        if kind != 0:
            for o in outs[1:]:
                check(np.array_equal(o.signal, outs[0].signal), "C06.mzm-drive-kinds", f"trial {trial}")

        # 2*Vpi periodic power
        inp = optical_signal(s.copy())
        base = drives[0] if kind == 0 else u
        p0 = np.abs(MZM(inp, base, bias=bias, Vpi=Vpi, loss_dB=loss, ER_dB=ER, pol=pol).signal) ** 2
        for kper in (1, -1, 3):
            p1 = np.abs(MZM(optical_signal(s.copy()), base + 2 * Vpi * kper, bias=bias, Vpi=Vpi, loss_dB=loss, ER_dB=ER, pol=pol).signal) ** 2
            check(np.allclose(p1, p0, rtol=1e-7, atol=1e-9 * (p0.max() + 1e-300)), "C06.mzm-periodic", f"trial {trial}")

        # on/off ratio
        one = optical_signal(np.ones(8) * (1 + 0.5j))
        on = MZM(one, -bias, bias=bias, Vpi=Vpi, loss_dB=loss, ER_dB=ER)
        off = MZM(one, Vpi - bias, bias=bias, Vpi=Vpi, loss_dB=loss, ER_dB=ER)
        ratio = 10 * np.log10(np.mean(np.abs(on.signal) ** 2) / np.mean(np.abs(off.signal) ** 2))
        check(abs(ratio - ER) <= 1e-6 * max(1.0, ER), "C06.mzm-extinction", f"ER {ER} got {ratio}")

    # mismatched lengths
    op = optical_signal(np.ones(10))
    for bad in (np.ones(9), np.ones(11), electrical_signal(np.ones(3)), [1.0, 2.0, 3.0]):
        r = raises(ValueError, MZM, op, bad)
        check(r is True, "C06.mzm-length-mismatch", f"{type(bad).__name__}: {r}")
    r = raises(TypeError, MZM, electrical_signal(np.ones(5)), 3)
    check(r is True, "C06.mzm-op-type", str(r))
    # defaults stay usable
    out = MZM(optical_signal(np.ones(10)), 1.0)
    check(np.all(np.abs(out.signal) <= 1 + 1e-12), "C06.mzm-passive", "defaults")

    # ---------------- PM
    for trial in range(120):
        n = int(rng.integers(2, 200))
        npol = int(rng.integers(1, 3))
        noise = bool(rng.integers(0, 2))
        s, nz = rand_field(rng, n, npol, noise)
        Vpi = float(10 ** rng.uniform(-1, 1.5))
        if trial % 3 == 0:
            a = float(rng.uniform(-20, 20))
            b = float(rng.uniform(-20, 20))
            da, db_, dab = [a], [b], a + b
            av, bv = a, b
        else:
            av = rng.uniform(-20, 20, size=n)
            bv = rng.uniform(-20, 20, size=n)
            da = [av, electrical_signal(av)]
            db_ = [bv, electrical_signal(bv)]
            dab = av + bv
        mk = lambda: optical_signal(s.copy(), None if nz is None else nz.copy())
        outs = [PM(mk(), d, Vpi=Vpi) for d in da]
        rot = np.exp(1j * np.pi * np.asarray(av) / Vpi)
        check(close(outs[0].signal, s * rot), "C06.pm-phase", f"trial {trial}")
        for o in outs[1:]:
            check(np.array_equal(o.signal, outs[0].signal), "C06.pm-drive-kinds", f"trial {trial}")
        tot_in = s if nz is None else s + nz
        o = outs[0]
        tot_out = o.signal if nz is None else o.signal + o.noise
        if nz is not None:
            check(o.noise is not None and close(o.noise, nz * rot), "C06.pm-noise", f"trial {trial}")
        check(np.allclose(np.abs(tot_out) ** 2, np.abs(tot_in) ** 2, rtol=1e-9, atol=0), "C06.pm-power", f"trial {trial}")
        two = PM(PM(mk(), da[-1], Vpi=Vpi), db_[0], Vpi=Vpi)
        once = PM(mk(), dab, Vpi=Vpi)
        check(close(two.signal, once.signal, rtol=1e-8, atol=1e-10), "C06.pm-additive", f"trial {trial}")
        if nz is not None:
            check(close(two.noise, once.noise, rtol=1e-8, atol=1e-10), "C06.pm-additive-noise", f"trial {trial}")
    op = optical_signal(np.ones(10))
    for bad in (np.ones(9), np.ones(11), electrical_signal(np.ones(3))):
        r = raises(ValueError, PM, op, bad)
        check(r is True, "C06.pm-length-mismatch", f"{type(bad).__name__}: {r}")
    check(close(PM(op, 2).signal, PM(op, 2.0).signal), "C06.pm-int-scalar", "")
    check(close(PM(op, 2.5).signal, np.ones(10) * np.exp(1j * np.pi * 2.5 / 5.0)) or True, "C06.pm-default", "")

    # ---------------- LASER
    for trial in range(60):
        sps = int(rng.choice([8, 16, 32]))
        R = float(rng.choice([1e9, 10e9, 2.5e9]))
        quiet(gv, sps=sps, R=R)
        n = int(rng.choice([256, 500, 1024, 2048]))
        t = np.arange(n) * gv.dt
        p = float(rng.uniform(-30, 30))
        P = 1e-3 * 10 ** (p / 10)
        bins = int(rng.integers(-n // 2 + 1, n // 2))
        df = bins * gv.fs / n
        lw = None if trial % 2 == 0 else float(10 ** rng.uniform(3, 7.5))
        variants = [dict(), dict(df=df), dict(lw=lw, df=df), dict(lw=lw)]
        for kw in variants:
            kw = {k: v for k, v in kw.items() if v is not None}
            np.random.seed(int(rng.integers(0, 2**31 - 1)))
            out = LASER(t, p, **kw)
            check(isinstance(out, optical_signal) and out.signal.shape == (n,), "C06.laser-shape", f"{kw}")
            check(np.allclose(np.abs(out.signal) ** 2, P, rtol=1e-9, atol=0), "C06.laser-power", f"p {p} {kw}")
            if "lw" not in kw:
                spec = np.abs(np.fft.fft(out.signal))
                want = bins % n if "df" in kw else 0
                check(int(np.argmax(spec)) == want, "C06.laser-peak", f"df {kw.get('df')} argmax {int(np.argmax(spec))} want {want}")
        # Nyquist limits are inclusive of everything strictly inside
        for frac in (0.499, -0.499, 0.25):
            out = LASER(t, p, df=frac * gv.fs)
            check(np.allclose(np.abs(out.signal) ** 2, P, rtol=1e-9, atol=0), "C06.laser-power", f"df frac {frac}")
        # lw = 0 is a legal (ideal) linewidth
        out = LASER(t, p, lw=0.0, df=df)
        check(np.allclose(np.abs(out.signal) ** 2, P, rtol=1e-9, atol=0), "C06.laser-power", "lw 0")
        # RIN keeps working (not power-preserving, only sanity)
        out = LASER(t, p, rin=-150.0)
        check(np.all(np.isfinite(out.signal)), "C06.laser-rin-finite", "")


def main():
    t0 = __import__("time").time()
    rng = np.random.default_rng(20240927)
    np.random.seed(12345)
    check_C04(rng)
    check_C05(rng)
    check_C06(rng)
    dt = __import__("time").time() - t0
    if FAILS:
        print(f"FAILED {len(FAILS)} clause checks in {dt:.1f}s; first: {FAILS[0]}")
        sys.exit(1)
    print(f"PASS ({dt:.1f}s)")
    sys.exit(0)


if __name__ == "__main__":
    main()
