"""Contract check for C07..C11 (DM, FIBER, PD, EDFA, LPF, BPF) of opticomlib.devices.

Prints PASS and exits 0 if every sampled clause holds; otherwise prints the
failing clauses and exits 1.  opticomlib is imported from PYTHONPATH.
"""
import os
import sys

_here = os.path.dirname(os.path.abspath(__file__))
if sys.path and os.path.abspath(sys.path[0] or os.getcwd()) == _here:
    sys.path.pop(0)

import inspect
import warnings

import numpy as np
import scipy.signal as sg
from numpy.fft import fft, ifft, fftfreq, fftshift, ifftshift
from scipy.constants import k as kB, e as qe, h as hP

warnings.simplefilter("ignore")

from opticomlib import gv, optical_signal, electrical_signal  # noqa: E402
from opticomlib.devices import BPF, EDFA, DM, FIBER, LPF, PD  # noqa: E402

FAIL = []


def check(cond, clause):
    if not bool(cond):
        FAIL.append(clause)
        print("FAIL:", clause, flush=True)


def rel(a, b):
    a = np.asarray(a)
    b = np.asarray(b)
    d = np.linalg.norm((a - b).ravel())
    n = np.linalg.norm(b.ravel())
    return d / n if n > 0 else d


def idb(x):
    return 10 ** (x / 10)


def energy(x):
    return np.sum(np.abs(np.atleast_2d(x)) ** 2, axis=-1)


def rfield(rng, n, n_pol, amp=1.0):
    shape = (n,) if n_pol == 1 else (2, n)
    return amp * (rng.standard_normal(shape) + 1j * rng.standard_normal(shape)) / np.sqrt(2)


def set_fs(sps, R):
    gv(sps=sps, R=R)
    return gv.fs


FS_SET = [(16, 1e9), (32, 10e9), (8, 40e9), (5, 2.5e9)]


# --------------------------------------------------------------------------
# C07  linear propagation
# --------------------------------------------------------------------------
def lin_ref(x, fs, L=1.0, alpha_db=0.0, b2=0.0, b3=0.0):
    """b2 [ps^2/km], b3 [ps^3/km], L [km], alpha [dB/km]."""
    n = x.shape[-1]
    w = 2 * np.pi * fftfreq(n) * fs * 1e-12
    a = alpha_db / 4.343
    H = np.exp(-a * L / 2 - 1j * b2 * L * w**2 / 2 - 1j * b3 * L * w**3 / 6)
    return ifft(fft(x, axis=-1) * H, axis=-1), H


def c07():
    rng = np.random.default_rng(707)
    for sps, R in FS_SET:
        fs = set_fs(sps, R)
        # dispersion scale adapted to the sampling rate so that the phase is of order pi at Nyquist
        Dn = 2 * np.pi / (np.pi * fs * 1e-12) ** 2
        for n in (255, 256, 1001, 64):
            for n_pol in (1, 2):
                x = rfield(rng, n, n_pol)
                xin = optical_signal(x, n_pol=n_pol)
                for D in (Dn, -0.37 * Dn, 5.3 * Dn, 0.0):
                    tag = f"[fs={fs:g},n={n},pol={n_pol},D={D:g}]"
                    y = DM(xin, D)
                    check(isinstance(y, optical_signal), "C07 DM returns optical_signal " + tag)
                    check(y.signal.shape == x.shape and y.n_pol == n_pol, "C07 DM preserves length/polarisation layout " + tag)
                    check(np.allclose(energy(y.signal), energy(x), rtol=1e-11, atol=0), "C07 DM conserves energy " + tag)
                    ref, _ = lin_ref(x, fs, 1.0, 0.0, D, 0.0)
                    check(rel(y.signal, ref) < 1e-10, "C07 DM acts as exp(-j*D*w^2/2) " + tag)
                    back = DM(y, -D)
                    check(rel(back.signal, x) < 1e-10, "C07 DM(-D) undoes DM(D) " + tag)
                    D2 = -0.61 * Dn
                    y12 = DM(DM(xin, D2), D)
                    ysum = DM(xin, D + D2)
                    check(rel(y12.signal, ysum.signal) < 1e-10, "C07 DM(D1) after DM(D2) equals DM(D1+D2) " + tag)
                    res = DM(xin, D, retH=True)
                    check(isinstance(res, tuple) and len(res) == 2, "C07 DM retH returns (out, H) " + tag)
                    yh, H = res
                    check(np.shape(H)[-1] == n, "C07 DM retH grid " + tag)
                    applied = ifft(fft(x, axis=-1) * ifftshift(H), axis=-1)
                    check(rel(yh.signal, applied) < 1e-10 and rel(yh.signal, y.signal) < 1e-12,
                          "C07 DM retH matches the filter applied " + tag)

                # FIBER gamma = 0
                for (L, al, b2, b3) in ((1.0, 0.0, Dn, 0.0), (7.5, 0.2, -Dn / 5, 0.0),
                                        (3.0, 0.5, Dn / 3, Dn * 1e3 / (fs * 1e-12 * 2 * np.pi) / 50),
                                        (50.0, 0.25, 0.0, -Dn * 1e3 / (fs * 1e-12 * 2 * np.pi) / 900),
                                        (12.0, 0.0, 0.0, 0.0)):
                    tag = f"[fs={fs:g},n={n},pol={n_pol},L={L},a={al},b2={b2:g},b3={b3:g}]"
                    y = FIBER(xin, length=L, alpha=al, beta_2=b2, beta_3=b3, gamma=0)
                    check(isinstance(y, optical_signal) and y.signal.shape == x.shape and y.n_pol == n_pol,
                          "C07 FIBER preserves length/polarisation layout " + tag)
                    ref, _ = lin_ref(x, fs, L, al, b2, b3)
                    check(rel(y.signal, ref) < 1e-10, "C07 FIBER(gamma=0) is the linear filter " + tag)
                    check(np.allclose(energy(y.signal), energy(x) * 10 ** (-al * L / 10), rtol=1e-3 * (al > 0) + 1e-11, atol=0),
                          "C07 FIBER output power = input*10^(-alpha L/10) per polarisation " + tag)
                    if al == 0 and b3 == 0:
                        d = DM(xin, b2 * L)
                        check(rel(y.signal, d.signal) < 1e-10, "C07 FIBER(L,beta2) equals DM(beta2*L) " + tag)
                    L2 = 0.37 * L
                    ya = FIBER(FIBER(xin, length=L, alpha=al, beta_2=b2, beta_3=b3, gamma=0),
                               length=L2, alpha=al, beta_2=b2, beta_3=b3, gamma=0)
                    yb = FIBER(xin, length=L + L2, alpha=al, beta_2=b2, beta_3=b3, gamma=0)
                    check(rel(ya.signal, yb.signal) < 1e-10, "C07 two spans equal one span of the summed length " + tag)


# --------------------------------------------------------------------------
# C08  nonlinear fibre
# --------------------------------------------------------------------------
def pulse_train(n, sps, bits, peak, lead_zero=True):
    t = np.arange(n)
    x = np.zeros(n)
    for k, b in enumerate(bits):
        if b:
            x += np.exp(-0.5 * ((t - (k + 0.5) * sps) / (sps / 4)) ** 2)
    x = x / x.max() * np.sqrt(peak)
    if lead_zero:
        x[: sps // 2] = 0.0
    return x.astype(complex)


def c08():
    rng = np.random.default_rng(808)
    fs = set_fs(16, 10e9)
    sps = 16
    n = 16 * 8
    bits = [0, 1, 1, 0, 1, 0, 0, 1]
    cases = []
    for n_pol in (1, 2):
        p = pulse_train(n, sps, bits, 0.5)
        if n_pol == 2:
            p = np.array([p, 0.6 * np.roll(p, 2 * sps) * np.exp(0.3j)])
            p = p / np.sqrt(np.max(np.sum(np.abs(p) ** 2, axis=0)) / 0.5)
        cases.append(("pulses", n_pol, p))
        r = rfield(rng, n + 1, n_pol)
        r = r / np.sqrt(np.max(np.sum(np.abs(np.atleast_2d(r)) ** 2, axis=0)) / 0.3)
        r[..., :5] = 0
        cases.append(("random", n_pol, r))

    params = [  # L, alpha, b2, b3, gamma
        (20.0, 0.2, -21.0, 0.1, 1.3),
        (5.0, 0.0, 25.0, -0.2, 4.0),
        (100.0, 0.5, 10.0, 0.0, 0.2),
        (10.0, 0.0, 0.0, 0.0, 2.0),
        (10.0, 0.3, 0.0, 0.0, 2.0),
    ]
    for name, n_pol, x in cases:
        xin = optical_signal(x, n_pol=n_pol)
        ppk = np.max(np.sum(np.abs(np.atleast_2d(x)) ** 2, axis=0))
        for (L, al, b2, b3, g) in params:
            g = min(g, 10.0 / (ppk * L))
            for phi in (0.1, 0.02):
                tag = f"[{name},pol={n_pol},L={L},a={al},b2={b2},b3={b3},g={g:g},phi={phi}]"
                y = FIBER(xin, length=L, alpha=al, beta_2=b2, beta_3=b3, gamma=g, phi_max=phi)
                check(isinstance(y, optical_signal) and y.signal.shape == x.shape, "C08 output has the input's shape " + tag)
                check(np.all(np.isfinite(y.signal)), "C08 output finite " + tag)
                check(np.allclose(energy(y.signal), energy(x) * 10 ** (-al * L / 10), rtol=2e-3 * (al > 0) + 1e-9, atol=1e-300),
                      "C08 energy per polarisation = input*10^(-alpha L/10) " + tag)
                if b2 == 0 and b3 == 0:
                    a = al / 4.343
                    Leff = L if a == 0 else (1 - np.exp(-a * L)) / a
                    ref = x * np.exp(-a * L / 2) * np.exp(1j * g * np.abs(x) ** 2 * Leff)
                    check(rel(y.signal, ref) < (1e-9 if a == 0 else 2.0 * phi) + 1e-3 * (al > 0),
                          "C08 closed-form SPM without dispersion " + tag)

    # convergence to the NLSE solution with error <= C*phi_max
    x = pulse_train(n, sps, bits, 0.4)
    xin = optical_signal(x)
    L, al, b2, b3, g = 20.0, 0.2, -21.0, 0.1, 0.6
    ref = FIBER(xin, length=L, alpha=al, beta_2=b2, beta_3=b3, gamma=g, phi_max=5e-4).signal
    errs = []
    for phi in (0.1, 0.05, 0.02, 0.005):
        y = FIBER(xin, length=L, alpha=al, beta_2=b2, beta_3=b3, gamma=g, phi_max=phi).signal
        errs.append(rel(y, ref))
        check(errs[-1] <= 1.0 * phi, f"C08 convergence: relative error <= C*phi_max [phi={phi}, err={errs[-1]:.3g}]")
    check(errs[-1] <= errs[0] + 1e-12, "C08 convergence: error decreases as phi_max -> 0")

    # one polarisation == x-polarisation of two-polarisation with empty y
    for (L, al, b2, b3, g) in params[:2]:
        x1 = pulse_train(n, sps, bits, 0.5)
        y1 = FIBER(optical_signal(x1), length=L, alpha=al, beta_2=b2, beta_3=b3, gamma=g, phi_max=0.05)
        y2 = FIBER(optical_signal(np.array([x1, np.zeros_like(x1)]), n_pol=2), length=L, alpha=al, beta_2=b2, beta_3=b3,
                   gamma=g, phi_max=0.05)
        check(y1.n_pol == 1 and y2.n_pol == 2, "C08 polarisation layout preserved")
        check(rel(y2.signal[0], y1.signal) < 1e-10 and np.max(np.abs(y2.signal[1])) == 0,
              f"C08 one-pol equals x-pol of two-pol with empty y [L={L}]")


# --------------------------------------------------------------------------
# C11  LPF / BPF
# --------------------------------------------------------------------------
def bessel_ref(x, cutoff, n, fs):
    sos = sg.bessel(N=n, Wn=cutoff, btype="low", fs=fs, output="sos", norm="mag")
    return sg.sosfiltfilt(sos, x, axis=-1), sos


def tone_gain_db(filt, f, fs, n, complex_tone):
    t = np.arange(n) / fs
    x = np.exp(2j * np.pi * f * t) if complex_tone else np.cos(2 * np.pi * f * t)
    y = filt(x)
    m = slice(n // 4, 3 * n // 4)
    return 10 * np.log10(np.mean(np.abs(y[m]) ** 2) / np.mean(np.abs(x[m]) ** 2)), \
        np.mean(np.abs(y) ** 2) / np.mean(np.abs(x) ** 2)


def c11():
    rng = np.random.default_rng(1111)
    for sps, R in FS_SET:
        fs = set_fs(sps, R)
        N = 4096
        for order in range(1, 9):
            for cf in (0.012, 0.05, 0.2, 0.449):
                bw = cf * fs
                tag = f"[fs={fs:g},n={order},cutoff={cf}fs]"
                # ---- LPF
                x = rng.standard_normal(N)
                y = rng.standard_normal(N)
                a, b = 1.7, -0.45
                fx, fy, fxy = LPF(x, bw, n=order), LPF(y, bw, n=order), LPF(a * x + b * y, bw, n=order)
                check(isinstance(fx, electrical_signal), "C11 LPF returns electrical_signal " + tag)
                check(fx.signal.shape == (N,), "C11 LPF preserves length " + tag)
                check(rel(fxy.signal, a * fx.signal + b * fy.signal) < 1e-9, "C11 LPF linear " + tag)
                ref, sos = bessel_ref(x, bw, order, fs)
                check(rel(fx.signal, ref) < 1e-10, "C11 LPF zero-phase Bessel (value) " + tag)
                es = electrical_signal(x, y)
                fe = LPF(es, bw, n=order)
                check(rel(fe.signal, fx.signal) < 1e-12 and rel(fe.noise, fy.signal) < 1e-12 and fe.signal.shape == (N,),
                      "C11 LPF acts identically/independently on signal and noise (container input) " + tag)
                check(LPF(es, bw, n=order, fs=fs).signal.shape == (N,) and rel(LPF(x, bw, n=order, fs=fs).signal, fx.signal) < 1e-12,
                      "C11 LPF explicit fs equals gv.fs " + tag)
                c = LPF(np.full(N, 2.5), bw, n=order)
                check(np.max(np.abs(c.signal - 2.5)) < 1e-6, "C11 LPF passes a constant unchanged " + tag)
                for odd in (257, 100):
                    check(LPF(rng.standard_normal(odd), bw, n=order).signal.shape == (odd,), "C11 LPF preserves length (short) " + tag)

                def lp(v):
                    return LPF(v, bw, n=order).signal

                if cf >= 0.05:
                    g, gall = tone_gain_db(lp, bw, fs, N, False)
                    check(abs(g + 6.02) < 0.1, f"C11 LPF -6 dB at cutoff (got {g:.3f}) " + tag)
                gains = []
                for fr in (0.25, 0.5, 1.0, 1.5, 2.0):
                    f = fr * bw
                    if f < 0.49 * fs:
                        g, gall = tone_gain_db(lp, f, fs, N, False)
                        gains.append(g)
                        check(gall <= 1 + 1e-9, "C11 LPF never increases tone power " + tag)
                check(all(np.diff(gains) <= 1e-9), "C11 LPF attenuation monotonic in frequency " + tag)
                # symmetric pulse -> symmetric response
                k = np.arange(N) - N // 2
                p = np.exp(-0.5 * (k / (3 + 0.3 / cf)) ** 2)
                fp = lp(p)
                lo, hi = N // 2 - 200, N // 2 + 201
                seg = fp[lo:hi]
                check(np.max(np.abs(seg - seg[::-1])) < 1e-8 * np.max(np.abs(seg)) + 1e-12, "C11 LPF no delay (symmetric response) " + tag)
                # retH
                res = LPF(x, bw, n=order, retH=True)
                check(isinstance(res, tuple) and len(res) == 2, "C11 LPF retH returns (out, H) " + tag)
                out, H = res
                _, Href = sg.sosfreqz(sos, worN=N, fs=fs, whole=True)
                check(np.shape(H) == (N,) and rel(H, fftshift(Href)) < 1e-10, "C11 LPF retH is the single-pass prototype on the signal grid " + tag)
                check(rel(out.signal, fx.signal) < 1e-12, "C11 LPF retH output equals plain output " + tag)

                # ---- BPF
                if order in (1, 2, 4, 5, 8):
                    for n_pol in (1, 2):
                        u, v = rfield(rng, N, n_pol), rfield(rng, N, n_pol)
                        nu = rfield(rng, N, n_pol)
                        ca, cb = 0.8 - 0.3j, -1.1 + 0.2j
                        bu = BPF(optical_signal(u, n_pol=n_pol), 2 * bw, n=order)
                        bv = BPF(optical_signal(v, n_pol=n_pol), 2 * bw, n=order)
                        buv = BPF(optical_signal(ca * u + cb * v, n_pol=n_pol), 2 * bw, n=order)
                        t2 = tag + f"[pol={n_pol}]"
                        check(isinstance(bu, optical_signal) and bu.signal.shape == u.shape and bu.n_pol == n_pol,
                              "C11 BPF preserves length/layout " + t2)
                        check(bu.noise is None, "C11 BPF does not invent a noise component " + t2)
                        check(rel(buv.signal, ca * bu.signal + cb * bv.signal) < 1e-9, "C11 BPF linear " + t2)
                        refu, _ = bessel_ref(u, bw, order, fs)
                        check(rel(bu.signal, refu) < 1e-10, "C11 BPF zero-phase Bessel, per polarisation " + t2)
                        bn = BPF(optical_signal(u, nu, n_pol=n_pol), 2 * bw, n=order)
                        refn, _ = bessel_ref(nu, bw, order, fs)
                        check(rel(bn.signal, refu) < 1e-10 and rel(bn.noise, refn) < 1e-10,
                              "C11 BPF acts identically/independently on signal and noise " + t2)
                        cc = BPF(optical_signal(np.full(u.shape, 1.5 - 0.5j), n_pol=n_pol), 2 * bw, n=order)
                        check(np.max(np.abs(cc.signal - (1.5 - 0.5j))) < 1e-6, "C11 BPF passes a constant " + t2)

                    def bp(v):
                        return BPF(optical_signal(v), 2 * bw, n=order).signal

                    if cf >= 0.05:
                        for sgn in (1, -1):
                            g, gall = tone_gain_db(bp, sgn * bw, fs, N, True)
                            check(abs(g + 6.02) < 0.1, f"C11 BPF -6 dB at BW/2 either side (got {g:.3f}) " + tag)
                    gains = []
                    for fr in (0.25, 0.5, 1.0, 1.5, 2.0):
                        f = fr * bw
                        if f < 0.49 * fs:
                            g, gall = tone_gain_db(bp, -f, fs, N, True)
                            gains.append(g)
                            check(gall <= 1 + 1e-9, "C11 BPF never increases tone power " + tag)
                    check(all(np.diff(gains) <= 1e-9), "C11 BPF attenuation monotonic " + tag)
                    fpb = bp(p.astype(complex))[lo:hi]
                    check(np.max(np.abs(fpb - fpb[::-1])) < 1e-8 * np.max(np.abs(fpb)) + 1e-12, "C11 BPF no delay " + tag)
    # default order is part of the Bessel model used everywhere else (PD / EDFA): value check with defaults
    fs = set_fs(16, 1e9)
    x = rng.standard_normal(1000)
    check(LPF(x, 0.1 * fs).signal.shape == (1000,), "C11 LPF default call preserves length")
    u = rfield(rng, 1000, 2)
    check(BPF(optical_signal(u, n_pol=2), 0.2 * fs).signal.shape == (2, 1000), "C11 BPF default call preserves length")


# --------------------------------------------------------------------------
# C09  PD
# --------------------------------------------------------------------------
def neb_fraction(bw, fs, order=4, npts=1 << 16):
    sos = sg.bessel(N=order, Wn=bw, btype="low", fs=fs, output="sos", norm="mag")
    _, H = sg.sosfreqz(sos, worN=npts, fs=fs, whole=True)
    return np.mean(np.abs(H) ** 4)


SELECTIONS = ["ase-only", "thermal-only", "shot-only", "ase-thermal", "ase-shot", "thermal-shot", "all"]


def c09():
    rng = np.random.default_rng(909)
    for sps, R in FS_SET[:3]:
        fs = set_fs(sps, R)
        N = 2048
        for n_pol in (1, 2):
            for with_noise in (False, True):
                x = rfield(rng, N, n_pol, amp=0.03)
                nz = rfield(rng, N, n_pol, amp=0.002) if with_noise else None
                xin = optical_signal(x, nz, n_pol=n_pol)
                for (r, T, Rl, bwf, idk, Fn) in ((1.0, 300.0, 50.0, 0.2, 10e-9, 0), (0.35, 0.0, 1e3, 0.05, 0.0, 3.0),
                                                 (0.9, 77.0, 7.0, 0.45, 1e-6, 6)):
                    bw = bwf * fs
                    tag = f"[fs={fs:g},pol={n_pol},noise={with_noise},r={r},T={T},Rl={Rl},BW={bwf}fs]"
                    P = np.sum(np.abs(np.atleast_2d(x)) ** 2, axis=0)
                    ref, _ = bessel_ref(Rl * r * P, bw, 4, fs)
                    outs = {}
                    for sel in SELECTIONS:
                        for spelled in (sel, sel.upper(), sel.title()):
                            o = PD(xin, bw, r=r, T=T, R_load=Rl, include_noise=spelled, i_dark=idk, Fn=Fn)
                            check(isinstance(o, electrical_signal) and o.signal.shape == (N,) and o.noise is not None
                                  and o.noise.shape == (N,), "C09 PD output length equals input length " + tag + sel)
                            check(rel(o.signal, ref) < 1e-10, "C09 PD signal part deterministic = LPF(R*r*(|Ex|^2+|Ey|^2)) " + tag + spelled)
                        outs[sel] = o
                    # ase-only noise term is deterministic: beating terms + dark current
                    if with_noise:
                        sn = 2 * np.real(np.atleast_2d(x) * np.conj(np.atleast_2d(nz))).sum(axis=0)
                        nn = (np.abs(np.atleast_2d(nz)) ** 2).sum(axis=0)
                        beat = r * (sn + nn)
                    else:
                        beat = np.zeros(N)
                    refn, _ = bessel_ref((beat + idk) * Rl, bw, 4, fs)
                    check(rel(outs["ase-only"].noise, refn) < 1e-9 if np.any(refn) else np.max(np.abs(outs["ase-only"].noise)) < 1e-30,
                          "C09 PD ase-only noise = beating terms + dark-current offset " + tag)
                    if T == 0.0:
                        check(rel(outs["ase-thermal"].noise, refn) < 1e-9 if np.any(refn) else np.max(np.abs(outs["ase-thermal"].noise)) < 1e-30,
                              "C09 PD thermal term vanishes at T=0 " + tag)
                        if not with_noise and idk == 0.0:
                            check(np.max(np.abs(outs["thermal-only"].noise)) < 1e-30, "C09 PD thermal-only at T=0 and no dark current is zero " + tag)
                    # phase rotation / unitary polarisation rotation / scaling of the signal part
                    o0 = outs["ase-only"].signal
                    o1 = PD(optical_signal(x * np.exp(1.234j), nz, n_pol=n_pol), bw, r=r, T=T, R_load=Rl, include_noise="ase-only", i_dark=idk, Fn=Fn)
                    check(rel(o1.signal, o0) < 1e-10, "C09 PD invariant to phase rotation " + tag)
                    if n_pol == 2:
                        th, ph = 0.7, 1.1
                        U = np.array([[np.cos(th), -np.sin(th) * np.exp(-1j * ph)], [np.sin(th) * np.exp(1j * ph), np.cos(th)]])
                        o2 = PD(optical_signal(U @ x, n_pol=2), bw, r=r, T=T, R_load=Rl, include_noise="ase-only", i_dark=idk, Fn=Fn)
                        check(rel(o2.signal, o0) < 1e-10, "C09 PD invariant to unitary polarisation rotation " + tag)
                    o3 = PD(optical_signal(3.0 * x, n_pol=n_pol), bw, r=r / 2, T=T, R_load=Rl * 4, include_noise="shot-only", i_dark=idk, Fn=Fn)
                    check(rel(o3.signal, o0 * 9 / 2 * 4) < 1e-10, "C09 PD linear in r and R_load, quadratic in amplitude " + tag)
                # CW
                Pcw = 2e-3
                cw = np.sqrt(Pcw) * np.exp(0.4j) * np.ones(N)
                cwf = cw if n_pol == 1 else np.array([np.sqrt(0.3) * cw, np.sqrt(0.7) * cw * 1j])
                o = PD(optical_signal(cwf, n_pol=n_pol), 0.1 * fs, r=0.8, R_load=75.0)
                check(np.max(np.abs(o.signal - 0.8 * Pcw * 75.0)) < 1e-9 * 0.8 * Pcw * 75, f"C09 PD CW gives r*P*R_load [fs={fs:g},pol={n_pol}]")
                check(PD(optical_signal(cwf[..., :17], n_pol=n_pol), 0.1 * fs).signal.shape == (17,), "C09 PD length for a 17-sample record")

    # documented errors
    fs = set_fs(16, 1e9)
    xin = optical_signal(rfield(rng, 256, 1, 0.01))

    def raises(exc, **kw):
        try:
            PD(xin, 0.1 * fs, **kw)
        except exc:
            return True
        except Exception:
            return False
        return False

    check(raises(ValueError, r=0), "C09 PD r=0 -> ValueError")
    check(raises(ValueError, r=-0.1), "C09 PD r<0 -> ValueError")
    check(raises(ValueError, r=1.0001), "C09 PD r>1 -> ValueError")
    check(raises(TypeError, r="1"), "C09 PD r non-scalar -> TypeError")
    check(raises(TypeError, r=[0.5]), "C09 PD r list -> TypeError")
    check(raises(ValueError, T=-1), "C09 PD T<0 -> ValueError")
    check(raises(TypeError, T="300"), "C09 PD T non-scalar -> TypeError")
    check(raises(ValueError, R_load=-50), "C09 PD R_load<0 -> ValueError")
    check(raises(TypeError, R_load=None), "C09 PD R_load non-scalar -> TypeError")
    check(raises(TypeError, include_noise=3), "C09 PD include_noise non-string -> TypeError")
    check(raises(ValueError, include_noise="everything"), "C09 PD include_noise invalid -> ValueError")
    check(raises(ValueError, include_noise="ase"), "C09 PD include_noise invalid ('ase') -> ValueError")
    try:
        PD(np.ones(100), 0.1 * fs)
        check(False, "C09 PD non-optical input -> TypeError")
    except TypeError:
        pass
    except Exception:
        check(False, "C09 PD non-optical input -> TypeError")

    # statistical clauses
    np.random.seed(90909)
    fs = set_fs(16, 1e9)
    N = 1 << 18
    for (r, T, Rl, bwf, idk, Fn, Psig, Pn) in ((1.0, 300.0, 50.0, 0.2, 10e-9, 0.0, 1e-3, 0.0), (0.6, 120.0, 500.0, 0.1, 1e-6, 3.0, 1e-4, 2e-5)):
        bw = bwf * fs
        x = np.sqrt(Psig) * np.ones(N, complex)
        nz = None
        Pnm = 0.0
        if Pn > 0:
            nz = np.sqrt(Pn / 2) * (rng.standard_normal(N) + 1j * rng.standard_normal(N))
            Pnm = np.mean(np.abs(nz) ** 2)
        xin = optical_signal(x, nz)
        frac = neb_fraction(bw, fs)
        band = 6 * np.sqrt(2.0 / (N * frac)) * 1.5
        var_th = 4 * kB * T * idb(Fn) * (fs / 2) / Rl * frac
        var_sh = 2 * qe * (r * (Psig + Pnm) + idk) * (fs / 2) * frac
        oth = PD(xin, bw, r=r, T=T, R_load=Rl, include_noise="thermal-only", i_dark=idk, Fn=Fn)
        osh = PD(xin, bw, r=r, T=T, R_load=Rl, include_noise="shot-only", i_dark=idk, Fn=Fn)
        ots = PD(xin, bw, r=r, T=T, R_load=Rl, include_noise="thermal-shot", i_dark=idk, Fn=Fn)
        m = slice(64, -64)
        for name, o, var in (("thermal", oth, var_th), ("shot", osh, var_sh), ("thermal+shot", ots, var_th + var_sh)):
            i_n = o.noise[m].real / Rl
            se = np.sqrt(var / (N * frac)) * 1.5
            check(abs(np.mean(i_n) - idk) < 6 * se, f"C09 PD {name} noise zero-mean around the dark-current offset [r={r}]")
            check(abs(np.var(i_n) / var - 1) < band, f"C09 PD {name} noise variance matches the documented value x NEB (got ratio {np.var(i_n)/var:.4f}) [r={r}]")
            z = (i_n - np.mean(i_n)) / np.std(i_n)
            check(abs(np.mean(z**4) - 3) < 0.2 and abs(np.mean(z**3)) < 0.1, f"C09 PD {name} noise Gaussian [r={r}]")


# --------------------------------------------------------------------------
# C10  EDFA
# --------------------------------------------------------------------------
def c10():
    rng = np.random.default_rng(1010)
    np.random.seed(101010)
    for (sps, R, wl) in ((16, 1e9, 1550e-9), (8, 40e9, 1310e-9)):
        gv(sps=sps, R=R, wavelength=wl)
        fs, f0 = gv.fs, gv.f0
        N = 1 << 16
        for n_pol in (1, 2):
            for with_noise in (False, True):
                x = rfield(rng, N, n_pol, amp=0.02)
                nz = rfield(rng, N, n_pol, amp=1e-4) if with_noise else None
                xin = optical_signal(x, nz, n_pol=n_pol)
                for (G, NF) in ((0.0, 3.0), (17.0, 5.5), (40.0, 10.0)):
                    tag = f"[fs={fs:g},pol={n_pol},noise={with_noise},G={G},NF={NF}]"
                    y = EDFA(xin, G, NF)
                    g = np.sqrt(idb(G))
                    check(isinstance(y, optical_signal) and y.n_pol == 2 and y.signal.shape == (2, N) and y.noise is not None
                          and y.noise.shape == (2, N), "C10 EDFA returns a two-polarisation signal with noise " + tag)
                    if n_pol == 1:
                        check(rel(y.signal[0], g * x) < 1e-12 and np.max(np.abs(y.signal[1])) == 0,
                              "C10 EDFA signal = sqrt(G)*input in x, empty y for one-pol input " + tag)
                    else:
                        check(rel(y.signal, g * x) < 1e-12, "C10 EDFA signal = sqrt(G)*input in both polarisations " + tag)
                    amp_n = np.zeros((2, N), complex)
                    if with_noise:
                        if n_pol == 1:
                            amp_n[0] = g * nz
                        else:
                            amp_n = g * nz
                    ase = y.noise - amp_n
                    P_ase = idb(NF) * hP * f0 * (idb(G) - 1) * fs
                    if P_ase == 0:
                        check(np.max(np.abs(ase)) <= 1e-12 * (np.max(np.abs(amp_n)) + 1e-300), "C10 EDFA no ASE at unit gain " + tag)
                        continue
                    comps = np.array([ase[0].real, ase[0].imag, ase[1].real, ase[1].imag])
                    tot = np.sum(np.mean(np.abs(ase) ** 2, axis=1))
                    check(abs(tot / P_ase - 1) < 6 / np.sqrt(2 * N), f"C10 EDFA ASE total power NF*h*f0*(G-1)*fs (ratio {tot/P_ase:.4f}) " + tag)
                    for c_ in comps:
                        check(abs(np.mean(c_ ** 2) / (P_ase / 4) - 1) < 6 * np.sqrt(2 / N), "C10 EDFA ASE equal power per quadrature/polarisation " + tag)
                        check(abs(np.mean(c_)) < 6 * np.sqrt(P_ase / 4 / N), "C10 EDFA ASE zero mean " + tag)
                        z = c_ / np.std(c_)
                        check(abs(np.mean(z ** 4) - 3) < 0.2, "C10 EDFA ASE Gaussian " + tag)
                    cc = np.corrcoef(comps)
                    check(np.max(np.abs(cc - np.eye(4))) < 6 / np.sqrt(N), "C10 EDFA ASE components mutually independent " + tag)
                    check(abs(np.corrcoef(comps[0][1:], comps[0][:-1])[0, 1]) < 6 / np.sqrt(N), "C10 EDFA ASE white " + tag)
                    y2 = EDFA(xin, G, NF)
                    check(np.max(np.abs(y2.noise - y.noise)) > 0, "C10 EDFA ASE freshly drawn at each call " + tag)
                    # OSNR never improves
                    if with_noise:
                        osnr_in = np.sum(np.mean(np.abs(np.atleast_2d(x)) ** 2, axis=1)) / np.sum(np.mean(np.abs(np.atleast_2d(nz)) ** 2, axis=1))
                        osnr_out = np.sum(np.mean(np.abs(y.signal) ** 2, axis=1)) / np.sum(np.mean(np.abs(y.noise) ** 2, axis=1))
                        check(osnr_out <= osnr_in * (1 + 1e-3), "C10 EDFA OSNR does not improve " + tag)
                    # band-limited output
                    BW = 0.2 * fs
                    yb = EDFA(xin, G, NF, BW=BW)
                    check(yb.n_pol == 2 and yb.signal.shape == (2, N) and yb.noise.shape == (2, N), "C10 EDFA(BW) two-pol output " + tag)
                    sref, _ = bessel_ref(y.signal, BW / 2, 4, fs)
                    check(rel(yb.signal, sref) < 1e-10, "C10 EDFA(BW) signal part is the optically filtered amplified signal " + tag)
                    S = np.abs(fft(yb.noise, axis=-1)) ** 2
                    f = np.abs(fftfreq(N) * fs)
                    oob = S[:, f > 1.5 * BW].sum() / S.sum()
                    check(oob < 1e-4, f"C10 EDFA(BW) noise is band-limited (out-of-band fraction {oob:.2e}) " + tag)
                    frac = neb_fraction(BW / 2, fs)
                    if not with_noise:
                        pn = np.sum(np.mean(np.abs(yb.noise[:, 64:-64]) ** 2, axis=1))
                        check(abs(pn / (P_ase * frac) - 1) < 6 * np.sqrt(1 / (2 * N * frac)) * 1.5,
                              f"C10 EDFA(BW) filtered ASE power = P_ase x NEB (ratio {pn/(P_ase*frac):.4f}) " + tag)
    for bad in (np.ones(16), electrical_signal(np.ones(16)), [1, 2, 3], None):
        try:
            EDFA(bad, 10, 5)
            check(False, "C10 EDFA non-optical input raises TypeError")
        except TypeError:
            pass
        except Exception:
            check(False, "C10 EDFA non-optical input raises TypeError")
    gv(sps=16, R=1e9, wavelength=1550e-9)


# --------------------------------------------------------------------------
# optional features: exercised only when present; the defaults must leave the contract untouched
# --------------------------------------------------------------------------
def features():
    rng = np.random.default_rng(4242)
    fs = set_fs(16, 10e9)
    n = 512
    x = rfield(rng, n, 2)
    xin = optical_signal(x, n_pol=2)
    prm = inspect.signature(DM).parameters
    extra = [p for p in prm if p not in ("input", "D", "retH")]
    for p in extra:
        check(prm[p].default is not inspect.Parameter.empty, f"feature DM new parameter `{p}` is optional")
    if "D3" in extra:
        Dn = 2 * np.pi / (np.pi * fs * 1e-12) ** 2
        D3n = Dn / (np.pi * fs * 1e-12)
        for D, D3 in ((Dn, D3n), (-0.4 * Dn, -2 * D3n), (0.0, D3n)):
            y, H = DM(xin, D, retH=True, D3=D3)
            ref, _ = lin_ref(x, fs, 1.0, 0.0, D, D3)
            check(rel(y.signal, ref) < 1e-10, "feature DM(D, D3) is the all-pass exp(-j D w^2/2 - j D3 w^3/6)")
            check(np.allclose(energy(y.signal), energy(x), rtol=1e-11), "feature DM(D, D3) conserves energy")
            check(rel(ifft(fft(x, axis=-1) * ifftshift(H), axis=-1), y.signal) < 1e-10, "feature DM(D, D3) retH matches the filter applied")
            f = FIBER(xin, length=2.0, beta_2=D / 2, beta_3=D3 / 2, gamma=0)
            check(rel(f.signal, y.signal) < 1e-10, "feature DM(D, D3) equals the lossless linear FIBER")
            check(rel(DM(y, -D, D3=-D3).signal, x) < 1e-10, "feature DM(-D, -D3) undoes DM(D, D3)")
    prm = inspect.signature(LPF).parameters
    for p in prm:
        if p not in ("input", "BW", "n", "fs", "retH"):
            check(prm[p].default is not inspect.Parameter.empty, f"feature LPF new parameter `{p}` is optional")
    for fn, names in ((BPF, ("input", "BW", "n")), (EDFA, ("input", "G", "NF", "BW")),
                      (FIBER, ("input", "length", "alpha", "beta_2", "beta_3", "gamma", "phi_max", "show_progress")),
                      (PD, ("input", "BW", "r", "T", "R_load", "include_noise", "i_dark", "Fn"))):
        prm = inspect.signature(fn).parameters
        check(tuple(prm)[: len(names)] == names, f"feature {fn.__name__} keeps its positional parameters")
        for p in list(prm)[len(names):]:
            check(prm[p].default is not inspect.Parameter.empty, f"feature {fn.__name__} new parameter `{p}` is optional")
    ye = EDFA(xin, 20.0, 5.0)
    if hasattr(ye, "P_ase"):
        check(np.isclose(ye.P_ase, idb(5.0) * hP * gv.f0 * (idb(20.0) - 1) * gv.fs, rtol=1e-12), "feature EDFA P_ase attribute is the documented ASE power")
        check(ye.n_pol == 2 and ye.signal.shape == (2, n) and rel(ye.signal, 10.0 * x) < 1e-12, "feature EDFA output unchanged by the attribute")
        check(np.isclose(EDFA(xin, 20.0, 5.0, BW=0.3 * fs).P_ase, ye.P_ase, rtol=1e-12), "feature EDFA P_ase attribute with BW")
    # list / tuple input to LPF, when accepted, must behave like the ndarray
    v = rng.standard_normal(300)
    try:
        o = LPF(list(v), 0.1 * fs)
    except TypeError:
        o = None
    if o is not None:
        check(rel(o.signal, LPF(v, 0.1 * fs).signal) < 1e-12 and o.signal.shape == (300,), "feature LPF sequence input equals ndarray input")


def main():
    only = sys.argv[1:]
    for name, fn in (("c07", c07), ("c08", c08), ("c09", c09), ("c10", c10), ("c11", c11), ("features", features)):
        if only and name not in only:
            continue
        fn()
        print(f"{name} done ({len(FAIL)} failures so far)", flush=True)
    if FAIL:
        print(f"FAILED {len(FAIL)} clause checks; first: {FAIL[0]}")
        sys.exit(1)
    print("PASS")
    sys.exit(0)


if __name__ == "__main__":
    main()
