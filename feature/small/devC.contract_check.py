"""Contract check for ADC / GET_EYE / FBG (clauses C16, C17, C18).

Prints PASS and exits 0 when every sampled clause holds, otherwise prints the
failing clause(s) and exits 1.
"""
import os
import sys

_here = os.path.dirname(os.path.abspath(__file__))
if sys.path and os.path.abspath(sys.path[0] or os.getcwd()) == _here:
    sys.path.pop(0)

import inspect
import io
import contextlib
import warnings

import numpy as np
from scipy.constants import c, pi
from scipy.integrate import quad
from scipy.ndimage import gaussian_filter1d

from opticomlib import gv, optical_signal, electrical_signal
from opticomlib.devices import ADC, GET_EYE, FBG
from opticomlib.utils import shortest_int

warnings.simplefilter("ignore")

FAILS = []


def fail(clause, detail):
    FAILS.append(f"{clause}: {detail}")
    print(f"FAIL {clause}: {detail}", flush=True)


def quiet(func, *a, **k):
    with contextlib.redirect_stdout(io.StringIO()):
        return func(*a, **k)


# --------------------------------------------------------------------------
# C16  FBG
# --------------------------------------------------------------------------
NEFF = 1.45
BUILTIN = {
    "uniform": lambda z: np.ones_like(np.asarray(z, dtype=float)),
    "rcos": lambda z: 0.5 * (1 + np.cos(2 * pi * np.asarray(z, dtype=float))),  # rcos(z, alpha=1, T=2)
    "gaussian": lambda z: np.exp(-4 * np.log(2) * (3 * np.asarray(z, dtype=float)) ** 2),
    "parabolic": lambda z: 1 - (2 * np.asarray(z, dtype=float)) ** 2,
}


def random_callable(rng):
    a0 = rng.uniform(0.5, 1.0)
    a1 = rng.uniform(0.0, 0.4)
    a2 = rng.uniform(0.0, 0.4)
    ph = rng.uniform(0, 2 * pi)

    def apo(z):
        return a0 + 0.5 * a1 * (1 + np.cos(2 * pi * z)) + 0.5 * a2 * (1 + np.sin(4 * pi * z + ph)) * 0.5

    return apo


def make_input(rng, n, npol):
    shape = (n,) if npol == 1 else (2, n)
    return optical_signal(rng.normal(size=shape) + 1j * rng.normal(size=shape))


def energy(sig):
    return float(np.sum(np.abs(sig) ** 2))


def check_fbg():
    rng = np.random.default_rng(1600)
    H_TOL = 5e-3      # ODE solver tolerance on |H|
    R_TOL = 1e-2      # ODE solver tolerance on reflectivity

    cases = []
    apos = ["uniform", "rcos", "gaussian", "parabolic", "callable"]
    # corners + random interior
    for kL, vd, F in [(0.1, 1e-5, 0), (8, 1e-3, 0), (8, 1e-4, 20), (0.1, 1e-3, -20), (4, 1e-5, 0)]:
        for apo in apos:
            cases.append((kL, vd, F, apo))
    for _ in range(30):
        kL = rng.uniform(0.1, 8)
        vd = 10 ** rng.uniform(-5, -3)
        F = rng.choice([0.0, 0.0, rng.uniform(-20, 20)])
        cases.append((kL, vd, F, apos[rng.integers(len(apos))]))

    for i, (kL, vd, F, aponame) in enumerate(cases):
        n = int(2 ** rng.integers(8, 13))
        fs = float(rng.choice([20e9, 50e9, 100e9, 200e9, 400e9]))
        # keep the long-grating / wide-band corner affordable
        if vd < 3e-5 and fs > 100e9:
            n = min(n, 2 ** 10)
        npol = 1 + i % 2
        gv(sps=16, fs=fs)
        x = make_input(rng, n, npol)
        if aponame == "callable":
            apo = random_callable(rng)
            prof = apo
        else:
            apo = aponame
            prof = BUILTIN[aponame]
        tag = f"kL={kL:.3g} vdneff={vd:.3g} F={F:.3g} apo={aponame} n={n} fs={fs:.3g} npol={npol}"
        try:
            out, H = quiet(FBG, x, fc=gv.f0, vdneff=vd, kL=kL, F=F, apodization=apo, retH=True)
        except Exception as e:  # noqa
            fail("C16 valid design must not raise", f"{tag}: {type(e).__name__}: {e}")
            continue
        if not isinstance(out, optical_signal):
            fail("C16 output type", tag)
            continue
        if H.shape != (n,) or not np.all(np.isfinite(H)):
            fail("C16 H finite, one value per frequency", tag)
            continue
        if np.abs(H).max() > 1 + H_TOL:
            fail("C16 |H| <= 1", f"{tag}: max|H|={np.abs(H).max()}")
        ref = np.fft.ifft(np.fft.fft(x.signal, axis=-1) * np.fft.ifftshift(H), axis=-1)
        if out.signal.shape != x.signal.shape or not np.allclose(out.signal, ref, rtol=1e-9, atol=1e-9 * np.abs(ref).max()):
            fail("C16 output is input filtered by H in every polarisation", tag)
        for p in range(npol):
            ein = energy(x.signal if npol == 1 else x.signal[p])
            eout = energy(out.signal if npol == 1 else out.signal[p])
            if eout > ein * (1 + 2 * H_TOL):
                fail("C16 output energy <= input energy", f"{tag}: pol {p} {eout} > {ein}")
        # the version without retH gives the same field
        out2 = quiet(FBG, x, fc=gv.f0, vdneff=vd, kL=kL, F=F, apodization=apo)
        if not isinstance(out2, optical_signal) or not np.allclose(out2.signal, out.signal, rtol=1e-9, atol=1e-12):
            fail("C16 output (retH=False) is the filtered field", tag)

        if F == 0:
            area = quad(lambda z: float(prof(z)), -0.5, 0.5)[0]
            want = np.tanh(kL * area) ** 2
            got = np.abs(H[n // 2]) ** 2
            if abs(got - want) > R_TOL:
                fail("C16 Bragg reflectivity = tanh^2(kL*int apod)", f"{tag}: {got} vs {want}")
            if aponame == "uniform":
                lam = 2 * pi * c / (x.w(shift=True) + 2 * pi * gv.f0)
                lD = c / gv.f0
                L = kL / (pi * vd / lD)
                d = 2 * pi * NEFF * (1 / lam - 1 / lD) * L
                k = pi * vd / lam * L
                g = np.sqrt((k ** 2 - d ** 2).astype(complex))
                with np.errstate(over="ignore", invalid="ignore"):
                    cf = (np.sinh(g) ** 2 / (np.cosh(g) ** 2 - d ** 2 / k ** 2)).real
                ok = np.isfinite(cf)
                err = np.abs(np.abs(H[ok]) ** 2 - cf[ok]).max()
                if err > R_TOL:
                    fail("C16 uniform spectrum = sinh^2/(cosh^2-d^2/k^2)", f"{tag}: err={err}")

    # equivalent specification routes
    for j in range(8):
        gv(sps=16, fs=float(rng.choice([50e9, 100e9, 200e9])))
        n = int(2 ** rng.integers(8, 12))
        x = make_input(rng, n, 1 + j % 2)
        vd = 10 ** rng.uniform(-4.3, -3)
        fc = gv.f0 + rng.uniform(-0.1, 0.1) * gv.fs
        lD = c / fc
        Lam = lD / (2 * NEFF)
        kL_t = rng.uniform(0.1, 8)
        N = int(round(kL_t / (pi * vd / lD) / Lam))
        L = N * lD / (2 * NEFF)
        kL = pi * vd / lD * L
        F = float(rng.choice([0.0, rng.uniform(-20, 20)]))
        apo = ["uniform", "rcos", "gaussian", "parabolic"][j % 4]
        res = {}
        for cname, ckw in (("fc", dict(fc=fc)), ("landa_D", dict(landa_D=lD))):
            for lname, lkw in (("kL", dict(kL=kL)), ("L", dict(L=L)), ("N", dict(N=N))):
                try:
                    o, H = quiet(FBG, x, vdneff=vd, F=F, apodization=apo, retH=True, **ckw, **lkw)
                    res[(cname, lname)] = (o.signal, H)
                except Exception as e:  # noqa
                    fail("C16 equivalent specifications", f"route {cname}/{lname} raised {type(e).__name__}: {e}")
        if res:
            keys = list(res)
            s0, H0 = res[keys[0]]
            for kk in keys[1:]:
                s1, H1 = res[kk]
                if np.abs(H1 - H0).max() > 1e-6 or np.abs(s1 - s0).max() > 1e-6 * max(1, np.abs(s0).max()):
                    fail("C16 equivalent specifications give the same response", f"{keys[0]} vs {kk}: dH={np.abs(H1 - H0).max()}")

    # incomplete specifications
    gv(sps=16, fs=100e9)
    x = make_input(rng, 256, 1)
    incomplete = [
        dict(),
        dict(vdneff=1e-4, kL=2),
        dict(fc=gv.f0),
        dict(fc=gv.f0, kL=2),
        dict(fc=gv.f0, vdneff=1e-4),
        dict(fc=gv.f0, dneff=1e-4),
        dict(landa_D=c / gv.f0),
        dict(landa_D=c / gv.f0, vdneff=1e-4),
        dict(landa_D=c / gv.f0, dneff=1e-4),
        dict(landa_D=c / gv.f0, kL=2),
        dict(landa_D=c / gv.f0, L=1e-2),
    ]
    for kw in incomplete:
        try:
            quiet(FBG, x, **kw)
        except ValueError:
            continue
        except Exception as e:  # noqa
            fail("C16 incomplete specification raises ValueError", f"{sorted(kw)} raised {type(e).__name__}")
        else:
            fail("C16 incomplete specification raises ValueError", f"{sorted(kw)} did not raise")


# --------------------------------------------------------------------------
# C17  GET_EYE
# --------------------------------------------------------------------------
def prbs_bits(order, n):
    state = (1 << order) - 1
    taps = {7: (7, 6), 9: (9, 5)}[order]
    out = []
    for _ in range(n):
        bit = ((state >> (taps[0] - 1)) ^ (state >> (taps[1] - 1))) & 1
        state = ((state << 1) | bit) & ((1 << order) - 1)
        out.append(bit)
    return np.array(out)


def nrz(bits, sps, a, b, sigma, rng):
    w = np.repeat(bits.astype(float), sps)
    w = gaussian_filter1d(w, sigma=0.09 * sps, mode="wrap")
    return a + (b - a) * w + rng.normal(0, sigma, w.size)


def eye_call(y, seed):
    np.random.seed(seed)
    return GET_EYE(y, sps_resamp=128)


def check_eye():
    rng = np.random.default_rng(1700)
    TIMING = ("t_left", "t_right", "t_opt", "i")
    cases = []
    pairs = [(0.0, 1e-3), (1e-4, 1.1e-3), (0.0, 1.0), (-1.0, 1.0), (0.0, 100.0), (-50.0, 50.0), (2.0, 2.05), (-3e-3, -1e-3)]
    for idx in range(18):
        sps = (8, 16, 32)[idx % 3]
        a, b = pairs[idx % len(pairs)]
        frac = (0.005, 0.02, 0.05, 0.01)[idx % 4]
        if idx % 2:
            nsl = (64, 128, 254)[idx % 3]
            bits = prbs_bits(7 if idx % 4 == 1 else 9, nsl)
        else:
            nsl = int(rng.choice([64, 96, 128, 256]))
            bits = rng.integers(0, 2, nsl)
            bits[:4] = [0, 1, 1, 0]
        cases.append((sps, a, b, frac, bits))

    for ci, (sps, a, b, frac, bits) in enumerate(cases):
        gv(sps=sps, R=1e9)
        D = b - a
        sigma = frac * D
        y = nrz(bits, sps, a, b, sigma, rng)
        tag = f"case {ci} sps={sps} a={a} b={b} sigma={frac:.3g}*(b-a) slots={bits.size}"
        try:
            e = eye_call(y, 17 + ci)
        except Exception as ex:  # noqa
            fail("C17 GET_EYE returns an estimate", f"{tag}: {type(ex).__name__}: {ex}")
            continue
        vals = {}
        bad = False
        for k in ("mu0", "mu1", "s0", "s1", "threshold", "t_left", "t_right", "t_opt", "i"):
            v = getattr(e, k, None)
            if v is None or not np.isfinite(v):
                fail("C17 finite estimates", f"{tag}: {k}={v}")
                bad = True
            vals[k] = v
        if bad:
            continue
        if abs(vals["mu0"] - a) > 0.08 * D:
            fail("C17 mu0 within 8% of a", f"{tag}: mu0={vals['mu0']}")
        if abs(vals["mu1"] - b) > 0.08 * D:
            fail("C17 mu1 within 8% of b", f"{tag}: mu1={vals['mu1']}")
        for k in ("s0", "s1"):
            if not (sigma / 2 <= vals[k] <= 2 * sigma + 0.03 * D):
                fail(f"C17 {k} in [sigma/2, 2 sigma + 3%]", f"{tag}: {k}={vals[k]} sigma={sigma}")
        if not (vals["mu0"] < vals["threshold"] < vals["mu1"]):
            fail("C17 mu0 < threshold < mu1", f"{tag}: {vals['mu0']}, {vals['threshold']}, {vals['mu1']}")
        if abs((vals["t_right"] - vals["t_left"]) - 1) > 0.1:
            fail("C17 crossings one slot apart", f"{tag}: {vals['t_left']}, {vals['t_right']}")
        if abs(vals["t_opt"] - 0.5 * (vals["t_left"] + vals["t_right"])) > 1 / 128 + 1e-12:
            fail("C17 optimum instant midway between crossings", f"{tag}: {vals['t_left']}, {vals['t_opt']}, {vals['t_right']}")
        if not (isinstance(vals["i"], (int, np.integer)) and 0 <= vals["i"] < sps):
            fail("C17 integer sampling index in [0, sps)", f"{tag}: i={vals['i']!r}")

        # unit equivariance
        for alpha, beta in ((10 ** rng.uniform(-3, 3), rng.uniform(-2, 2) * D), (1e-3, 0.0), (1e3, -D)):
            beta = beta * alpha
            try:
                e2 = eye_call(alpha * y + beta, 17 + ci)
            except Exception as ex:  # noqa
                fail("C17 equivariance (call)", f"{tag} alpha={alpha}: {type(ex).__name__}: {ex}")
                continue
            tol = 1e-6 * alpha * D + 1e-9 * abs(beta)
            for k in ("mu0", "mu1"):
                if abs(getattr(e2, k) - (alpha * vals[k] + beta)) > tol:
                    fail(f"C17 equivariance of {k}", f"{tag} alpha={alpha:.4g} beta={beta:.4g}: {getattr(e2, k)} vs {alpha * vals[k] + beta}")
            for k in ("s0", "s1"):
                if abs(getattr(e2, k) - alpha * vals[k]) > tol:
                    fail(f"C17 equivariance of {k}", f"{tag} alpha={alpha:.4g}: {getattr(e2, k)} vs {alpha * vals[k]}")
            for k in TIMING:
                if getattr(e2, k) != vals[k]:
                    fail(f"C17 timing output {k} unchanged by units", f"{tag} alpha={alpha:.4g} beta={beta:.4g}: {getattr(e2, k)} vs {vals[k]}")

    # electrical_signal input (signal + noise attribute) gives the same estimate as the summed array
    gv(sps=16, R=1e9)
    bits = rng.integers(0, 2, 128)
    clean = nrz(bits, 16, 0.0, 1.0, 0.0, rng)
    noise = rng.normal(0, 0.02, clean.size)
    e1 = eye_call(electrical_signal(clean, noise), 5)
    e2 = eye_call(clean + noise, 5)
    for k in ("mu0", "mu1", "s0", "s1", "t_left", "t_right", "t_opt", "i", "threshold"):
        if not np.isclose(getattr(e1, k), getattr(e2, k), rtol=1e-9, atol=1e-12):
            fail("C17 signal+noise object equals summed array", k)


# --------------------------------------------------------------------------
# C18  ADC / shortest_int
# --------------------------------------------------------------------------
def adc_signals(rng):
    yield "len2", np.array([0.3, -1.2])
    yield "len3", np.array([0.3, -1.2, 0.9])
    yield "len7", rng.normal(size=7)
    for n in (50, 1000, 9999, 10_000, 20_000, 2 ** 15, 2 ** 17):
        yield f"gauss{n}", rng.normal(rng.uniform(-2, 2), 10 ** rng.uniform(-3, 2), n)
    for n in (100, 10_000, 40_000):
        yield f"unif{n}", rng.uniform(-3, 7, n)
        t = np.arange(n)
        yield f"sine{n}", 2.5 * np.sin(2 * pi * t / 97.3 + 0.4) - 1
        yield f"quant{n}", np.round(rng.normal(0, 4, n)) * 0.25
    big = rng.normal(0, 1, 30_000)
    big[[5, 77, 1234]] = [40.0, -55.0, 90.0]
    yield "outliers30000", big
    q = np.round(rng.uniform(0, 7, 12_000))
    q[::4000] = 50
    yield "quant_outliers", q


def check_adc():
    rng = np.random.default_rng(1800)
    for name, x in adc_signals(rng):
        vmin, vmax = shortest_int(x, 99.99)
        if not vmax > vmin:
            continue
        ns = range(1, 13) if x.size <= 10_000 else (1, 2, 3, 5, 8, 12)
        for n in ns:
            levels = 2 ** n
            step = (vmax - vmin) / (levels - 1)
            eps = 1e-9 * max(abs(vmin), abs(vmax), vmax - vmin)
            tag = f"{name} n={n}"
            for wrap in (False, True):
                arg = electrical_signal(x) if wrap else x
                try:
                    yv = ADC(arg, n=n)
                    yn = ADC(arg, n=n, otype="n")
                except Exception as ex:  # noqa
                    fail("C18 ADC returns", f"{tag}: {type(ex).__name__}: {ex}")
                    continue
                v = np.asarray(yv.signal)
                k = np.asarray(yn.signal)
                if v.shape != x.shape or k.shape != x.shape:
                    fail("C18 output has the input's length", tag)
                    continue
                if np.unique(v).size > levels or np.unique(k).size > levels:
                    fail("C18 at most 2^n distinct values", f"{tag}: {np.unique(v).size}")
                if v.min() < vmin - eps or v.max() > vmax + eps:
                    fail("C18 values within [V_min, V_max]", f"{tag}: [{v.min()}, {v.max()}] vs [{vmin}, {vmax}]")
                if not (np.issubdtype(k.dtype, np.integer) or np.all(k == np.round(k))):
                    fail("C18 otype='n' codes are integers", tag)
                if k.min() < 0 or k.max() > levels - 1:
                    fail("C18 codes in [0, 2^n-1]", f"{tag}: [{k.min()}, {k.max()}]")
                inside = (x >= vmin) & (x <= vmax)
                if np.abs(v[inside] - x[inside]).max(initial=0) > step / 2 + eps:
                    fail("C18 in-range samples move by at most half a step", f"{tag}: {np.abs(v[inside] - x[inside]).max()} step={step}")
                if np.abs((k[inside] * step + vmin) - x[inside]).max(initial=0) > step / 2 + eps:
                    fail("C18 in-range codes within half a step", tag)
                if np.any(k[x > vmax] != levels - 1) or np.any(k[x < vmin] != 0):
                    fail("C18 out-of-range samples saturate at the end codes", tag)
                if np.any(np.abs(v[x > vmax] - vmax) > eps) or np.any(np.abs(v[x < vmin] - vmin) > eps):
                    fail("C18 out-of-range samples saturate at the range ends", tag)
                if np.abs(k * step + vmin - v).max() > eps:
                    fail("C18 'v' and 'n' outputs describe the same quantiser", tag)

    # flat signal: the estimated range has zero width, every clause still applies
    for n in (1, 4, 8):
        x = np.full(500, 0.75)
        for otype in ("v", "n"):
            try:
                y = np.asarray(ADC(x, n=n, otype=otype).signal)
            except Exception as ex:  # noqa
                fail("C18 ADC returns (flat signal)", f"n={n}: {type(ex).__name__}: {ex}")
                continue
            if y.shape != x.shape or np.unique(y).size > 2 ** n:
                fail("C18 length / at most 2^n values (flat signal)", f"n={n} otype={otype}")
            if otype == "v" and np.any(y != 0.75):
                fail("C18 values within [V_min, V_max] (flat signal)", f"n={n}")
            if otype == "n" and (np.any(y != np.round(y)) or y.min() < 0 or y.max() > 2 ** n - 1):
                fail("C18 codes in [0, 2^n-1] (flat signal)", f"n={n}")

    # optional explicit full-scale range, when available
    if "vrange" in inspect.signature(ADC).parameters:
        x = rng.normal(0, 1, 5000)
        if not np.array_equal(ADC(x, n=4, vrange=None).signal, ADC(x, n=4).signal):
            fail("C18 vrange=None keeps the estimated range", "")
        est = tuple(shortest_int(x, 99.99))
        if not np.array_equal(ADC(x, n=4, vrange=est).signal, ADC(x, n=4).signal):
            fail("C18 vrange=estimated range reproduces default", "")

    # shortest_int
    for trial in range(60):
        n = int(rng.integers(2, 3000))
        kind = trial % 3
        if kind == 0:
            data = rng.normal(size=n)
        elif kind == 1:
            data = np.round(rng.normal(0, 3, n))
        else:
            data = rng.integers(0, 4, n).astype(float) * 0.1
        p = float(rng.uniform(0.5, 99.99))
        lag = int(np.floor(p * n / 100))
        if lag < 1:
            continue
        lo, hi = shortest_int(data, p)
        srt = np.sort(data)
        widths = srt[lag:] - srt[:-lag]
        if not lo <= hi:
            fail("C18 shortest_int lo <= hi", f"trial {trial}")
        if hi - lo != widths.min():
            fail("C18 shortest_int is a shortest interval", f"trial {trial}: {hi - lo} vs {widths.min()}")
        if not np.any((srt[:-lag] == lo) & (srt[lag:] == hi)):
            fail("C18 shortest_int ends are order statistics lag apart", f"trial {trial}")
        if np.sum((data >= lo) & (data <= hi)) < lag + 1:
            fail("C18 shortest_int covers lag+1 samples", f"trial {trial}")


if __name__ == "__main__":
    for part in (check_adc, check_eye, check_fbg):
        try:
            part()
        except Exception as ex:  # noqa
            import traceback
            traceback.print_exc()
            fail(part.__name__, f"checker crashed: {type(ex).__name__}: {ex}")
    if FAILS:
        print(f"{len(FAILS)} clause failure(s); first: {FAILS[0]}")
        sys.exit(1)
    print("PASS")
    sys.exit(0)
