"""Contract check for C20 (PPG3204 driver + SYNC) against a simulated instrument.

Prints PASS and exits 0 when every sampled clause holds; prints the failing
clause and exits 1 otherwise.
"""
import os
import sys

_here = os.path.dirname(os.path.abspath(__file__))
if sys.path and os.path.abspath(sys.path[0] or os.getcwd()) == _here:
    sys.path.pop(0)

import contextlib
import inspect
import io
import re
import warnings

import numpy as np

import opticomlib.lab as lab
from opticomlib.lab import PPG3204, SYNC
from opticomlib.typing import binary_sequence, electrical_signal, gv

MEM = 2**21
PRBS_ORDERS = (7, 9, 11, 15, 23, 31)
LIMITS = {
    'freq': (1.5e9, 32e9),
    'amp': (0.3, 2.0),
    'off': (-2.0, 3.0),
    'skew': (-25e-12, 25e-12),
    'plen': (2, 2**21),
}


class Fail(Exception):
    pass


def need(cond, clause):
    if not cond:
        raise Fail(clause)


class FakePPG:
    """Simulated PPG3204: stores settings/memory and audits every command."""

    RE_SET = [
        (re.compile(r'^:DIG(-?\d+):PATT:LENG (\S+)$'), 'plen'),
        (re.compile(r'^:DIG(-?\d+):PATT:PLEN (\S+)$'), 'prbs'),
        (re.compile(r'^:SKEW(-?\d+) (\S+)$'), 'skew'),
        (re.compile(r'^:VOLT(-?\d+):POS (\S+)v$'), 'amp'),
        (re.compile(r'^:VOLT(-?\d+):(?:NEG|POS):OFFS (\S+)v$'), 'off'),
    ]
    RE_FREQ = re.compile(r'^:FREQ (\S+)$')
    RE_DATA = re.compile(r'^:DIG(-?\d+):PATT:DATA (-?\d+),(-?\d+),#(\d)(.*)$', re.S)
    RE_DATAQ = re.compile(r'^:DIG(-?\d+):PATT:DATA\? (-?\d+),(-?\d+)$')
    RE_GETQ = re.compile(r'^:(DIG|SKEW|VOLT)(-?\d+)(:[A-Z:]+)?\?$')

    def __init__(self):
        self.mem = np.zeros((5, MEM + 1), dtype=np.uint8)
        self.state = {}
        self.log = []          # (kind, ch, value)
        self.blocks = []       # (ch, addr, n)
        self.timeout = 0

    def clear(self):
        pass

    def close(self):
        pass

    def _chan(self, ch, cmd):
        ch = int(ch)
        need(1 <= ch <= 4, f'channel outside 1..4 in command {cmd[:60]!r}')
        return ch

    def query(self, cmd):
        need(isinstance(cmd, str), 'command is not a string')
        m = self.RE_DATAQ.match(cmd)
        if m:
            ch = self._chan(m.group(1), cmd)
            addr, n = int(m.group(2)), int(m.group(3))
            need(1 <= addr and addr + n - 1 <= MEM and n >= 1, f'data query outside memory: {cmd!r}')
            bits = ''.join(map(str, self.mem[ch, addr:addr + n]))
            return f'#{len(str(n))}{n}{bits}\n'
        m = self.RE_DATA.match(cmd)
        if m:
            ch = self._chan(m.group(1), cmd)
            addr, n, k, rest = int(m.group(2)), int(m.group(3)), int(m.group(4)), m.group(5)
            need(1 <= n <= 1024, f'data block of {n} bits (must be 1..1024)')
            need(k == len(str(n)), f'IEEE-488.2 header digit count {k} wrong for length {n}')
            need(rest[:k] == str(n), f'IEEE-488.2 header length field {rest[:k]!r} != {n}')
            payload = rest[k:]
            need(len(payload) == n and set(payload) <= {'0', '1'}, f'payload does not hold {n} bits')
            need(1 <= addr and addr + n - 1 <= MEM, f'data block outside memory: addr {addr}, n {n}')
            self.mem[ch, addr:addr + n] = np.frombuffer(payload.encode(), dtype=np.uint8) - 48
            self.blocks.append((ch, addr, n))
            return '\n'
        m = self.RE_FREQ.match(cmd)
        if m:
            v = float(m.group(1))
            lo, hi = LIMITS['freq']
            need(lo <= v <= hi, f'frequency {v} outside limits in {cmd!r}')
            self.state['freq'] = v
            self.log.append(('freq', 0, v))
            return '\n'
        for rx, kind in self.RE_SET:
            m = rx.match(cmd)
            if m:
                ch = self._chan(m.group(1), cmd)
                if kind == 'prbs':
                    need(re.fullmatch(r'\d+', m.group(2)) and int(m.group(2)) in PRBS_ORDERS,
                         f'PRBS order not in supported list: {cmd!r}')
                    v = int(m.group(2))
                else:
                    v = float(m.group(2))
                    lo, hi = LIMITS[kind]
                    need(lo <= v <= hi, f'{kind} value {v} outside limits in {cmd!r}')
                    if kind == 'plen':
                        need(float(v).is_integer(), f'pattern length not an integer: {cmd!r}')
                self.state[(kind, ch)] = v
                self.log.append((kind, ch, v))
                return '\n'
        if cmd == ':FREQ?':
            return f"{self.state.get('freq', 1e10)}\n"
        m = re.match(r'^:DIG(-?\d+):PATT:(LENG|PLEN|BSH)\?$', cmd)
        if m:
            ch = self._chan(m.group(1), cmd)
            key = {'LENG': 'plen', 'PLEN': 'prbs', 'BSH': 'bsh'}[m.group(2)]
            return f"{int(self.state.get((key, ch), 7))}\n"
        m = re.match(r'^:DIG(-?\d+):PATT:TYPE\?$', cmd)
        if m:
            self._chan(m.group(1), cmd)
            return 'DATA\n'
        m = re.match(r'^:SKEW(-?\d+)\?$', cmd)
        if m:
            ch = self._chan(m.group(1), cmd)
            return f"{self.state.get(('skew', ch), 0.0)}\n"
        m = re.match(r'^:VOLT(-?\d+):(POS|OFFS)\?$', cmd)
        if m:
            ch = self._chan(m.group(1), cmd)
            return f"{self.state.get(('amp' if m.group(2) == 'POS' else 'off', ch), 1.0)}\n"
        m = re.match(r'^:(?:DIG(-?\d+):PATT:(?:TYPE|BSH) \S+|OUTP(-?\d+) (?:ON|OFF))$', cmd)
        if m:
            self._chan(m.group(1) or m.group(2), cmd)
            return '\n'
        if cmd in ('*RST', '*IDN?'):
            return '\n'
        raise Fail(f'unrecognised command {cmd[:80]!r}')


def new_ppg():
    ppg = PPG3204()
    ppg.inst = FakePPG()
    return ppg


def call(fn, *args, **kw):
    """Run fn; return list of warnings. Any exception is a contract failure here."""
    with warnings.catch_warnings(record=True) as w, contextlib.redirect_stdout(io.StringIO()):
        warnings.simplefilter('always')
        try:
            fn(*args, **kw)
        except Fail:
            raise
        except Exception as e:
            raise Fail(f'{fn.__name__}{args!r}{kw or ""} raised {type(e).__name__}: {e}')
    return w


# --------------------------------------------------------------------------
# Clause 1: in-range commands, clamping with warning
# --------------------------------------------------------------------------
def around(lo, hi, rng, n_rand=12):
    vals = []
    for lim in (lo, hi):
        mag = abs(lim)
        for f in (1e-3, 1e-2, 0.1, 0.5, 0.9, 0.999, 1.0, 1.001, 1.1, 2.0, 10.0, 1e2, 1e3):
            vals += [lim * f, -lim * f, lim + mag * (f - 1), lim - mag * (f - 1)]
    vals += [0.0, (lo + hi) / 2, lo, hi]
    vals += list(rng.uniform(lo - (hi - lo), hi + (hi - lo), n_rand))
    return vals


CH_SELECTIONS = [None, 1, 2, 3, 4, 0, 5, -1, 9, [1], [4, 1], [1, 2, 3, 4], [2, 3], (3, 4),
                 [0, 1], [4, 5], [-3, 7], [1, 2, 3, 4, 5], [6, 6, 6, 6, 6, 6], np.array([2, 4])]


def ch_out_of_range(chs):
    if chs is None:
        return False
    a = np.atleast_1d(np.array(chs))
    return bool((a < 1).any() or (a > 4).any() or a.size > 4)


def n_channels(chs):
    if chs is None:
        return 4
    return min(4, np.atleast_1d(np.array(chs)).size)


SETTERS = {
    'skew': ('set_skew', 5e-14),
    'amp': ('set_output_voltage', 0.0500001),
    'off': ('set_offset', 0.0500001),
    'plen': ('set_patt_len', 0),
}


def check_range_clause():
    rng = np.random.default_rng(2001)
    ppg = new_ppg()
    fake = ppg.inst

    lo, hi = LIMITS['freq']
    for v in around(lo, hi, rng) + [10**10, 3 * 10**10, 10**12, 1]:
        if isinstance(v, float) and v != v:
            continue
        fake.log.clear()
        w = call(ppg.set_freq, v)
        need(len(fake.log) == 1, 'set_freq must emit exactly one :FREQ command')
        sent = fake.log[0][2]
        want = min(max(v, lo), hi)
        need(abs(sent - want) <= 1e-5 * want, f'set_freq({v}) sent {sent}, clamped request is {want}')
        if v < lo or v > hi:
            need(len(w) >= 1, f'set_freq({v}) out of range without a warning')

    for kind, (name, tol) in SETTERS.items():
        lo, hi = LIMITS[kind]
        fn = getattr(ppg, name)
        vals = around(lo, hi, rng)
        if kind == 'plen':
            vals = sorted({int(round(v)) for v in vals} | {0, 1, 2, 3, 2**21 - 1, 2**21, 2**21 + 1, 10**7, 10**9, -5})
        for i, v in enumerate(vals):
            chs = CH_SELECTIONS[i % len(CH_SELECTIONS)]
            fake.log.clear()
            w = call(fn, v, chs) if i % 2 else call(fn, v, CHs=chs)
            nch = n_channels(chs)
            need(len(fake.log) == nch, f'{name}({v}, {chs}) emitted {len(fake.log)} commands for {nch} channels')
            want = min(max(v, lo), hi)
            for _, ch, sent in fake.log:
                need(abs(sent - want) <= tol + 1e-9 * abs(want), f'{name}({v}) sent {sent}, clamped request is {want}')
            if v < lo or v > hi or ch_out_of_range(chs):
                need(len(w) >= 1, f'{name}({v}, {chs}) out of range without a warning')
        # per-channel lists
        for trial in range(40):
            chs = CH_SELECTIONS[(trial * 7) % len(CH_SELECTIONS)]
            nch = n_channels(chs)
            pick = [vals[j] for j in rng.integers(0, len(vals), nch)]
            arg = pick if trial % 3 else (np.array(pick) if trial % 2 else tuple(pick))
            fake.log.clear()
            w = call(fn, arg, chs)
            need(len(fake.log) == nch, f'{name}({pick}, {chs}) emitted {len(fake.log)} commands')
            for (_, ch, sent), v in zip(fake.log, pick):
                want = min(max(v, lo), hi)
                need(abs(sent - want) <= tol + 1e-9 * abs(want), f'{name}({pick}) sent {sent} for request {v}')
            if any(v < lo or v > hi for v in pick) or ch_out_of_range(chs):
                need(len(w) >= 1, f'{name}({pick}, {chs}) out of range without a warning')

    # PRBS order
    orders = list(range(-3, 40)) + [64, 100, 1000, 10**6]
    for i, o in enumerate(orders):
        chs = CH_SELECTIONS[i % len(CH_SELECTIONS)]
        fake.log.clear()
        w = call(ppg.set_prbs_order, o, chs)
        need(len(fake.log) == n_channels(chs), f'set_prbs_order({o}, {chs}) emitted {len(fake.log)} commands')
        for _, ch, sent in fake.log:
            if o in PRBS_ORDERS:
                need(sent == o, f'set_prbs_order({o}) sent {sent}')
        if o not in PRBS_ORDERS or ch_out_of_range(chs):
            need(len(w) >= 1, f'set_prbs_order({o}, {chs}) unsupported/out of range without a warning')
    for trial in range(30):
        chs = CH_SELECTIONS[(trial * 5) % len(CH_SELECTIONS)]
        nch = n_channels(chs)
        pick = [int(orders[j]) for j in rng.integers(0, len(orders), nch)]
        fake.log.clear()
        w = call(ppg.set_prbs_order, pick if trial % 2 else np.array(pick), chs)
        need(len(fake.log) == nch, f'set_prbs_order({pick}, {chs}) emitted {len(fake.log)} commands')
        if any(o not in PRBS_ORDERS for o in pick) or ch_out_of_range(chs):
            need(len(w) >= 1, f'set_prbs_order({pick}, {chs}) without a warning')


# --------------------------------------------------------------------------
# Clause 2: memory round trip
# --------------------------------------------------------------------------
def check_blocks(fake, chs_expected, start, n):
    for ch in chs_expected:
        blk = [(a, k) for c, a, k in fake.blocks if c == ch]
        need(blk, f'set_data wrote nothing to channel {ch}')
        need(blk[0][0] == start, f'first block at address {blk[0][0]}, expected {start}')
        addr = start
        for a, k in blk:
            need(a == addr, f'block address {a} not consecutive (expected {addr})')
            addr += k
        need(addr - start == n, f'blocks carry {addr - start} bits in channel {ch}, data has {n}')
    need({c for c, _, _ in fake.blocks} == set(chs_expected), 'set_data wrote to unexpected channels')


def check_memory_clause():
    rng = np.random.default_rng(2002)
    ppg = new_ppg()
    fake = ppg.inst
    lengths = [1, 2, 3, 7, 12, 100, 1023, 1024, 1025, 2047, 2048, 2049, 3000, 4096, 5000, 9999, 10000]
    lengths += [int(x) for x in rng.integers(1, 10001, 25)]
    starts = [1, 2, 3, 1000, 1023, 1024, 1025, 4097, 65536, 10**6, MEM - 10**4, MEM - 10**4 + 1]
    ch_sel = [None, 1, 2, 3, 4, [1], [2, 3], [4, 1], [1, 2, 3, 4], (3,), np.array([2, 4])]
    case = 0
    for n in lengths:
        for _ in range(3):
            start = starts[int(rng.integers(0, len(starts)))] if case % 4 else 1
            if start + n - 1 > MEM:
                start = MEM - n + 1
            chs = ch_sel[case % len(ch_sel)]
            chl = [1, 2, 3, 4] if chs is None else [int(c) for c in np.atleast_1d(np.array(chs))]
            bits = rng.integers(0, 2, n).astype(np.uint8)
            if n > 1 and bits.min() == bits.max():
                bits[0] ^= 1
            form = case % 4
            if form == 0:
                arg = ''.join(map(str, bits))
            elif form == 1:
                arg = bits
            elif form == 2:
                arg = [int(b) for b in bits]
            else:
                arg = bits.astype(bool)
            if n == 1 and form == 0:
                arg = bits
            fake.blocks.clear()
            kw = {}
            if start != 1 or case % 2:
                kw['start_addrs'] = start
            call(ppg.set_data, arg, CHs=chs, **kw)
            check_blocks(fake, chl, start, n)
            out = []
            w = call(lambda: out.append(ppg.get_data(n, start, chs)))
            got = np.asarray(out[0])
            need(got.shape == (len(chl), n), f'get_data shape {got.shape}, expected {(len(chl), n)}')
            for row in got:
                need(np.array_equal(row.astype(int), bits.astype(int)),
                     f'round trip mismatch: n={n}, start={start}, CHs={chs}')
            case += 1

    # per-channel (2-D) data
    for n in (5, 1024, 1025, 2500):
        for chs in ([1, 2], [3, 4, 1], None):
            chl = [1, 2, 3, 4] if chs is None else chs
            bits = rng.integers(0, 2, (len(chl), n)).astype(np.uint8)
            fake.blocks.clear()
            call(ppg.set_data, bits if n % 2 else bits.tolist(), 7, chs)
            check_blocks(fake, chl, 7, n)
            out = []
            call(lambda: out.append(ppg.get_data(n, 7, chs)))
            need(np.array_equal(np.asarray(out[0]).astype(int), bits.astype(int)), '2-D data round trip mismatch')

    # optional features
    params = inspect.signature(PPG3204.set_data).parameters
    extra = [p for p in params if p not in ('self', 'data', 'start_addrs', 'CHs')]
    for p in extra:
        for val in (1, 7, 512, 1000, 1024, 4096, 10**6, 0, -3):
            bits = rng.integers(0, 2, 2600).astype(np.uint8)
            fake.blocks.clear()
            try:
                with warnings.catch_warnings(), contextlib.redirect_stdout(io.StringIO()):
                    warnings.simplefilter('ignore')
                    ppg.set_data(bits, 33, [2, 3], **{p: val})
            except Fail:
                raise
            except Exception:
                continue
            check_blocks(fake, [2, 3], 33, 2600)
            out = []
            call(lambda: out.append(ppg.get_data(2600, 33, [2, 3])))
            need(all(np.array_equal(r, bits) for r in out[0]), f'round trip mismatch with {p}={val}')
    try:
        bs = binary_sequence(rng.integers(0, 2, 1500))
        fake.blocks.clear()
        with warnings.catch_warnings(), contextlib.redirect_stdout(io.StringIO()):
            warnings.simplefilter('ignore')
            ppg.set_data(bs, 5, 2)
    except Fail:
        raise
    except Exception:
        pass
    else:
        check_blocks(fake, [2], 5, 1500)
        out = []
        call(lambda: out.append(ppg.get_data(1500, 5, 2)))
        need(np.array_equal(out[0][0].astype(int), np.asarray(bs.data).astype(int)), 'binary_sequence round trip mismatch')


# --------------------------------------------------------------------------
# Arbitrary call sequences
# --------------------------------------------------------------------------
def check_sequences():
    rng = np.random.default_rng(2003)
    ppg = new_ppg()
    fake = ppg.inst
    model = np.zeros((5, 40000), dtype=np.uint8)
    names = ['set_freq', 'set_skew', 'set_output_voltage', 'set_offset', 'set_patt_len', 'set_prbs_order',
             'set_data', 'get_data', 'get_freq', 'get_skew', 'get_output_voltage', 'get_offset',
             'get_patt_len', 'get_prbs_order', 'enable_outputs', 'disable_outputs', 'set_mode', 'get_mode']
    scale = {'set_freq': 1e10, 'set_skew': 1e-11, 'set_output_voltage': 1.0, 'set_offset': 1.0}
    for step in range(600):
        name = names[int(rng.integers(0, len(names)))]
        chs = CH_SELECTIONS[int(rng.integers(0, len(CH_SELECTIONS)))]
        fn = getattr(ppg, name)
        if name == 'set_freq':
            call(fn, float(scale[name] * 10 ** rng.uniform(-3, 3)))
        elif name in scale:
            v = float(scale[name] * 10 ** rng.uniform(-3, 3) * rng.choice([-1, 1]))
            call(fn, v, chs)
        elif name == 'set_patt_len':
            call(fn, int(10 ** rng.uniform(0, 8)) - 2, chs)
        elif name == 'set_prbs_order':
            call(fn, int(rng.integers(-2, 50)), chs)
        elif name == 'set_mode':
            call(fn, str(rng.choice(['data', 'PRBS', 'prbs', 'DATA'])), chs)
        elif name == 'set_data':
            n = int(rng.integers(1, 5000))
            start = int(rng.integers(1, 30000))
            good = [None, 1, 2, 3, 4, [1, 2], [4, 3], [1, 2, 3, 4]]
            chs = good[int(rng.integers(0, len(good)))]
            bits = rng.integers(0, 2, n).astype(np.uint8)
            fake.blocks.clear()
            call(fn, bits, start, chs)
            for ch in ([1, 2, 3, 4] if chs is None else np.atleast_1d(chs)):
                model[ch, start:start + n] = bits
        elif name == 'get_data':
            n = int(rng.integers(1, 5000))
            start = int(rng.integers(1, 30000))
            good = [None, 1, 2, 3, 4, [1, 2], [4, 3], [1, 2, 3, 4]]
            chs = good[int(rng.integers(0, len(good)))]
            out = []
            call(lambda: out.append(fn(n, start, chs)))
            chl = [1, 2, 3, 4] if chs is None else list(np.atleast_1d(chs))
            need(np.array_equal(np.asarray(out[0]).astype(int), model[chl, start:start + n].astype(int)),
                 f'get_data after call sequence differs from written bits (step {step})')
        elif name == 'get_freq':
            call(fn)
        else:
            call(fn, chs)
    need(np.array_equal(fake.mem[:, :40000], model), 'instrument memory differs from the bits written')


# --------------------------------------------------------------------------
# Clause 3: SYNC
# --------------------------------------------------------------------------
def prbs(order, taps, n, seed=1):
    state = [(seed >> i) & 1 for i in range(order)]
    if not any(state):
        state[0] = 1
    out = []
    for _ in range(n):
        new = state[taps[0] - 1] ^ state[taps[1] - 1]
        out.append(state[-1])
        state = [new] + state[:-1]
    return np.array(out, dtype=np.uint8)


def check_sync_clause():
    rng = np.random.default_rng(2004)
    pats = [
        (prbs(7, (7, 6), 127), 4),
        (prbs(7, (7, 6), 127, seed=77), 8),
        (prbs(9, (9, 5), 511), 2),
        (prbs(9, (9, 5), 511, seed=300), 5),
        (prbs(11, (11, 9), 2047), 2),
        (prbs(15, (15, 14), 600, seed=12345), 4),
        (prbs(7, (7, 6), 127, seed=5), 16),
    ]
    with contextlib.redirect_stdout(io.StringIO()), warnings.catch_warnings():
        warnings.simplefilter('ignore')
        for pi, (slots, sps) in enumerate(pats):
            wave = np.kron(slots, np.ones(sps))
            l = wave.size
            ds = sorted({1, 2, sps - 1, sps, sps + 1, l // 2, l - sps, l - 2, l - 1}
                        | {int(x) for x in rng.integers(1, l, 14)})
            for di, d in enumerate(ds):
                reps = 3 + (di % 2)
                clean = np.roll(np.tile(wave, reps), d)
                sigma = [0.0, 0.05, 0.1, 0.15][di % 4]
                amp = [1.0, 0.4, 2.5][di % 3]
                rx = amp * clean + sigma * amp * rng.standard_normal(clean.size)
                if di % 5 == 4:
                    rx = rx[: 2 * l + int(rng.integers(0, l))]
                mode = di % 3
                if mode == 0:
                    out, i = SYNC(rx, slots, sps)
                elif mode == 1:
                    out, i = SYNC(rx, binary_sequence(slots), sps=sps)
                else:
                    gv(sps=sps)
                    out, i = SYNC(electrical_signal(rx), binary_sequence(slots))
                need(int(i) == d, f'SYNC returned index {i} for delay {d} (pattern {pi}, sps {sps}, sigma {sigma})')
                sig = np.asarray(out.signal if isinstance(out, electrical_signal) else out)
                need(sig.size > 0, 'SYNC returned an empty signal')
                k = min(sig.size, 4 * sps)
                need(np.allclose(np.real(sig[:k]), rx[d:d + k]), f'SYNC output does not start at sample {d}')
            # short record rejected
            for short in (l - 1, l // 2, sps, 1):
                rx = wave[:short] + 0.05 * rng.standard_normal(short)
                for as_es in (False, True):
                    try:
                        if as_es:
                            gv(sps=sps)
                            SYNC(electrical_signal(rx), slots)
                        else:
                            SYNC(rx, slots, sps)
                    except Exception:
                        continue
                    raise Fail(f'SYNC accepted a record of {short} samples for a pattern of {l} samples')
        gv(sps=16)


# --------------------------------------------------------------------------
# Optional features (skipped when absent)
# --------------------------------------------------------------------------
def check_optional():
    rng = np.random.default_rng(2005)
    ppg = new_ppg()
    fake = ppg.inst
    notes = []

    # numpy integer channel scalars
    for ch in (np.int64(2), np.int32(4), np.int64(0), np.int64(9), np.uint8(3)):
        fake.log.clear()
        try:
            with warnings.catch_warnings(record=True) as w, contextlib.redirect_stdout(io.StringIO()):
                warnings.simplefilter('always')
                ppg.set_skew(1e-9, ch)
        except Fail:
            raise
        except Exception:
            continue
        notes.append('np-int-channel')
        need(len(fake.log) == 1 and fake.log[0][1] == min(max(int(ch), 1), 4), f'channel {ch!r} addressed wrongly')
        need(len(w) >= 1, 'out-of-range request without a warning')

    # extra keyword parameters on the range setters: whatever they mean, emitted values stay in range
    for kind, (name, _) in list(SETTERS.items()) + [('freq', ('set_freq', 0)), ('prbs', ('set_prbs_order', 0))]:
        fn = getattr(ppg, name)
        base = ('self', 'freq', 'skew', 'amplitude', 'offset', 'patt_len', 'order', 'CHs')
        for p, par in inspect.signature(fn).parameters.items():
            if p in base:
                continue
            notes.append(f'{name}:{p}')
            cands = [par.default, None, True, False, 's', 'ps', 'ns', 'V', 'mV', 'Hz', 'GHz', 'MHz', 0, 1, 1e-3, 1e3]
            for cval in cands:
                for v in (-1e15, -1e3, -30, -2.5, -1, -1e-12, 0, 1e-12, 0.2, 1, 2.5, 30, 1e3, 2e9, 1e10, 5e10, 1e15):
                    if kind in ('plen', 'prbs'):
                        v = int(max(min(v, 2**40), -2**40))
                    try:
                        with warnings.catch_warnings(), contextlib.redirect_stdout(io.StringIO()):
                            warnings.simplefilter('ignore')
                            fn(v, **{p: cval}) if name == 'set_freq' else fn(v, [1, 5], **{p: cval})
                    except Fail:
                        raise
                    except Exception:
                        pass
    if 'unit' in inspect.signature(PPG3204.set_skew).parameters:
        for v, want in ((10, 10e-12), (-12.5, -12.5e-12), (40, 25e-12), (-1e4, -25e-12), (0, 0.0)):
            fake.log.clear()
            w = call(ppg.set_skew, v, [2, 3], unit='ps')
            need(len(fake.log) == 2 and all(abs(s - want) <= 5e-14 for _, _, s in fake.log),
                 f"set_skew({v}, unit='ps') sent {[s for _, _, s in fake.log]}")
            if abs(v) > 25:
                need(len(w) >= 1, "set_skew(unit='ps') out of range without a warning")
    return notes


def main():
    clauses = [
        ('range/clamp/warn', check_range_clause),
        ('memory round trip', check_memory_clause),
        ('call sequences', check_sequences),
        ('SYNC', check_sync_clause),
        ('optional features', check_optional),
    ]
    for name, fn in clauses:
        try:
            fn()
        except Fail as e:
            print(f'FAIL [{name}]: {e}')
            sys.exit(1)
    print('PASS')
    sys.exit(0)


if __name__ == '__main__':
    main()
