"""Contract check for opticomlib.typing (clauses C01, C02, C14, C15).

Exit status 0 and ``PASS`` when every sampled clause holds, 1 and the failing
clause otherwise.  ``opticomlib`` is imported from PYTHONPATH.
"""
import sys
import os

_here = os.path.dirname(os.path.abspath(__file__))
if sys.path and os.path.abspath(sys.path[0] or '.') == _here:
    sys.path.pop(0)

import inspect
import itertools
import random
import warnings

import numpy as np
from numpy.fft import fft, ifft, fftfreq, fftshift, ifftshift
from scipy.constants import c, pi

warnings.simplefilter('ignore')

from opticomlib.typing import (  # noqa: E402
    gv, global_variables, binary_sequence, electrical_signal, optical_signal)
from opticomlib.utils import str2array  # noqa: E402

FAILS = []


def check(cond, clause, detail=''):
    if not cond:
        FAILS.append(f'{clause}: {detail}')
        if len(FAILS) > 40:
            finish()
    return cond


def finish():
    if FAILS:
        seen = []
        for f in FAILS:
            if f not in seen:
                seen.append(f)
        for f in seen[:40]:
            print('FAIL', f)
        sys.exit(1)
    print('PASS')
    sys.exit(0)


def raises(fn, excs):
    try:
        fn()
    except excs:
        return True
    except Exception:
        return False
    return False


LENGTHS = [1, 2, 3, 5, 7, 8, 13, 16, 31, 64, 257, 1024]


# ----------------------------------------------------------------------------
# helpers shared by C01 / C02
# ----------------------------------------------------------------------------
def rand_array(rng, shape, kind):
    if kind == 'int':
        return rng.integers(-4, 5, size=shape)
    if kind == 'float':
        return rng.normal(size=shape)
    return rng.normal(size=shape) + 1j * rng.normal(size=shape)


def make(rng, cls, L, npol=1, kind='float', noise=False):
    shape = (L,) if npol == 1 else (2, L)
    s = rand_array(rng, shape, kind)
    n = rand_array(rng, shape, kind) if noise else None
    if cls is electrical_signal:
        return electrical_signal(s, n)
    return optical_signal(s, n)


def contract_ok(x, cls, npol, L, clause, where):
    ok = check(type(x) is cls, clause, f'{where}: class {type(x).__name__} != {cls.__name__}')
    ok &= check(isinstance(x.signal, np.ndarray), clause, f'{where}: signal not ndarray')
    if not ok:
        return False
    shape = (L,) if npol == 1 else (2, L)
    ok &= check(x.signal.shape == shape, clause, f'{where}: signal shape {x.signal.shape} != {shape}')
    ok &= check(x.signal.size >= 1, clause, f'{where}: empty signal')
    if x.noise is not None:
        ok &= check(isinstance(x.noise, np.ndarray) and x.noise.shape == shape, clause,
                    f'{where}: noise shape {getattr(x.noise, "shape", None)} != {shape}')
    ok &= check(len(x) == L and x.len() == L, clause, f'{where}: len {len(x)} != {L}')
    if cls is optical_signal:
        ok &= check(x.n_pol == npol, clause, f'{where}: n_pol {x.n_pol} != {npol}')
    return ok


def snap(x):
    return (x.signal.copy(), x.signal.dtype, None if x.noise is None else x.noise.copy())


def unchanged(x, s, clause, where):
    ok = x.signal.dtype == s[1] and x.signal.shape == s[0].shape and \
        x.signal.tobytes() == s[0].tobytes()
    if s[2] is None:
        ok = ok and x.noise is None
    else:
        ok = ok and x.noise is not None and x.noise.tobytes() == s[2].tobytes()
    check(ok, clause, f'{where}: operand modified')


def no_alias(res, ops, clause, where):
    bufs = [res.signal] + ([res.noise] if res.noise is not None else [])
    for o in ops:
        if isinstance(o, electrical_signal):
            obufs = [o.signal] + ([o.noise] if o.noise is not None else [])
        elif isinstance(o, np.ndarray):
            obufs = [o]
        else:
            continue
        for a in bufs:
            for b in obufs:
                check(not np.shares_memory(a, b), clause, f'{where}: result aliases operand')
    if res.noise is not None:
        check(not np.shares_memory(res.signal, res.noise), clause, f'{where}: signal aliases noise')


def total(x):
    return x.signal if x.noise is None else x.signal + x.noise


def close(a, b, rtol=1e-12, atol=1e-12):
    a = np.asarray(a)
    b = np.asarray(b)
    return a.shape == b.shape and np.allclose(a, b, rtol=rtol, atol=atol, equal_nan=True)


def raw_to_arrays(raw):
    """Plain model of how a non-signal operand is read: (signal array, None)."""
    if isinstance(raw, str):
        return np.atleast_1d(str2array(raw))
    return np.atleast_1d(np.array(raw))


def fmt_str(arr):
    out = []
    for v in np.atleast_1d(arr):
        if isinstance(v, (int, np.integer)):
            out.append(str(int(v)))
        else:
            out.append(f'{float(v):.4f}')
    return ' '.join(out)


# ----------------------------------------------------------------------------
# C01
# ----------------------------------------------------------------------------
def c01_constructors(rng):
    cl = 'C01 constructor'
    for L in LENGTHS:
        for kind in ('int', 'float', 'complex'):
            a = rand_array(rng, (L,), kind)
            n = rand_array(rng, (L,), kind)
            forms = [a, a.tolist(), tuple(a.tolist())]
            for f in forms:
                for noise in (None, n, n.tolist()):
                    x = electrical_signal(f, noise)
                    if contract_ok(x, electrical_signal, 1, L, cl, f'electrical L={L} {kind}'):
                        check(close(x.signal, a), cl, 'electrical signal values')
                        check((x.noise is None) == (noise is None), cl, 'electrical noise presence')
                        if noise is not None:
                            check(close(x.noise, n), cl, 'electrical noise values')
                        no_alias(x, [a, n], cl, 'electrical')
                    for npol in (None, 1, 2):
                        o = optical_signal(f, noise, n_pol=npol)
                        want = 1 if npol is None else npol
                        if contract_ok(o, optical_signal, want, L, cl, f'optical 1D L={L} n_pol={npol}'):
                            rows = o.signal if want == 1 else o.signal[0]
                            check(close(rows, a), cl, 'optical values')
                            if want == 2:
                                check(close(o.signal[1], a), cl, 'optical 2nd row')
                            check((o.noise is None) == (noise is None), cl, 'optical noise presence')
                            no_alias(o, [a, n], cl, 'optical')
            a2 = rand_array(rng, (2, L), kind)
            n2 = rand_array(rng, (2, L), kind)
            for f in (a2, a2.tolist()):
                for noise in (None, n2):
                    o = optical_signal(f, noise)
                    if contract_ok(o, optical_signal, 2, L, cl, f'optical 2D L={L}'):
                        check(close(o.signal, a2), cl, 'optical 2D values')
                        if noise is not None:
                            check(close(o.noise, n2), cl, 'optical 2D noise values')
                        no_alias(o, [a2, n2], cl, 'optical 2D')
                    o = optical_signal(f, noise, n_pol=1)
                    if contract_ok(o, optical_signal, 1, L, cl, f'optical 2D->1 L={L}'):
                        check(close(o.signal, a2[0]), cl, 'optical 2D->1 values')
    # scalars and strings
    for v in (3, 2.5, 1 - 2j, np.float64(1.5), np.int64(2)):
        contract_ok(electrical_signal(v), electrical_signal, 1, 1, cl, 'scalar')
        contract_ok(electrical_signal(v, v), electrical_signal, 1, 1, cl, 'scalar+noise')
        contract_ok(optical_signal(v), optical_signal, 1, 1, cl, 'optical scalar')
        contract_ok(optical_signal(v, n_pol=2), optical_signal, 2, 1, cl, 'optical scalar 2pol')
        contract_ok(optical_signal(v, v, n_pol=2), optical_signal, 2, 1, cl, 'optical scalar 2pol noise')
    x = electrical_signal('1 2 3,4,5')
    if contract_ok(x, electrical_signal, 1, 5, cl, 'string'):
        check(close(x.signal, [1, 2, 3, 4, 5]), cl, 'string values')
    x = electrical_signal('1+2j, 3+4j, 5+6j', '1 2 3')
    if contract_ok(x, electrical_signal, 1, 3, cl, 'complex string'):
        check(close(x.signal, [1 + 2j, 3 + 4j, 5 + 6j]) and close(x.noise, [1, 2, 3]), cl, 'complex string values')
    o = optical_signal('1.5 2 3; 4 5 6')
    if contract_ok(o, optical_signal, 2, 3, cl, 'optical string 2 rows'):
        check(close(o.signal, [[1.5, 2, 3], [4, 5, 6]]), cl, 'optical string values')
    for dt in (int, float, complex):
        x = electrical_signal([1, 2, 3], [0, 1, 0], dtype=dt)
        if contract_ok(x, electrical_signal, 1, 3, cl, f'dtype={dt.__name__}'):
            check(x.signal.dtype == np.dtype(dt) and x.noise.dtype == np.dtype(dt), cl, 'dtype honoured')
        o = optical_signal([[1, 2, 3], [4, 5, 6]], dtype=dt)
        if contract_ok(o, optical_signal, 2, 3, cl, f'optical dtype={dt.__name__}'):
            check(o.signal.dtype == np.dtype(dt), cl, 'optical dtype honoured')
    check(raises(lambda: electrical_signal([1, 2, 3], [1, 2]), ValueError), cl, 'noise shape mismatch must raise ValueError')
    check(raises(lambda: optical_signal([[1, 2, 3], [1, 2, 3]], [1, 2, 3]), ValueError), cl, 'optical noise shape mismatch must raise ValueError')


OPS = {
    '+': (lambda a, b: a + b),
    '-': (lambda a, b: a - b),
    '*': (lambda a, b: a * b),
}


def model_binop(op, a, b):
    """a, b are (signal, noise|None) pairs; mirrors the plain array-pair model."""
    (sa, na), (sb, nb) = a, b
    f = OPS[op]
    s = f(sa, sb)
    if na is None and nb is None:
        n = None
    elif na is None:
        n = nb if op != '-' else -nb
    elif nb is None:
        n = na
    else:
        n = f(na, nb)
    if n is not None:
        n = np.broadcast_to(n, s.shape) if np.shape(n) != s.shape else n
    return s, n


def pair(x):
    return (x.signal, x.noise)


def c01_binops(rng):
    cl = 'C01 arithmetic'
    for cls, npol in ((electrical_signal, 1), (optical_signal, 1), (optical_signal, 2)):
        for L in LENGTHS:
            for kind, na, nb in itertools.product(('int', 'float', 'complex'), (False, True), (False, True)):
                x = make(rng, cls, L, npol, kind, na)
                y = make(rng, cls, L, npol, rng.choice(['int', 'float', 'complex']), nb)
                sx, sy = snap(x), snap(y)
                for op in OPS:
                    for (l, r) in ((x, y), (y, x)):
                        res = OPS[op](l, r)
                        where = f'{cls.__name__} npol={npol} L={L} {op} obj'
                        if not contract_ok(res, cls, npol, L, cl, where):
                            continue
                        no_alias(res, [x, y], cl, where)
                        check((res.noise is not None) == (l.noise is not None or r.noise is not None),
                              cl, f'{where}: noise iff an operand has noise')
                        if op in '+-':
                            check(close(total(res), OPS[op](total(l), total(r))), cl, f'{where}: total field')
                        ms, mn = model_binop(op, pair(l), pair(r))
                        check(close(res.signal, ms), cl, f'{where}: signal vs model')
                        if mn is not None and res.noise is not None:
                            check(close(res.noise, mn), cl, f'{where}: noise vs model')
                unchanged(x, sx, cl, 'obj op obj')
                unchanged(y, sy, cl, 'obj op obj')

            # raw operands, both sides
            x = make(rng, cls, L, npol, 'complex', True)
            x0 = make(rng, cls, L, npol, 'float', False)
            vec = rng.normal(size=L)
            ivec = rng.integers(-3, 4, size=L)
            raws_both = [2, -1.5, 0.5 + 2j, True, vec.tolist(), tuple(ivec.tolist()), [1.25], (2,),
                         fmt_str(vec), fmt_str(ivec), '2.5', '1+2j']
            raws_right = [vec, ivec, vec + 1j * vec[::-1], np.array([3.0]), np.float64(1.5), np.int64(-2),
                          np.complex128(1 - 1j), np.float32(0.5)]
            for obj in (x, x0):
                so = snap(obj)
                for raw in raws_both + raws_right:
                    keep = raw.copy() if isinstance(raw, np.ndarray) else raw
                    ra = raw_to_arrays(raw)
                    sides = ('r', 'l') if not isinstance(raw, (np.ndarray, np.generic)) else ('r',)
                    for side in sides:
                        for op in OPS:
                            where = f'{cls.__name__} npol={npol} L={L} {op} raw {type(raw).__name__} side={side}'
                            try:
                                res = OPS[op](obj, raw) if side == 'r' else OPS[op](raw, obj)
                            except Exception as e:  # noqa: BLE001
                                check(False, cl, f'{where}: raised {type(e).__name__}: {e}')
                                continue
                            if not contract_ok(res, cls, npol, L, cl, where):
                                continue
                            no_alias(res, [obj, raw], cl, where)
                            check((res.noise is not None) == (obj.noise is not None), cl, f'{where}: noise presence')
                            if op in '+-':
                                want = OPS[op](total(obj), ra) if side == 'r' else OPS[op](ra, total(obj))
                                check(close(total(res), want, rtol=1e-9, atol=1e-9), cl, f'{where}: total field')
                    if isinstance(raw, np.ndarray):
                        check(raw.tobytes() == keep.tobytes(), cl, 'ndarray operand modified')
                unchanged(obj, so, cl, 'obj op raw')

            # length mismatch
            if L > 1:
                other = make(rng, cls, L + 1, npol, 'float', False)
                for op in OPS:
                    check(raises(lambda: OPS[op](x, other), ValueError), cl, f'L={L} {op} L+1 object must raise ValueError')
                    check(raises(lambda: OPS[op](x, np.ones(L + 1)), ValueError), cl, f'L={L} {op} ndarray L+1 must raise ValueError')
                    check(raises(lambda: OPS[op](x, [1.0] * (L + 2)), ValueError), cl, f'L={L} {op} list L+2 must raise ValueError')
                    check(raises(lambda: OPS[op]([1.0] * (L + 2), x), ValueError), cl, f'list L+2 {op} L={L} must raise ValueError')
                # length-1 object broadcasts
                one = make(rng, cls, 1, npol, 'float', True)
                for op in '+-':
                    res = OPS[op](x, one)
                    if contract_ok(res, cls, npol, L, cl, f'L={L} {op} length-1 object'):
                        check(close(total(res), OPS[op](total(x), total(one))), cl, 'length-1 broadcast total field')


def nonempty_slices(rng, L):
    out = [0, L - 1, -1, -L, slice(None), slice(None, None, 2), slice(None, None, -1), slice(0, 1),
           slice(L // 2, None), slice(None, max(1, L // 2)), slice(-max(1, L // 3), None),
           slice(None, None, 3), slice(L - 1, None, -2)]
    for _ in range(6):
        a, b = sorted(rng.integers(0, L + 1, size=2))
        st = int(rng.integers(1, 4))
        out.append(slice(int(a), int(b), st))
        out.append(int(rng.integers(-L, L)))
    return [s for s in out if np.arange(L)[s].size >= 1]


def model_slice(p, sl):
    s, n = p
    if s.ndim == 1:
        f = lambda a: np.atleast_1d(a[sl])  # noqa: E731
    elif isinstance(sl, (int, np.integer)):
        f = lambda a: a[:, sl, np.newaxis]  # noqa: E731
    else:
        f = lambda a: a[:, sl]  # noqa: E731
    return f(s), (None if n is None else f(n))


def c01_slicing(rng):
    cl = 'C01 slicing/copy'
    for cls, npol in ((electrical_signal, 1), (optical_signal, 1), (optical_signal, 2)):
        for L in LENGTHS:
            for noise in (False, True):
                x = make(rng, cls, L, npol, 'complex', noise)
                sx = snap(x)
                for sl in nonempty_slices(rng, L):
                    ms, mn = model_slice(pair(x), sl)
                    want_L = ms.shape[-1]
                    res = x[sl]
                    where = f'{cls.__name__} npol={npol} L={L} [{sl}]'
                    if not contract_ok(res, cls, npol, want_L, cl, where):
                        continue
                    check(res.signal.tobytes() == np.ascontiguousarray(ms).tobytes(), cl, f'{where}: signal samples')
                    check((res.noise is None) == (mn is None), cl, f'{where}: noise presence')
                    if mn is not None and res.noise is not None:
                        check(res.noise.tobytes() == np.ascontiguousarray(mn).tobytes(), cl, f'{where}: noise samples')
                    no_alias(res, [x], cl, where)
                cp = x.copy()
                if contract_ok(cp, cls, npol, L, cl, f'copy L={L}'):
                    check(cp.signal.tobytes() == x.signal.tobytes(), cl, 'copy signal')
                    check((cp.noise is None) == (x.noise is None), cl, 'copy noise presence')
                    if x.noise is not None and cp.noise is not None:
                        check(cp.noise.tobytes() == x.noise.tobytes(), cl, 'copy noise')
                    no_alias(cp, [x], cl, 'copy')
                    cp.signal[...] = 0
                if L > 2:
                    cp = x.copy(L - 1)
                    contract_ok(cp, cls, npol, L - 1, cl, 'copy(n)')
                unchanged(x, sx, cl, 'slicing/copy')


def c01_trees(rng, pyrng):
    cl = 'C01 expression tree'

    def leaf(cls, npol, L):
        x = make(rng, cls, L, npol, pyrng.choice(['int', 'float', 'complex']), pyrng.random() < 0.5)
        return x, pair(snap_obj(x))

    def snap_obj(x):
        class P:  # noqa: D401
            pass
        p = P()
        p.signal = x.signal.copy()
        p.noise = None if x.noise is None else x.noise.copy()
        return p

    def gen(cls, npol, L, depth):
        if depth == 0 or pyrng.random() < 0.15:
            return leaf(cls, npol, L)
        kind = pyrng.choice(['bin', 'bin', 'bin', 'slice', 'copy'])
        obj, mod = gen(cls, npol, L, depth - 1)
        cur = obj.len()
        if kind == 'copy':
            return obj.copy(), mod
        if kind == 'slice':
            sl = pyrng.choice(nonempty_slices(rng, cur))
            return obj[sl], model_slice(mod, sl)
        op = pyrng.choice(['+', '-', '*'])
        which = pyrng.choice(['obj', 'scalar', 'list', 'one', 'str'])
        if which == 'obj':
            o2, m2 = gen(cls, npol, L, depth - 1)
            if o2.len() != cur:
                if o2.len() == 1 or cur == 1:
                    return obj, mod
                check(raises(lambda: OPS[op](obj, o2), ValueError), cl, 'length mismatch must raise ValueError')
                return obj, mod
            if pyrng.random() < 0.5:
                return OPS[op](obj, o2), model_binop(op, mod, m2)
            return OPS[op](o2, obj), model_binop(op, m2, mod)
        if which == 'scalar':
            raw = pyrng.choice([2, -1, 0.5, 1.5 - 0.5j, np.float64(0.25)])
        elif which == 'list':
            raw = rng.integers(-2, 3, size=cur).tolist()
            if pyrng.random() < 0.5:
                raw = tuple(raw)
        elif which == 'one':
            raw = [float(rng.integers(1, 4))]
        else:
            raw = fmt_str(rng.integers(2, 6, size=cur) + 0.5)
        m2 = (raw_to_arrays(raw), None)
        if pyrng.random() < 0.5 or isinstance(raw, np.generic):
            return OPS[op](obj, raw), model_binop(op, mod, m2)
        return OPS[op](raw, obj), model_binop(op, m2, mod)

    for cls, npol in ((electrical_signal, 1), (optical_signal, 1), (optical_signal, 2)):
        for trial in range(120):
            L = pyrng.choice([1, 2, 3, 5, 8, 13, 32])
            try:
                obj, (ms, mn) = gen(cls, npol, L, 6)
            except Exception as e:  # noqa: BLE001
                check(False, cl, f'{cls.__name__} npol={npol}: raised {type(e).__name__}: {e}')
                continue
            where = f'{cls.__name__} npol={npol} trial={trial}'
            if not contract_ok(obj, cls, npol, ms.shape[-1], cl, where):
                continue
            check(close(obj.signal, ms, rtol=1e-9, atol=1e-9), cl, f'{where}: signal vs model')
            check((obj.noise is None) == (mn is None), cl, f'{where}: noise presence vs model')
            if mn is not None and obj.noise is not None:
                check(close(obj.noise, mn, rtol=1e-9, atol=1e-9), cl, f'{where}: noise vs model')


# ----------------------------------------------------------------------------
# C02
# ----------------------------------------------------------------------------
GV_CONFIGS = [dict(), dict(sps=8, R=10e9), dict(sps=4, fs=40e9), dict(R=2.5e9, fs=80e9), dict(sps=32, R=1e6),
              dict(sps=1, R=1e9), dict(sps=16, R=1e9, N=10)]


def c02(rng):
    cl = 'C02 transforms'
    for cfg in GV_CONFIGS:
        gv.clean()
        if cfg:
            gv(**cfg)
        g0 = gv_state()
        for cls, npol in ((electrical_signal, 1), (optical_signal, 1), (optical_signal, 2)):
            for L in LENGTHS:
                for kind, noise in itertools.product(('float', 'complex'), (False, True)):
                    x = make(rng, cls, L, npol, kind, noise)
                    sx = snap(x)
                    for dom in ('w', 'f'):
                        X = x(dom)
                        where = f'{cls.__name__} npol={npol} L={L} {kind} noise={noise}'
                        if not contract_ok(X, cls, npol, L, cl, f'{where} x({dom!r})'):
                            continue
                        check((X.noise is None) == (x.noise is None), cl, f'{where}: noise presence after transform')
                        check(close(X.signal, fft(x.signal, axis=-1), 1e-10, 1e-10), cl, f'{where}: forward DFT of signal')
                        if noise and X.noise is not None:
                            check(close(X.noise, fft(x.noise, axis=-1), 1e-10, 1e-10), cl, f'{where}: forward DFT of noise')
                        no_alias(X, [x], cl, where)
                        back = X('t')
                        if contract_ok(back, cls, npol, L, cl, f'{where} round trip'):
                            check(close(back.signal, x.signal, 1e-9, 1e-9), cl, f'{where}: x(w)(t) == x (signal)')
                            if noise and back.noise is not None:
                                check(close(back.noise, x.noise, 1e-9, 1e-9), cl, f'{where}: x(w)(t) == x (noise)')
                        e_t = np.sum(np.abs(x.signal) ** 2, axis=-1)
                        e_w = np.sum(np.abs(X.signal) ** 2, axis=-1)
                        check(np.allclose(e_w, L * e_t, rtol=1e-9), cl, f'{where}: Parseval')
                        Xs = x(dom, shift=True)
                        if contract_ok(Xs, cls, npol, L, cl, f'{where} shift'):
                            check(close(ifftshift(Xs.signal, axes=-1), X.signal, 1e-12, 1e-12), cl, f'{where}: shift=True is fftshift of forward')
                            if noise and Xs.noise is not None:
                                check(close(ifftshift(Xs.noise, axes=-1), X.noise, 1e-12, 1e-12), cl, f'{where}: shift noise')
                    xt = x('t')
                    xts = x('t', shift=True)
                    if contract_ok(xt, cls, npol, L, cl, 'x(t)') and contract_ok(xts, cls, npol, L, cl, 'x(t, shift)'):
                        check(close(xt.signal, ifft(x.signal, axis=-1), 1e-10, 1e-10), cl, 'inverse DFT of signal')
                        check(close(fftshift(xts.signal, axes=-1), xt.signal, 1e-12, 1e-12), cl, "shift=True is ifftshift of inverse")
                        check(close(xt('w').signal, x.signal, 1e-9, 1e-9), cl, 'x(t)(w) == x')
                    # axis and power
                    w = x.w()
                    check(close(w, 2 * pi * fftfreq(L) * gv.fs, 1e-12, 0), cl, f'w() axis L={L} fs={gv.fs}')
                    check(close(x.w(shift=True), fftshift(2 * pi * fftfreq(L) * gv.fs), 1e-12, 0), cl, 'w(shift=True) axis')
                    p = x.power()
                    check(close(p, np.mean(np.abs(total(x)) ** 2, axis=-1), 1e-12, 0), cl, f'power() L={L} npol={npol}')
                    check(np.shape(p) == (() if npol == 1 else (2,)), cl, 'power() is per polarisation')
                    check(close(x.power('all'), p, 1e-12, 0), cl, "power('all')")
                    check(close(x.abs(), np.abs(total(x)), 1e-12, 0), cl, 'abs()')
                    unchanged(x, sx, cl, 'transform')
        check(gv_equal(g0, gv_state()), 'C14 purity', 'typing methods modified gv')
    gv.clean()
    x = electrical_signal(np.arange(8.0))
    check(raises(lambda: x('z'), (ValueError, TypeError)), cl, 'unknown domain must be rejected')

    # optional parameters / spellings (only when present)
    params = inspect.signature(electrical_signal.power).parameters
    extra = [p for p in params if p not in ('self', 'by')]
    for name in extra:
        check(params[name].default is not inspect.Parameter.empty, cl, f'power(): new parameter {name} needs a default')
    if 'unit' in params:
        y = electrical_signal(rng.normal(size=64) + 2, rng.normal(size=64) * 0.1)
        lin = np.mean(np.abs(total(y)) ** 2)
        check(close(y.power(), lin, 1e-12, 0), cl, 'power() default unit is linear')
        try:
            check(close(y.power(unit='dBm'), 10 * np.log10(lin * 1e3), 1e-12, 1e-12), cl, "power(unit='dBm')")
        except Exception as e:  # noqa: BLE001
            check(False, cl, f"power(unit='dBm') raised {e!r}")
    for alt, base in (('T', 't'), ('W', 'w'), ('F', 'f'), ('time', 't'), ('freq', 'w')):
        try:
            r = x(alt)
        except Exception:  # noqa: BLE001
            continue
        check(close(r.signal, x(base).signal, 1e-12, 1e-12), cl, f'domain spelling {alt!r} must mean {base!r}')


# ----------------------------------------------------------------------------
# C14
# ----------------------------------------------------------------------------
STD = ['sps', 'R', 'fs', 'dt', 'wavelength', 'f0', 'N', 't', 'dw', 'w']


def gv_state():
    out = {}
    for k, v in gv.__dict__.items():
        out[k] = v.copy() if isinstance(v, np.ndarray) else v
    return out


def gv_equal(a, b):
    if set(a) != set(b):
        return False
    for k in a:
        va, vb = a[k], b[k]
        if isinstance(va, np.ndarray) or isinstance(vb, np.ndarray):
            if not (isinstance(va, np.ndarray) and isinstance(vb, np.ndarray) and va.shape == vb.shape and np.array_equal(va, vb)):
                return False
        elif va is not vb and va != vb:
            return False
    return True


def gv_invariants(where, N_eff):
    cl = 'C14 grid'
    rel = lambda a, b: abs(a - b) <= 1e-12 * max(abs(a), abs(b))  # noqa: E731
    check(isinstance(gv.sps, (int, np.integer)) and not isinstance(gv.sps, bool), cl, f'{where}: sps not an integer ({gv.sps!r})')
    check(gv.sps >= 1, cl, f'{where}: sps < 1')
    check(rel(gv.fs, gv.R * gv.sps), cl, f'{where}: fs != R*sps ({gv.fs}, {gv.R}, {gv.sps})')
    check(rel(gv.dt, 1 / gv.fs), cl, f'{where}: dt != 1/fs')
    check(rel(gv.f0, c / gv.wavelength), cl, f'{where}: f0 != c/wavelength')
    check(gv.N == N_eff, cl, f'{where}: N in force {gv.N} != {N_eff}')
    if N_eff is None:
        return
    n = N_eff * gv.sps
    ok = check(isinstance(gv.t, np.ndarray) and isinstance(gv.w, np.ndarray), cl, f'{where}: t/w missing while N in effect')
    if not ok:
        return
    check(gv.t.shape == (n,), cl, f'{where}: len(t) {gv.t.shape} != N*sps {n}')
    check(gv.w.shape == (n,), cl, f'{where}: len(w) {gv.w.shape} != N*sps {n}')
    check(rel(gv.dw, 2 * pi * gv.fs / n), cl, f'{where}: dw != 2*pi*fs/(N*sps)')
    check(np.allclose(gv.w, 2 * pi * fftshift(fftfreq(n)) * gv.fs, rtol=1e-12, atol=0), cl, f'{where}: w not on current fs')
    check(gv.t[0] == 0 and (n == 1 or rel(gv.t[-1], n * gv.dt)), cl, f'{where}: t not on current fs')


def c14(rng, pyrng):
    cl = 'C14 grid'
    fresh = {k: v for k, v in global_variables().__dict__.items()}
    gv.clean()
    check(gv_equal(fresh, gv_state()), cl, 'clean() does not restore the defaults of a fresh object')

    for trial in range(150):
        gv.clean()
        N_eff = None
        custom = {}
        lam = 1550e-9
        for step in range(pyrng.randint(1, 7)):
            if pyrng.random() < 0.15:
                gv.clean()
                check(gv_equal(fresh, gv_state()), cl, f'trial {trial}: clean() left {sorted(set(gv.__dict__) ^ set(fresh))} / non-default values')
                N_eff, custom, lam = None, {}, 1550e-9
                gv_invariants(f'trial {trial} after clean', None)
                continue
            sps = pyrng.choice([1, 2, 4, 8, 10, 16, 32, 64])
            R = pyrng.choice([1e6, 155.52e6, 1e9, 2.5e9, 10e9, 12.5e9, 40e9])
            form = pyrng.choice(['sps,R', 'sps,fs', 'R,fs', 'sps', 'R', 'fs', 'none', 'all'])
            kw = {}
            if form == 'sps,R':
                kw = dict(sps=sps, R=R)
            elif form == 'sps,fs':
                kw = dict(sps=sps, fs=R * sps)
            elif form == 'R,fs':
                kw = dict(R=R, fs=R * sps)
            elif form == 'sps':
                kw = dict(sps=sps)
            elif form == 'R':
                kw = dict(R=R)
            elif form == 'fs':
                kw = dict(fs=gv.R * sps)
            elif form == 'all':
                kw = dict(sps=sps, R=R, fs=R * sps)
            if pyrng.random() < 0.4:
                lam = pyrng.choice([1310e-9, 1550e-9, 850e-9, 1552.52e-9])
                kw['wavelength'] = lam
            else:
                lam = 1550e-9
            if pyrng.random() < 0.5:
                N_eff = pyrng.choice([1, 2, 7, 16, 100, 128])
                kw['N'] = N_eff
            if pyrng.random() < 0.4:
                name = pyrng.choice(['alpha', 'beta', 'my_list', 'tag'])
                val = pyrng.choice([0.5, 3, 'abc', (1, 2)])
                kw[name] = val
                custom[name] = val
            prevR, prevsps = gv.R, gv.sps
            ret = gv(**kw)
            where = f'trial {trial} step {step} gv({kw})'
            check(ret is gv, cl, f'{where}: does not return gv')
            gv_invariants(where, N_eff)
            if 'sps' in kw:
                check(gv.sps == kw['sps'], cl, f'{where}: sps not in force')
            if 'R' in kw:
                check(gv.R == kw['R'], cl, f'{where}: R not in force')
            if 'fs' in kw:
                check(abs(gv.fs - kw['fs']) <= 1e-12 * kw['fs'], cl, f'{where}: fs not in force')
            if form == 'sps':
                check(gv.R == prevR, cl, f'{where}: R changed')
            if form in ('R', 'none'):
                check(gv.sps == prevsps, cl, f'{where}: sps changed')
            if form == 'none':
                check(gv.R == prevR, cl, f'{where}: R changed')
            check(gv.wavelength == lam, cl, f'{where}: wavelength {gv.wavelength} != {lam}')
            for k, v in custom.items():
                check(hasattr(gv, k) and getattr(gv, k) == v, cl, f'{where}: custom attribute {k} lost')
    gv.clean()
    check(gv_equal(fresh, gv_state()), cl, 'final clean() does not restore defaults')
    for k in ('alpha', 'beta', 'my_list', 'tag'):
        check(not hasattr(gv, k), cl, f'custom attribute {k} survives clean()')

    # new gv.__call__ parameters must be optional
    params = inspect.signature(global_variables.__call__).parameters
    for name, p in params.items():
        if name not in ('self', 'sps', 'R', 'fs', 'wavelength', 'N', 'kargs'):
            check(p.default is not inspect.Parameter.empty, cl, f'gv(): new parameter {name} needs a default')

    # purity / reproducibility of the typing layer under gv + numpy seed
    cl = 'C14 purity'
    gv(sps=8, R=10e9, N=16, alpha=1)
    g0 = gv_state()
    x = electrical_signal(rng.normal(size=128), rng.normal(size=128))
    o = optical_signal(rng.normal(size=(2, 128)) + 0j)
    b = binary_sequence('1101001')
    sx, so, sb = snap(x), snap(o), b.data.copy()

    def battery():
        np.random.seed(7)
        out = [(x + o.signal[0]).signal, (x * 2).noise, (3 - x).signal, x('w').signal, x('w', True)('t', True).noise,
               o('f').signal, o[3:20].signal, x[::2].noise, x.copy().signal, x.w(), x.w(True), np.atleast_1d(x.power()),
               np.atleast_1d(o.power()), x.abs(), x.abs('noise'), (x > 0.5).data, (x < [0.5] * 128).data,
               (b + '01').data, ('01' + b).data, (~b).data, b[1:4].data, np.atleast_1d(b.ones()), np.atleast_1d(b.zeros())]
        return [np.array(a, copy=True) for a in out]

    first = battery()
    _ = (o * o - o)('w')('t')
    second = battery()
    for a, bb in zip(first, second):
        check(a.shape == bb.shape and a.tobytes() == bb.tobytes(), cl, 'repeated call differs bit-for-bit')
    check(gv_equal(g0, gv_state()), cl, 'typing operations modified gv')
    unchanged(x, sx, cl, 'battery')
    unchanged(o, so, cl, 'battery')
    check(np.array_equal(b.data, sb), cl, 'binary operand modified')
    gv.clean()


# ----------------------------------------------------------------------------
# C15
# ----------------------------------------------------------------------------
def valid_bits(s, L, clause, where):
    ok = check(type(s) is binary_sequence, clause, f'{where}: not a binary_sequence ({type(s).__name__})')
    if not ok:
        return False
    d = s.data
    ok &= check(isinstance(d, np.ndarray) and d.ndim == 1 and d.dtype == np.uint8, clause,
                f'{where}: data not 1-D uint8 ({getattr(d, "dtype", None)}, ndim={getattr(d, "ndim", None)})')
    ok &= check(bool(np.all((d == 0) | (d == 1))), clause, f'{where}: elements outside {{0,1}}')
    if L is not None:
        ok &= check(len(s) == L and s.len() == L and d.size == L, clause, f'{where}: length {len(s)} != {L}')
    return ok


def c15(rng, pyrng):
    cl = 'C15 binary_sequence'
    # construction forms
    bits = [1, 0, 1, 1, 0]
    forms = ['10110', '1 0 1 1 0', '1,0,1,1,0', bits, tuple(bits), np.array(bits), np.array(bits, dtype=bool),
             [bool(v) for v in bits], np.array(bits, dtype=float), np.array(bits, dtype=np.uint8)]
    for f in forms:
        s = binary_sequence(f)
        if valid_bits(s, 5, cl, f'form {type(f).__name__}'):
            check(s.data.tolist() == bits, cl, f'form {f!r} values')
        if isinstance(f, np.ndarray):
            check(not np.shares_memory(s.data, f) or f.dtype != np.uint8 or True, cl, 'n/a')
    for v in (0, 1, True, False, np.uint8(1), np.int64(0), np.bool_(True), 1.0):
        s = binary_sequence(v)
        if valid_bits(s, 1, cl, f'scalar {v!r}'):
            check(int(s.data[0]) == int(v), cl, f'scalar {v!r} value')
    bad = [[0, 2], [1, -1], '102', 'abc', 0.5, [0.5, 1], 2, -1, [[0, 1], [1, 0]], np.zeros((2, 2)), np.ones((1, 3)),
           None, [1, None], 1j, [0, 1 + 1j], 'x1', [[1]], {'a': 1}]
    for bv in bad:
        check(raises(lambda: binary_sequence(bv), (ValueError, TypeError)), cl, f'binary_sequence({bv!r}) must raise ValueError/TypeError')

    def slices(L):
        out = [slice(None), slice(0, 1), slice(None, None, 2), slice(None, None, -1), slice(1, None), slice(None, -1),
               slice(L // 2, None), slice(-2, None), slice(1, L, 3), slice(L - 1, None, -2)]
        return out

    # exhaustive up to 12
    count = 0
    for L in range(1, 13):
        for tup in itertools.product('01', repeat=L):
            st = ''.join(tup)
            ref = np.array([int(ch) for ch in st], dtype=np.uint8)
            a = binary_sequence(st)
            if not valid_bits(a, L, cl, f'{st}'):
                continue
            check(np.array_equal(a.data, ref), cl, f'{st}: data')
            keep = a.data.copy()
            inv = ~a
            if valid_bits(inv, L, cl, f'~{st}'):
                check(np.array_equal(inv.data, 1 - ref), cl, f'~{st}: values')
                check(inv is not a and not np.shares_memory(inv.data, a.data), cl, '~ returns a new sequence')
                iinv = ~inv
                check(valid_bits(iinv, L, cl, f'~~{st}') and bool(iinv == a) and np.array_equal(iinv.data, ref), cl, f'~~{st} != a')
                check(int(inv.ones()) == int(a.zeros()), cl, f'ones(~a) != zeros(a) for {st}')
            check(int(a.ones()) + int(a.zeros()) == len(a), cl, f'ones+zeros != len for {st}')
            check(int(a.ones()) == int(ref.sum()), cl, f'ones() for {st}')
            # concatenation with a partner derived from the index
            k = (count * 7919) % (2 ** 6)
            Lb = 1 + count % 6
            bst = format(k, '06b')[:Lb]
            bref = np.array([int(ch) for ch in bst], dtype=np.uint8)
            count += 1
            variants = [binary_sequence(bst), bst, bref.tolist(), tuple(bref.tolist()), bref, bref.astype(bool)]
            other = variants[count % len(variants)]
            for (res, want, first, lf) in ((a + other, np.concatenate((ref, bref)), ref, L),
                                           (other + a if not isinstance(other, np.ndarray) else binary_sequence(other) + a,
                                            np.concatenate((bref, ref)), bref, Lb)):
                if valid_bits(res, L + Lb, cl, f'{st}+{bst} ({type(other).__name__})'):
                    check(np.array_equal(res.data, want), cl, f'concat values {st},{bst}')
                    head = res[:lf]
                    check(valid_bits(head, lf, cl, 'prefix') and np.array_equal(head.data, first) and bool(head == binary_sequence(first)),
                          cl, '(a+b)[:len(a)] != a')
                    check(not np.shares_memory(res.data, a.data), cl, 'concat aliases operand')
            if L <= 8 or count % 5 == 0:
                for sl in slices(L):
                    want = ref[sl]
                    if want.size == 0:
                        continue
                    r = a[sl]
                    if valid_bits(r, want.size, cl, f'{st}[{sl}]'):
                        check(np.array_equal(r.data, want), cl, f'{st}[{sl}] values')
                for i in (0, -1, L // 2):
                    r = a[i]
                    if valid_bits(r, 1, cl, f'{st}[{i}]'):
                        check(int(r.data[0]) == int(ref[i]), cl, f'{st}[{i}] value')
            check(np.array_equal(a.data, keep) and a.data.dtype == np.uint8, cl, f'{st}: operand changed')

    # every container form for + on both sides
    a = binary_sequence('110100')
    ar = a.data.copy()
    bref = np.array([0, 1, 1], dtype=np.uint8)
    for other in (binary_sequence(bref), '011', '0 1 1', [0, 1, 1], (0, 1, 1), bref, bref.astype(bool), [False, True, True]):
        r = a + other
        if valid_bits(r, 9, cl, f'a + {type(other).__name__}'):
            check(np.array_equal(r.data, np.concatenate((ar, bref))), cl, f'a + {type(other).__name__} values')
        if not isinstance(other, np.ndarray):
            r = other + a
            if valid_bits(r, 9, cl, f'{type(other).__name__} + a'):
                check(np.array_equal(r.data, np.concatenate((bref, ar))), cl, f'{type(other).__name__} + a values')
        if isinstance(other, np.ndarray):
            check(other.tolist() in ([0, 1, 1], [False, True, True]), cl, 'ndarray operand modified')
    check(np.array_equal(a.data, ar), cl, 'operand changed by +')
    for other in ([0, 2], '012', [[0, 1]], [0.5], (1, 3), 5, 2.0, -1):
        check(raises(lambda: a + other, (ValueError, TypeError)), cl, f'a + {other!r} must raise ValueError/TypeError')
        check(raises(lambda: other + a, (ValueError, TypeError)), cl, f'{other!r} + a must raise ValueError/TypeError')
    # scalars as operands of +: either rejected, or concatenated as one slot
    for v in (0, 1, True, np.uint8(1), np.int64(0)):
        for side in ('r', 'l'):
            if side == 'l' and isinstance(v, np.generic):
                continue
            try:
                r = a + v if side == 'r' else v + a
            except (TypeError, ValueError):
                continue
            want = np.concatenate((ar, [int(v)])) if side == 'r' else np.concatenate(([int(v)], ar))
            if valid_bits(r, 7, cl, f'scalar concat {v!r} side {side}'):
                check(np.array_equal(r.data, want), cl, f'scalar concat {v!r} side {side} values')
    check(np.array_equal(a.data, ar), cl, 'operand changed by scalar +')

    # long random sequences and random expressions
    for trial in range(60):
        La, Lb = int(rng.integers(1, 5000)), int(rng.integers(1, 5000))
        ra = rng.integers(0, 2, La).astype(np.uint8)
        rb = rng.integers(0, 2, Lb).astype(np.uint8)
        a, b = binary_sequence(ra), binary_sequence(rb.tolist())
        check(not np.shares_memory(a.data, ra) or True, cl, 'n/a')
        s = a + b
        if valid_bits(s, La + Lb, cl, 'long a+b'):
            check(bool(s[:La] == a) and np.array_equal(s.data[La:], rb), cl, 'long (a+b)[:len(a)] == a')
        check(bool(~~a == a) and int((~a).ones()) == int(a.zeros()) and int(a.ones()) + int(a.zeros()) == La, cl, 'long identities')
        # expression
        cur, ref = a, ra.copy()
        for _ in range(pyrng.randint(1, 8)):
            k = pyrng.choice(['+', 'r+', '~', '[]'])
            if k == '+':
                o = rng.integers(0, 2, int(rng.integers(1, 50))).astype(np.uint8)
                form = pyrng.choice([binary_sequence(o), ''.join(map(str, o)), o.tolist(), tuple(o.tolist()), o])
                cur, ref = cur + form, np.concatenate((ref, o))
            elif k == 'r+':
                o = rng.integers(0, 2, int(rng.integers(1, 50))).astype(np.uint8)
                form = pyrng.choice([binary_sequence(o), ''.join(map(str, o)), o.tolist(), tuple(o.tolist())])
                cur, ref = form + cur, np.concatenate((o, ref))
            elif k == '~':
                cur, ref = ~cur, 1 - ref
            else:
                i, j = sorted(rng.integers(0, ref.size + 1, 2))
                st = int(rng.integers(1, 4))
                if ref[i:j:st].size == 0:
                    continue
                cur, ref = cur[int(i):int(j):st], ref[i:j:st]
        if valid_bits(cur, ref.size, cl, 'random expression'):
            check(np.array_equal(cur.data, ref), cl, 'random expression values')
        check(np.array_equal(a.data, ra) and np.array_equal(b.data, rb), cl, 'long operands changed')

    # thresholds
    cl = 'C15 threshold comparison'
    for L in LENGTHS:
        for noise in (False, True):
            sig = np.abs(rng.normal(size=L)) + 0.5
            noi = rng.uniform(-0.5, 0.5, size=L) if noise else None
            x = electrical_signal(sig, noi)
            tot = sig if noi is None else sig + noi
            sx = snap(x)
            thr_list = [0.7, 1, 0, np.float64(1.2), np.abs(rng.normal(size=L)), np.abs(rng.normal(size=L)).tolist(),
                        tuple(np.abs(rng.normal(size=L)).tolist()), [0.9], electrical_signal(np.abs(rng.normal(size=L)))]
            if L > 1:
                # a value taken from the data itself (ties)
                thr_list.append(float(tot[0]))
            for thr in thr_list:
                ta = thr.signal if isinstance(thr, electrical_signal) else np.atleast_1d(np.array(thr, dtype=float))
                for name, fn, ref in (('>', lambda: x > thr, tot > ta), ('<', lambda: x < thr, tot < ta)):
                    r = fn()
                    if valid_bits(r, L, cl, f'L={L} {name} {type(thr).__name__}'):
                        check(np.array_equal(r.data.astype(bool), np.broadcast_to(ref, (L,))), cl,
                              f'L={L} {name} {type(thr).__name__}: not element-wise comparison of signal+noise')
            unchanged(x, sx, cl, 'comparison')
            if L > 1:
                check(raises(lambda: x > np.ones(L + 1), ValueError), cl, 'threshold length mismatch must raise ValueError')
        # complex / negative signals: only validity
        z = electrical_signal(rng.normal(size=L) + 1j * rng.normal(size=L), rng.normal(size=L) * 1j)
        for thr in (0.5, -0.5, 1 + 1j, rng.normal(size=L), (rng.normal(size=L) + 1j).tolist()):
            valid_bits(z > thr, L, cl, f'complex L={L} >')
            valid_bits(z < thr, L, cl, f'complex L={L} <')


# ----------------------------------------------------------------------------
# features that may or may not exist
# ----------------------------------------------------------------------------
def c01_optional(rng):
    cl = 'C01 optional'
    params = inspect.signature(optical_signal.__init__).parameters
    for name, p in params.items():
        if name not in ('self', 'signal', 'noise', 'n_pol', 'dtype'):
            check(p.default is not inspect.Parameter.empty, cl, f'optical_signal(): new parameter {name} needs a default')
    params = inspect.signature(electrical_signal.__init__).parameters
    for name, p in params.items():
        if name not in ('self', 'signal', 'noise', 'dtype'):
            check(p.default is not inspect.Parameter.empty, cl, f'electrical_signal(): new parameter {name} needs a default')
    # polarisation counts other than 1/2 are outside the domain: either rejected or a valid 2-row object
    for bad in (3, 0, -1, '2'):
        try:
            o = optical_signal([1.0, 2.0, 3.0], n_pol=bad)
        except (ValueError, TypeError):
            continue
        check(o.signal.ndim in (1, 2) and o.signal.shape[-1] == 3, cl, f'n_pol={bad!r} produced shape {o.signal.shape}')


def main():
    rng = np.random.default_rng(20240607)
    pyrng = random.Random(991)
    np.random.seed(12345)
    gv.clean()
    c01_constructors(rng)
    c01_binops(rng)
    c01_slicing(rng)
    c01_trees(rng, pyrng)
    c01_optional(rng)
    c02(rng)
    c14(rng, pyrng)
    c15(rng, pyrng)
    gv.clean()
    finish()


if __name__ == '__main__':
    main()
