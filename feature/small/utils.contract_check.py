import sys, os, inspect, math, warnings

_here = os.path.dirname(os.path.abspath(__file__))
if sys.path and os.path.abspath(sys.path[0] or '.') == _here:
    sys.path.pop(0)

import numpy as np
from scipy.integrate import quad
from scipy.optimize import minimize_scalar, brentq
from scipy.constants import c, h, e, k as kB
from scipy.special import erfc

import opticomlib.utils as U

FAIL = []


def check(cond, clause):
    if not cond:
        FAIL.append(clause)
        print('FAIL:', clause)
        sys.exit(1)


def Qref(x):
    return 0.5 * erfc(np.asarray(x, float) / math.sqrt(2))


# ----------------------------------------------------------------- C19: dB
def c19_db():
    rng = np.random.default_rng(1901)
    x = 10 ** rng.uniform(-15, 15, 4000)
    y = 10 ** rng.uniform(-15, 15, 4000)
    check(np.allclose(U.idb(U.db(x)), x, rtol=1e-12, atol=0), 'C19 idb(db(x)) = x (array)')
    check(np.allclose(U.idbm(U.dbm(x)), x, rtol=1e-12, atol=0), 'C19 idbm(dbm(x)) = x (array)')
    check(np.allclose(U.db(x * y), U.db(x) + U.db(y), rtol=0, atol=1e-10), 'C19 db(xy) = db(x)+db(y)')
    check(np.allclose(U.dbm(x), U.db(x) + 30, rtol=0, atol=1e-10), 'C19 dbm = db+30')
    d = rng.uniform(-300, 300, 4000)
    check(np.allclose(U.db(U.idb(d)), d, rtol=0, atol=1e-9), 'C19 db(idb(d)) = d')
    # idbm(-300) = 1e-33: representable
    check(np.allclose(U.dbm(U.idbm(d)), d, rtol=0, atol=1e-9), 'C19 dbm(idbm(d)) = d')
    for xs in [1e-15, 0.5, 1, 1.0, 3, 7.25, 1e15]:
        check(math.isclose(float(U.idb(U.db(xs))), xs, rel_tol=1e-12), 'C19 idb(db(x)) scalar')
        check(math.isclose(float(U.idbm(U.dbm(xs))), xs, rel_tol=1e-12), 'C19 idbm(dbm(x)) scalar')
    for ds in [-300, -3, 0, 0.0, 10, 300]:
        check(abs(float(U.db(U.idb(ds))) - ds) < 1e-9, 'C19 db(idb(d)) scalar')
        check(abs(float(U.dbm(U.idbm(ds))) - ds) < 1e-9, 'C19 dbm(idbm(d)) scalar')
    for f in (U.db, U.dbm):
        for bad in (-1, -0.5, [1, -2, 3], np.array([-1e-9, 2.0]), (3, -1)):
            try:
                f(bad)
                check(False, f'C19 {f.__name__} negative raises ValueError')
            except ValueError:
                pass
    for lst in ([1, 2, 3, 4], (0.1, 10.0), np.array([[1.0, 2.0], [4.0, 8.0]])):
        a = np.asarray(lst, float)
        check(np.allclose(U.db(lst), 10 * np.log10(a)), 'C19 db list/tuple/ndarray')
        check(np.allclose(U.dbm(lst), 10 * np.log10(a) + 30), 'C19 dbm list/tuple/ndarray')


# ------------------------------------------------------- C19: Q, gaus, rcos
def c19_q_gaus_rcos():
    rng = np.random.default_rng(1902)
    x = np.concatenate([rng.uniform(-8, 8, 3000), [0.0]])
    check(np.allclose(U.Q(x) + U.Q(-x), 1, rtol=0, atol=1e-14), 'C19 Q(x)+Q(-x) = 1')
    xs = np.sort(x)
    check(np.all(np.diff(U.Q(xs)) <= 0), 'C19 Q decreasing')
    check(float(U.Q(0)) == 0.5, 'C19 Q(0) = 1/2')
    check(np.allclose(U.Q(x), Qref(x), rtol=1e-12, atol=0), 'C19 Q closed form')
    check(np.allclose(U.Q([0, 1, 2, 3]), Qref([0, 1, 2, 3])), 'C19 Q list input')
    for _ in range(40):
        mu = rng.uniform(-5, 5)
        sd = 10 ** rng.uniform(-2, 2)
        I = quad(lambda t: float(U.gaus(t, mu, sd)), mu - 12 * sd, mu + 12 * sd, epsabs=1e-13, epsrel=1e-12, limit=200)[0]
        check(abs(I - 1) < 1e-9, 'C19 gaus integrates to one')
    I = quad(lambda t: float(U.gaus(t)), -12, 12)[0]
    check(abs(I - 1) < 1e-9, 'C19 gaus default integrates to one')
    g = np.linspace(-8, 8, 20001)
    check(abs(np.trapz(U.gaus(g, 0.3, 1.1), g) - 1) < 1e-9, 'C19 gaus array integrates to one')

    for _ in range(150):
        alpha = rng.choice([0.0, 1.0, rng.uniform(0.01, 1)])
        T = 10 ** rng.uniform(-3, 3)
        f = np.concatenate([rng.uniform(-2 / T, 2 / T, 400), [0.0, 1 / (2 * T), -1 / (2 * T)]])
        H = U.rcos(f, alpha, T)
        check(len(H) == len(f), 'C19 rcos array length')
        check(np.all((H >= 0) & (H <= 1)), 'C19 rcos in [0,1]')
        check(np.array_equal(H, U.rcos(-f, alpha, T)), 'C19 rcos even')
        beyond = np.abs(f) > (1 + alpha) / (2 * T) * (1 + 1e-12)
        check(np.all(H[beyond] == 0), 'C19 rcos vanishes beyond (1+alpha)/(2T)')
        inside = np.abs(f) <= (1 - alpha) / (2 * T) * (1 - 1e-12)
        check(np.all(H[inside] == 1), 'C19 rcos flat part')
        if alpha > 0:
            check(abs(float(U.rcos(1 / (2 * T), alpha, T)) - 0.5) < 1e-9, 'C19 rcos(1/2T) = 1/2 scalar')
            check(abs(float(U.rcos(np.array([1 / (2 * T)]), alpha, T)[0]) - 0.5) < 1e-9, 'C19 rcos(1/2T) = 1/2 array')
        for fs in f[:25]:
            v = float(U.rcos(float(fs), alpha, T))
            check(0 <= v <= 1, 'C19 rcos scalar in [0,1]')
            check(v == float(U.rcos(-float(fs), alpha, T)), 'C19 rcos scalar even')
            check(abs(v - float(U.rcos(np.array([fs]), alpha, T)[0])) < 1e-12, 'C19 rcos scalar = array')
    if 'root' in inspect.signature(U.rcos).parameters:
        f = np.linspace(-1.5, 1.5, 301)
        check(np.allclose(np.asarray(U.rcos(f, 0.4, 1.0, root=True)) ** 2, U.rcos(f, 0.4, 1.0)), 'feature rcos root**2 = rcos')
        check(np.array_equal(U.rcos(f, 0.4, 1.0, root=False), U.rcos(f, 0.4, 1.0)), 'feature rcos root=False identical')


# ---------------------------------------------------------- C19: dec2bin
def c19_dec2bin():
    for d in range(1, 17):
        w = 2 ** np.arange(d - 1, -1, -1, dtype=np.int64)
        for v in range(2 ** d):
            b = U.dec2bin(v, d)
            if len(b) != d or int(np.dot(np.asarray(b, np.int64), w)) != v or not set(np.unique(b)).issubset({0, 1}):
                check(False, f'C19 dec2bin({v},{d}) big-endian expansion')
        for v in (2 ** d, 2 ** d + 1, 2 ** (d + 3), 10 ** 9):
            try:
                U.dec2bin(v, d)
                check(False, f'C19 dec2bin({v},{d}) raises ValueError')
            except ValueError:
                pass
    check(list(U.dec2bin(5, 4)) == [0, 1, 0, 1], 'C19 dec2bin(5,4)')
    check(list(U.dec2bin(np.int64(6), 3)) == [1, 1, 0], 'C19 dec2bin numpy int')
    check(list(U.dec2bin(0, 1)) == [0], 'C19 dec2bin(0,1)')


# --------------------------------------------------------- C19: str2array
def _fmt(v, kind):
    if kind == 'int':
        return str(int(v))
    if kind == 'float':
        return f'{v:.4f}'
    im = 'i' if (abs(v.imag * 1000) % 2 < 1) else 'j'
    return f'{v.real:.3f}{v.imag:+.3f}{im}'


def c19_str2array():
    rng = np.random.default_rng(1903)
    seps = [', ', ' ', ',', '  ']
    rows = [';', '; ', ' ; ']
    for kind, dt in (('int', int), ('float', float), ('complex', complex)):
        for _ in range(120):
            r = int(rng.integers(1, 4))
            cols = int(rng.integers(1, 7))
            if kind == 'int':
                a = rng.integers(-999, 1000, (r, cols))
            elif kind == 'float':
                a = np.round(rng.uniform(-500, 500, (r, cols)), 4)
            else:
                a = np.round(rng.uniform(-50, 50, (r, cols)), 3) + 1j * np.round(rng.uniform(-50, 50, (r, cols)), 3)
            if r == 1:
                a = a[0]
            for sep in seps:
                for rs in rows:
                    if a.ndim == 1:
                        s = sep.join(_fmt(v, kind) for v in a)
                    else:
                        s = rs.join(sep.join(_fmt(v, kind) for v in row) for row in a)
                    out = U.str2array(s, dtype=dt)
                    check(out.shape == a.shape and np.allclose(out, a, rtol=0, atol=1e-12), f'C19 str2array explicit dtype {kind}: {s!r}')
                    check(out.dtype == np.dtype(dt), f'C19 str2array honours dtype {kind}')
                    if not set(s) <= set('01,; '):
                        out = U.str2array(s)
                        check(out.shape == a.shape and np.allclose(out, a, rtol=0, atol=1e-12), f'C19 str2array inferred {kind}: {s!r}')
                        if kind == 'complex':
                            check(np.iscomplexobj(out), 'C19 str2array complex inferred dtype')
                        if kind == 'float':
                            check(out.dtype.kind == 'f', 'C19 str2array float inferred dtype')
                        if kind == 'int' and not set(s) <= set('01,; '):
                            check(out.dtype.kind in 'iu', 'C19 str2array int inferred dtype')
            # cross dtype: ints read as float/complex
            if kind == 'int':
                s = ' '.join(str(v) for v in np.atleast_1d(a).ravel())
                check(np.array_equal(U.str2array(s, dtype=float), np.atleast_1d(a).ravel().astype(float)), 'C19 str2array int text as float')
                check(np.array_equal(U.str2array(s, dtype=complex), np.atleast_1d(a).ravel().astype(complex)), 'C19 str2array int text as complex')
    # bit patterns
    for _ in range(200):
        r = int(rng.integers(1, 4))
        cols = int(rng.integers(1, 7))
        bits = rng.integers(0, 2, (r, cols))
        for sep in ['', ' ', ',', ', ']:
            if r == 1:
                s = sep.join(str(b) for b in bits[0])
                ref = bits[0].astype(bool)
            else:
                s = ';'.join(sep.join(str(b) for b in row) for row in bits)
                ref = bits.astype(bool)
            out = U.str2array(s)
            check(out.dtype == np.dtype(bool) and out.shape == ref.shape and np.array_equal(out, ref), f'C19 str2array bit pattern {s!r}')
            out = U.str2array(s, dtype=bool)
            check(out.dtype == np.dtype(bool) and np.array_equal(out, ref), f'C19 str2array bit pattern dtype=bool {s!r}')
    check(np.array_equal(U.str2array('1 0 1 10'), [True, False, True, True, False]), 'C19 str2array digit by digit')
    check(np.array_equal(U.str2array('1 0 1 10', dtype=int), [1, 0, 1, 10]), 'C19 str2array numeric dtype int')
    check(np.array_equal(U.str2array('1 0 1 10', dtype=float), [1.0, 0, 1, 10]), 'C19 str2array numeric dtype float')
    check(np.array_equal(U.str2array('10,11;0,1', dtype=complex), [[10, 11], [0, 1]]), 'C19 str2array numeric dtype complex 2D')
    for bad in ['1 2 a', 'x', '1e3 2', '[1,2]', '1,2|3', '1 2 3k', '(1+2j)', '1/2', 'nan', '1_000', '0x10', '1 2 #', '3*2']:
        try:
            U.str2array(bad)
            check(False, f'C19 str2array invalid characters raise ValueError: {bad!r}')
        except ValueError:
            pass


# ----------------------------------------------------------------- C19: si
PREF = {'f': -15, 'p': -12, 'n': -9, 'u': -6, 'μ': -6, 'µ': -6, 'm': -3, '': 0, 'k': 3, 'M': 6, 'G': 9, 'T': 12}


def _si_check(x, unit, k, out):
    check(isinstance(out, str), f'C19 si({x!r}) returns a string')
    mant_s, _, tail = out.partition(' ')
    check(tail.endswith(unit), f'C19 si unit suffix: {out!r}')
    pre = tail[:len(tail) - len(unit)]
    check(pre in PREF, f'C19 si prefix known: {out!r}')
    p = PREF[pre]
    mant = float(mant_s)
    true_m = x / 10.0 ** p
    check(abs(mant - true_m) <= 0.5 * 10.0 ** (-k) * (1 + 1e-9) + 1e-12 * true_m, f'C19 si printed mantissa gives back x: si({x!r},k={k}) = {out!r}')
    if x < 1e15:
        check(1 - 1e-12 <= true_m < 1000 * (1 + 1e-12), f'C19 si mantissa in [1,1000): si({x!r}) = {out!r}')
    else:
        check(pre == 'T', 'C19 si >= 1e15 uses T')


def c19_si():
    rng = np.random.default_rng(1904)
    xs = list(10 ** rng.uniform(-15, 15, 3000))
    for dcd in range(-15, 16):
        xs += [float(f'1e{dcd}'), 10.0 ** dcd, float(f'1e{dcd}') * (1 + 1e-9), 2.5 * float(f'1e{dcd}'), 999.0 * float(f'1e{dcd}')]
        if dcd > -15:
            xs += [float(f'1e{dcd}') * (1 - 1e-9)]
    xs += [1, 5, 1000, 12, 10 ** 6, 3 * 10 ** 9, 1e15, 4.2e16]
    for x in xs:
        if x < 1e-15:
            continue
        _si_check(x, 's', 1, U.si(x))
        for unit in ('Hz', 'm', 'W'):
            for k in (0, 1, 2, 4):
                _si_check(x, unit, k, U.si(x, unit, k))
    check(U.si(0.002, 's') == '2.0 ms', "C19 si(0.002,'s')")
    check(U.si(1e9, 'Hz') == '1.0 GHz', "C19 si(1e9,'Hz')")
    neg = U.si(-0.002, 's')
    if neg is not None:
        check(neg == '-' + U.si(0.002, 's'), 'feature si negative mirrors positive')


# ----------------------------------------------------------- C18: shortest_int
def c18_shortest_int():
    rng = np.random.default_rng(1801)
    for it in range(400):
        n = int(rng.choice([2, 3, 5, 10, 37, 100, 1000, 5000]))
        kind = it % 4
        if kind == 0:
            data = rng.normal(0, 1, n)
        elif kind == 1:
            data = rng.uniform(-3, 7, n)
        elif kind == 2:
            data = np.round(rng.normal(0, 2, n))           # quantised -> ties
        else:
            data = rng.integers(0, 4, n).astype(float) / 8  # heavy ties
        p = float(rng.choice([rng.uniform(0.01, 99.99), 50, 10, 90, 25, 68.27]))
        lag = int(n * p / 100)
        if lag < 1 or lag >= n:
            continue
        orig = data.copy()
        lo, hi = U.shortest_int(data, p)
        check(np.array_equal(orig, data), 'C18 shortest_int leaves input intact')
        s = np.sort(data)
        widths = s[lag:] - s[:-lag]
        check(lo <= hi, 'C18 shortest_int lo <= hi')
        check(lo in s and hi in s, 'C18 shortest_int returns data values')
        ok = any((s[i] == lo and s[i + lag] == hi) for i in np.where(s[:-lag] == lo)[0])
        check(ok, 'C18 shortest_int endpoints lag order statistics apart')
        check(hi - lo == widths.min(), 'C18 shortest_int no closer pair')
        check(np.sum((data >= lo) & (data <= hi)) >= lag + 1, 'C18 shortest_int interval holds lag+1 samples')
    data = rng.normal(0, 1, 2000)
    lo, hi = U.shortest_int(data)
    s = np.sort(data)
    check(hi - lo == (s[1000:] - s[:-1000]).min(), 'C18 shortest_int default call is a shortest 50% interval')
    lo, hi = U.shortest_int(list(np.round(data, 1)), 30)
    s = np.sort(np.round(data, 1))
    check(hi - lo == (s[600:] - s[:-600]).min(), 'C18 shortest_int list input')


# --------------------------------------------------------- C13: receiver model
def _model(P, M, ER, amp, wl, G, NF, BWo, r, BWe, RL, T, NFel):
    er = np.inf if np.isinf(ER) else 10 ** (ER / 10)
    p_avg = 10 ** (P / 10 - 3)
    p_on = p_avg * M / (1 + (M - 1) / er)
    p_off = p_on / er
    if amp:
        g = 10 ** (G / 10)
        pase = 10 ** (NF / 10) * h * (c / wl) * (g - 1) * BWo
        l = BWe / BWo
    else:
        g, pase, l = 1.0, 0.0, 1.0
    mu_ase = r * pase * RL
    mu = r * g * np.array([p_off, p_on]) * RL + mu_ase
    S = (4 * kB * T * BWe * RL * 10 ** (NFel / 10) + 2 * e * mu * BWe * RL
         + 2 * mu_ase * (mu - mu_ase) * l + mu_ase ** 2 * (1 - l / 2) * l)
    return mu, mu_ase, S, pase


def _rand_rx(rng):
    amp = bool(rng.integers(0, 2))
    P = float(rng.uniform(-50, 0))
    ER = float(rng.choice([np.inf, rng.uniform(3, 40)]))
    BWe = float(10 ** rng.uniform(8, 10.3))
    BWo = float(BWe * rng.uniform(1.05, 40))
    return dict(P=P, ER=ER, amp=amp, wl=float(rng.uniform(1530e-9, 1565e-9)), G=float(rng.uniform(0, 40)),
                NF=float(rng.uniform(3, 10)), BWo=BWo, r=float(rng.uniform(0.01, 1)), BWe=BWe,
                RL=float(10 ** rng.uniform(1, 4)), T=float(rng.uniform(0, 400)), NFel=float(rng.uniform(0, 10)))


def _ook_int(x, mu, s):
    return 0.5 * (Qref((mu[1] - x) / s[1]) + Qref((x - mu[0]) / s[0]))


def _ppm_hard(x, mu, s, M):
    return (1 - Qref((x - mu[1]) / s[1]) * (1 - Qref((x - mu[0]) / s[0])) ** (M - 1)) * M / 2 / (M - 1)


def _true_min(fun, a, b):
    xs = np.linspace(a, b, 4001)
    ys = fun(xs)
    i = int(np.argmin(ys))
    lo, hi = xs[max(i - 1, 0)], xs[min(i + 1, len(xs) - 1)]
    res = minimize_scalar(lambda t: float(fun(t)), bounds=(lo, hi), method='bounded', options={'xatol': 1e-14 * max(abs(b), 1e-300)})
    return min(float(res.fun), float(ys[i]))


def c13_model():
    rng = np.random.default_rng(1301)
    for it in range(260):
        q = _rand_rx(rng)
        mod = 'ook' if it % 2 == 0 else 'ppm'
        M = 2 if mod == 'ook' else int(2 ** rng.integers(1, 9))
        mu, mu_ase, S, pase = _model(q['P'], M, q['ER'], q['amp'], q['wl'], q['G'], q['NF'], q['BWo'], q['r'], q['BWe'], q['RL'], q['T'], q['NFel'])
        kw = dict(amplify=q['amp'], wavelength=q['wl'], G=q['G'], NF=q['NF'], BW_opt=q['BWo'])
        got = U.p_ase(**kw)
        check(math.isclose(float(got), pase, rel_tol=1e-11, abs_tol=0), 'C13 p_ase = NF*h*f*(G-1)*BW_opt')
        m_got, ase_got = U.average_voltages(q['P'], mod, M if mod == 'ppm' else None, q['ER'], r=q['r'], R_L=q['RL'], **kw)
        check(np.allclose(m_got, mu, rtol=1e-11, atol=0) and math.isclose(float(ase_got), mu_ase, rel_tol=1e-11, abs_tol=0), 'C13 average_voltages ON/OFF levels')
        S_got = U.noise_variances(q['P'], mod, M if mod == 'ppm' else None, q['ER'], r=q['r'], BW_el=q['BWe'], R_L=q['RL'], T=q['T'], NF_el=q['NFel'], **kw)
        check(np.allclose(S_got, S, rtol=1e-10, atol=0), 'C13 noise_variances thermal+shot+beating')
        check(np.all(np.asarray(S_got) >= 0), 'C13 variances non-negative')

        s = np.sqrt(S)
        tkw = dict(ER=q['ER'], amplify=q['amp'], f0=c / q['wl'], G=q['G'], NF=q['NF'], BW_opt=q['BWo'], r=q['r'], BW_el=q['BWe'], R_L=q['RL'], T=q['T'], NF_el=q['NFel'])
        if mod == 'ook':
            ber = float(U.theory_BER(q['P'], 'ook', **tkw))
            ref = _true_min(lambda x: _ook_int(x, mu, s), mu[0], mu[1])
            th = float(rng.uniform(0.05, 0.95))
            ber_t = float(U.theory_BER(q['P'], 'ook', threshold=th, **tkw))
            ref_t = float(_ook_int(th * mu[1] + (1 - th) * mu[0], mu, s))
            check(math.isclose(ber_t, ref_t, rel_tol=1e-8, abs_tol=1e-300), 'C13 theory_BER ook explicit threshold = error integral')
            bound = 0.5
        else:
            dec = 'hard' if it % 4 == 1 else 'soft'
            ber = float(U.theory_BER(q['P'], 'ppm', M, dec, **tkw))
            if dec == 'hard':
                ref = _true_min(lambda x: _ppm_hard(x, mu, s, M), mu[0], mu[1])
                th = float(rng.uniform(0.05, 0.95))
                ber_t = float(U.theory_BER(q['P'], 'ppm', M, 'hard', threshold=th, **tkw))
                ref_t = float(_ppm_hard(th * mu[1] + (1 - th) * mu[0], mu, s, M))
                check(math.isclose(ber_t, ref_t, rel_tol=1e-8, abs_tol=1e-300), 'C13 theory_BER ppm hard explicit threshold = error integral')
            else:
                d = mu[1] - mu[0]
                I = quad(lambda x: (1 - Qref((d + s[1] * x) / s[0])) ** (M - 1) * np.exp(-x * x / 2), -np.inf, np.inf)[0]
                ref = (1 - I / math.sqrt(2 * math.pi)) * M / 2 / (M - 1)
                hard = float(U.theory_BER(q['P'], 'ppm', M, 'hard', **tkw))
                check(ber <= hard * (1 + 1e-9) + 1e-15, 'C13 soft <= hard')
            bound = M / (2 * (M - 1))
        check(0 <= ber <= bound * (1 + 1e-12), 'C13 theory_BER bounded by M/(2(M-1))')
        if mod == 'ook' or dec == 'hard':
            check(ber >= ref * (1 - 1e-9) - 1e-300, f'C13 theory_BER never below the true minimum ({mod})')
            if ref > 1e-200:
                tol = 1e-3 if ref > 1e-20 else 5e-2   # 5000-point grid error grows like ln(1/BER)^2
                check(ber <= ref * (1 + tol), f'C13 theory_BER equals min error integral within grid error ({mod})')
        else:
            check(abs(ber - ref) <= 1e-6 * ref + 1e-13, 'C13 theory_BER soft = error integral')

    # monotone in received power + vectorisation
    for it in range(24):
        q = _rand_rx(rng)
        P = np.linspace(-50, 0, 41)
        mod = ('ook', 'ppm', 'ppm')[it % 3]
        M = None if mod == 'ook' else int(2 ** rng.integers(1, 7))
        dec = None if mod == 'ook' else ('hard', 'soft')[it % 2]
        tkw = dict(ER=q['ER'], amplify=q['amp'], f0=c / q['wl'], G=q['G'], NF=q['NF'], BW_opt=q['BWo'], r=q['r'], BW_el=q['BWe'], R_L=q['RL'], T=q['T'], NF_el=q['NFel'])
        b = U.theory_BER(P, mod, M, dec, **tkw)
        check(np.shape(b) == P.shape, 'C13 theory_BER vectorises')
        slack = 1e-12 if dec != 'soft' else 1e-9
        check(np.all(np.diff(b) <= slack * b[:-1] + 1e-13), f'C13 theory_BER decreases with received power ({mod},{dec})')
        for i in (0, 17, 40):
            check(math.isclose(float(U.theory_BER(float(P[i]), mod, M, dec, **tkw)), float(b[i]), rel_tol=1e-9, abs_tol=1e-300), 'C13 theory_BER element-wise')
    check(float(U.theory_BER(-30.0, 'ook')) < float(U.theory_BER(-35.0, 'ook')), 'C13 theory_BER default receiver monotone')
    check(float(U.theory_BER(-30.0, 'OOK')) == float(U.theory_BER(-30.0, 'ook')), 'C13 theory_BER modulation case')


def c13_threshold():
    rng = np.random.default_rng(1302)
    for it in range(400):
        mu0 = float(rng.uniform(-1, 1))
        s0 = float(10 ** rng.uniform(-2, 0))
        s1 = float(s0 * rng.choice([rng.uniform(1.01, 4), 1 / rng.uniform(1.01, 1.5)]))
        mu1 = mu0 + float(rng.uniform(3, 20)) * max(s0, s1)
        mod = 'ook' if it % 2 == 0 else 'ppm'
        M = 2 if mod == 'ook' else int(2 ** rng.integers(1, 9))
        with warnings.catch_warnings():
            warnings.simplefilter('ignore')
            t = float(U.optimum_threshold(mu0, mu1, s0 ** 2, s1 ** 2, mod, None if mod == 'ook' else M))
        if not np.isfinite(t):
            continue
        lhs = math.log(M - 1) - math.log(s0) - (t - mu0) ** 2 / (2 * s0 ** 2)
        rhs = -math.log(s1) - (t - mu1) ** 2 / (2 * s1 ** 2)
        check(abs(lhs - rhs) < 1e-6 * (1 + abs(lhs)), 'C13 optimum_threshold solves (M-1)N0 = N1')
        sh = float(rng.uniform(-5, 5))
        with warnings.catch_warnings():
            warnings.simplefilter('ignore')
            t2 = float(U.optimum_threshold(mu0 + sh, mu1 + sh, s0 ** 2, s1 ** 2, mod, None if mod == 'ook' else M))
        check(abs((t2 - sh) - t) < 1e-8 * (1 + abs(mu1 - mu0)), 'C13 optimum_threshold depends on mu1-mu0 only')


def main():
    with warnings.catch_warnings():
        warnings.simplefilter('ignore', DeprecationWarning)
        c19_db()
        c19_q_gaus_rcos()
        c19_dec2bin()
        c19_str2array()
        c19_si()
        c18_shortest_int()
        c13_threshold()
        c13_model()
    print('PASS')
    return 0


if __name__ == '__main__':
    sys.exit(main())
