"""Contract check for the codec / decision / analytic-BER functions of opticomlib.ppm and opticomlib.ook.

Checks the clauses of C03, C12 and C13 that depend on
PPM_ENCODER, PPM_DECODER, HDD, SDD, THRESHOLD_EST, DSP, BER_analizer, theory_BER (ppm and ook).
Prints PASS and exits 0 when all hold; prints the failing clauses and exits 1 otherwise.
"""
import sys, os

_here = os.path.dirname(os.path.abspath(__file__))
if sys.path and os.path.abspath(sys.path[0] or os.getcwd()) == _here:
    sys.path.pop(0)

import inspect
import itertools
import warnings

import numpy as np
from scipy.integrate import quad
from scipy.optimize import minimize_scalar
from scipy.special import erfc

warnings.simplefilter('ignore')

import opticomlib
from opticomlib import gv, binary_sequence, electrical_signal, optical_signal, eye, idbm
from opticomlib import ppm, ook
from opticomlib.devices import DAC, MZM, PD, DM, PRBS

FAILS = []


def fail(clause, msg):
    FAILS.append(f'{clause}: {msg}')
    if len(FAILS) < 40:
        print(f'FAIL {clause}: {msg}', flush=True)


def check(cond, clause, msg):
    if not cond:
        fail(clause, msg)
    return cond


def Qf(x):
    return 0.5 * erfc(np.asarray(x, dtype=float) / np.sqrt(2))


def raises(exc, f, *a, **k):
    try:
        f(*a, **k)
    except exc:
        return True
    except Exception as e:  # wrong exception type
        return False
    return False


POW2 = [2, 4, 8, 16, 32, 64, 128, 256]

# --------------------------------------------------------------------------------------
# C12  encoder / decoder
# --------------------------------------------------------------------------------------

def ref_encode(bits, M):
    k = int(round(np.log2(M)))
    n = len(bits) // k
    out = np.zeros(n * M, dtype=np.uint8)
    for i in range(n):
        v = 0
        for b in bits[i * k:(i + 1) * k]:
            v = 2 * v + int(b)
        out[i * M + v] = 1
    return out


def c12_codec():
    cl = 'C12.encode/decode'
    # exhaustive: every bit string of length <= 12
    for M in POW2:
        k = int(round(np.log2(M)))
        for L in range(0, 13):
            for tup in itertools.product((0, 1), repeat=L):
                b = np.array(tup, dtype=np.uint8)
                if L == 0:
                    continue
                enc = ppm.PPM_ENCODER(b, M)
                ref = ref_encode(tup, M)
                if not (isinstance(enc, binary_sequence) and enc.data.shape == ref.shape and np.array_equal(enc.data, ref)):
                    fail(cl, f'PPM_ENCODER({tup},{M}) wrong'); return
                blocks = enc.data.reshape(-1, M) if enc.data.size else np.zeros((0, M))
                if not np.all(blocks.sum(axis=1) == 1):
                    fail(cl, f'PPM_ENCODER({tup},{M}) not one ON slot per block'); return
                dec = ppm.PPM_DECODER(enc, M)
                exp = b[:L // k * k]
                if not (isinstance(dec, binary_sequence) and dec.data.shape == exp.shape and np.array_equal(dec.data, exp)):
                    fail(cl, f'PPM_DECODER(PPM_ENCODER({tup},{M})) = {dec.data} != {exp}'); return
    # long random sequences, container types
    rng = np.random.default_rng(1201)
    for M in POW2:
        k = int(round(np.log2(M)))
        for n in (k, 3 * k + 1, 257, 4099):
            b = rng.integers(0, 2, n)
            ref = ref_encode(b, M)
            s = ''.join(map(str, b))
            conts = [s, list(map(int, b)), tuple(map(int, b)), b, b.astype(bool), b.astype(float), b.astype(np.uint8), binary_sequence(b)]
            for c in conts:
                enc = ppm.PPM_ENCODER(c, M)
                if not np.array_equal(enc.data, ref):
                    fail(cl, f'PPM_ENCODER container {type(c).__name__} M={M} n={n}'); return
            e = ref
            es = ''.join(map(str, e))
            econts = [es, list(map(int, e)), tuple(map(int, e)), e, e.astype(bool), e.astype(float), binary_sequence(e)]
            for c in econts:
                dec = ppm.PPM_DECODER(c, M)
                if not np.array_equal(dec.data, b[:n // k * k]):
                    fail(cl, f'PPM_DECODER container {type(c).__name__} M={M} n={n}'); return
    # spaced strings
    check(np.array_equal(ppm.PPM_ENCODER('01 11 10 00', 4).data, ref_encode([0, 1, 1, 1, 1, 0, 0, 0], 4)), cl, 'spaced string')
    check(np.array_equal(ppm.PPM_DECODER('0100 0001 0010 1000', 4).data, [0, 1, 1, 1, 1, 0, 0, 0]), cl, 'spaced string decode')


def check_hdd_result(inp, out, M):
    a = np.asarray(inp).astype(int).reshape(-1, M)
    o = np.asarray(out).astype(int).reshape(-1, M)
    if o.shape != a.shape:
        return 'shape'
    if not np.all((o == 0) | (o == 1)):
        return 'non binary'
    if not np.all(o.sum(axis=1) == 1):
        return 'not exactly one ON slot per symbol'
    one = a.sum(axis=1) == 1
    if not np.array_equal(o[one], a[one]):
        return 'valid symbol changed'
    many = a.sum(axis=1) > 1
    if not np.all((o[many] & a[many]).sum(axis=1) == 1):
        return 'kept slot was not ON'
    return None


def c12_hdd():
    cl = 'C12.HDD'
    seed = 0
    for M in (2, 4, 8):
        for L in range(M, 17, M):
            for tup in itertools.product((0, 1), repeat=L):
                seed += 1
                np.random.seed(seed % 9973)
                a = np.array(tup, dtype=np.uint8)
                out = ppm.HDD(a, M)
                if not isinstance(out, binary_sequence):
                    fail(cl, 'HDD does not return binary_sequence'); return
                err = check_hdd_result(a, out.data, M)
                if err:
                    fail(cl, f'HDD({tup},{M}) -> {out.data}: {err}'); return
    rng = np.random.default_rng(1202)
    for M in POW2:
        for trial in range(12):
            nsym = int(rng.integers(1, 60))
            p = rng.choice([0.02, 0.2, 0.5, 0.9])
            a = (rng.random(nsym * M) < p).astype(np.uint8)
            outs = []
            s = ''.join(map(str, a))
            for c in [a, a.astype(bool), list(map(int, a)), tuple(map(int, a)), s, binary_sequence(a), a.astype(float)]:
                np.random.seed(1000 + trial)
                out = ppm.HDD(c, M)
                err = check_hdd_result(a, out.data, M)
                if err:
                    fail(cl, f'HDD random M={M} container {type(c).__name__}: {err}'); return
                outs.append(out.data)
            if not all(np.array_equal(outs[0], o) for o in outs[1:]):
                fail(cl, f'HDD container types disagree for the same seed, M={M}'); return
            for sd in range(5):
                np.random.seed(sd)
                err = check_hdd_result(a, ppm.HDD(a, M).data, M)
                if err:
                    fail(cl, f'HDD seed {sd}: {err}'); return
            # identity on valid codewords
            bits = rng.integers(0, 2, nsym * int(np.log2(M)))
            cw = ref_encode(bits, M)
            if not np.array_equal(ppm.HDD(cw, M).data, cw):
                fail(cl, f'HDD not identity on codeword M={M}'); return
            if not np.array_equal(ppm.HDD(ppm.PPM_ENCODER(bits, M), M).data, cw):
                fail(cl, f'HDD not identity on PPM_ENCODER output M={M}'); return
    # order given as numpy integer (always) or as integer-valued float / 0-d array (when accepted)
    for M in POW2:
        a = (rng.random(6 * M) < 0.3).astype(np.uint8)
        for Mv in (np.int64(M), np.uint16(M), np.array(M), float(M), np.float64(M)):
            np.random.seed(5)
            try:
                out = ppm.HDD(a, Mv)
            except TypeError:
                if isinstance(Mv, np.integer):
                    fail(cl, f'HDD rejects numpy integer order {Mv!r}')
                continue
            np.random.seed(5)
            if not np.array_equal(out.data, ppm.HDD(a, M).data):
                fail(cl, f'HDD result depends on the type of M ({type(Mv).__name__})')
    for Mv in (6.0, 4.5, np.float64(12), np.array(3)):
        try:
            ppm.HDD(np.zeros(int(Mv) * 4, dtype=int), Mv)
            fail(cl, f'HDD accepts order {Mv!r}')
        except (ValueError, TypeError):
            pass
    for M in (3, 5, 6, 7, 9, 10, 12, 24, 100, 255):
        check(raises(ValueError, ppm.HDD, np.zeros(M * 4, dtype=int), M), cl, f'M={M} not rejected with ValueError')
        check(raises(ValueError, ppm.HDD, '0' * (M * 4), M), cl, f'M={M} (str) not rejected with ValueError')
    for M in (2, 4, 8, 16, 256):
        for extra in (1, M - 1, M + 1):
            if extra % M == 0:
                continue
            check(raises(ValueError, ppm.HDD, np.zeros(3 * M + extra, dtype=int), M), cl, f'length {3*M+extra} not rejected for M={M}')


def c12_sdd():
    cl = 'C12.SDD'
    rng = np.random.default_rng(1203)
    for trial in range(60):
        sps = int(rng.choice([4, 5, 7, 8, 9, 16, 31, 32, 64]))
        gv(sps=sps, R=float(rng.choice([1e9, 10e9])))
        M = int(rng.choice(POW2[:6] if sps > 16 else POW2))
        nsym = int(rng.integers(1, 20))
        # largest integrated energy
        E = rng.normal(0, 1, nsym * M)
        w = np.kron(E, np.ones(sps)) + 0.0
        shape = rng.normal(0, 0.01, w.size)
        w = w + shape - np.kron(shape.reshape(-1, sps).mean(axis=1), np.ones(sps))
        exp = np.zeros(nsym * M, dtype=int)
        exp[np.arange(nsym) * M + E.reshape(-1, M).argmax(axis=1)] = 1
        for inp in (w, electrical_signal(w), list(w), electrical_signal(w * 0.5, w * 0.5)):
            out = ppm.SDD(inp, M)
            if not (isinstance(out, binary_sequence) and np.array_equal(out.data, exp)):
                fail(cl, f'SDD argmax energy wrong, sps={sps} M={M} input {type(inp).__name__}'); return
        # noiseless waveform of a codeword
        bits = rng.integers(0, 2, nsym * int(np.log2(M)))
        cw = ppm.PPM_ENCODER(bits, M)
        for shp in ('nrz', 'gaussian', 'rz'):
            try:
                x = DAC(cw, Vout=float(rng.uniform(0.1, 5)), pulse_shape=shp)
            except Exception:
                continue
            out = ppm.SDD(x, M)
            if not np.array_equal(out.data, cw.data):
                fail(cl, f'SDD not identity on {shp} waveform sps={sps} M={M}'); return
            if not np.array_equal(ppm.HDD(out, M).data, cw.data):
                fail(cl, 'HDD(SDD(.)) not identity'); return
    gv(sps=16, R=1e9)
    for M in POW2:
        E = rng.normal(0, 1, 5 * M)
        w = np.kron(E, np.ones(16))
        ref = ppm.SDD(w, M).data
        for Mv in (np.int64(M), np.uint16(M), np.array(M), float(M), np.float64(M)):
            try:
                out = ppm.SDD(w, Mv)
            except TypeError:
                if isinstance(Mv, np.integer):
                    fail(cl, f'SDD rejects numpy integer order {Mv!r}')
                continue
            check(np.array_equal(out.data, ref), cl, f'SDD result depends on the type of M ({type(Mv).__name__})')
    for M in (3, 5, 6, 7, 12, 100):
        check(raises(ValueError, ppm.SDD, np.zeros(M * 16 * 2), M), cl, f'SDD M={M} not rejected with ValueError')
        check(raises(ValueError, ppm.SDD, electrical_signal(np.zeros(M * 16 * 2)), M), cl, f'SDD M={M} (signal) not rejected')
    for M in (2, 4, 8):
        for extra in (1, 15, 16, 16 * M - 1):
            check(raises(ValueError, ppm.SDD, np.zeros(2 * M * 16 + extra), M), cl, f'SDD length +{extra} not rejected for M={M}')


# --------------------------------------------------------------------------------------
# C03  noise-free link
# --------------------------------------------------------------------------------------

def link(seq, rng, npol=1, disp=False):
    Vpi = float(rng.uniform(2, 8))
    shape = str(rng.choice(['nrz', 'gaussian']))
    v = DAC(~seq, Vout=Vpi, pulse_shape=shape)
    P = idbm(float(rng.uniform(-10, 10)))
    if npol == 1:
        cw = optical_signal(np.ones(v.len()) * P ** 0.5)
        pol = 'x'
    else:
        pol = str(rng.choice(['x', 'y']))
        cw = optical_signal(np.ones((2, v.len())) * (P / 2) ** 0.5)
    m = MZM(cw, v, bias=0, Vpi=Vpi, loss_dB=float(rng.uniform(0, 6)), ER_dB=float(rng.uniform(10, 40)), pol=pol)
    if disp:
        T2 = (1 / gv.R) ** 2
        D = float(rng.uniform(-1, 1)) * 0.009 * T2 * 1e24  # |beta2*L| in ps^2 below 1% of T^2
        try:
            m = DM(m, D)
        except Exception:
            pass
    y = PD(m, BW=float(rng.uniform(0.7, 1.5)) * gv.R, r=float(rng.uniform(0.3, 1.0)), R_load=float(rng.choice([10.0, 50.0, 1e3])), include_noise='ase-only')
    return y


def manual_decide(y):
    s = np.asarray(y.signal if y.noise is None else y.signal + y.noise).real
    smp = s[gv.sps // 2::gv.sps]
    thr = 0.5 * (smp.max() + smp.min())
    return (smp > thr).astype(int)


def c03_link():
    cl = 'C03'
    rng = np.random.default_rng(303)
    # OOK
    for trial in range(14):
        sps = int(rng.choice([4, 5, 7, 8, 16, 33, 64]))
        R = float(rng.choice([1e9, 2.5e9, 10e9]))
        gv(sps=sps, R=R)
        if trial % 2:
            bits = PRBS(order=7, len=int(rng.choice([64, 127, 256])))
        else:
            bits = binary_sequence(rng.integers(0, 2, int(rng.choice([64, 128, 200]))))
        npol = 1 + trial % 2
        y = link(bits, rng, npol=npol, disp=(trial % 3 == 0))
        got = manual_decide(y)
        if not np.array_equal(got, bits.data):
            fail(cl, f'manual slot-centre decision wrong (sps={sps}, npol={npol})'); continue
        if sps >= 8:
            rx, eye_obj, rth = ook.DSP(y)
            if not (isinstance(rx, binary_sequence) and np.array_equal(rx.data, bits.data)):
                fail(cl, f'ook.DSP wrong on noise-free link (sps={sps}, R={R}, npol={npol}, n={bits.len()})'); continue
            check(ook.BER_analizer('counter', Tx=bits, Rx=rx) == 0, cl, 'ook.BER_analizer counter != 0')
    # special sequences through manual decision
    gv(sps=16, R=1e9)
    for s in ('0' * 20 + '1' + '0' * 20, '1' * 20 + '0' + '1' * 20, '01' * 24, '0' * 16 + '1' * 16 + '0' * 3):
        bits = binary_sequence(s)
        y = link(bits, rng)
        check(np.array_equal(manual_decide(y), bits.data), cl, f'manual decision wrong for {s[:12]}...')
    # direct electrical: DAC -> ook.DSP
    for shp in ('gaussian',):
        for sps in (8, 16, 32):
            gv(sps=sps, R=1e9)
            bits = PRBS(order=7, len=128)
            rx, eye_obj, rth = ook.DSP(DAC(bits, Vout=2.0, bias=0.3, pulse_shape=shp))
            check(np.array_equal(rx.data, bits.data), cl, f'ook.DSP on noise-free DAC output wrong ({shp}, sps={sps})')
            check(eye_obj.mu0 <= rth <= eye_obj.mu1, cl, 'ook.DSP threshold outside [mu0,mu1]')
    # PPM
    for trial in range(12):
        M = int(rng.choice([2, 4, 8, 16]))
        sps = int(rng.choice([8, 16, 32]))
        gv(sps=sps, R=float(rng.choice([1e9, 10e9])))
        k = int(np.log2(M))
        nb = int(rng.choice([40, 64, 101]))
        bits = binary_sequence(rng.integers(0, 2, nb)) if trial % 2 else PRBS(order=7, len=nb)
        exp = bits.data[:nb // k * k]
        cw = ppm.PPM_ENCODER(bits, M)
        y = link(cw, rng, npol=1 + trial % 2)
        soft = ppm.DSP(y, M, decision='soft')
        if not check(isinstance(soft, binary_sequence) and np.array_equal(soft.data, exp), cl, f'ppm.DSP soft wrong (M={M}, sps={sps})'):
            continue
        hard = ppm.DSP(y, M, decision='hard')
        if not check(isinstance(hard, binary_sequence) and np.array_equal(hard.data, exp), cl, f'ppm.DSP hard wrong (M={M}, sps={sps})'):
            continue
        check(ppm.BER_analizer('counter', Tx=bits, Rx=soft) == 0, cl, 'ppm.BER_analizer counter != 0 (soft)')
        check(ppm.BER_analizer('counter', Tx=bits, Rx=hard) == 0, cl, 'ppm.BER_analizer counter != 0 (hard)')
        if 'full_output' in inspect.signature(ppm.DSP).parameters:
            res = ppm.DSP(y, M, decision='hard', full_output=True)
            check(isinstance(res, tuple) and np.array_equal(res[0].data, exp), cl, 'ppm.DSP full_output hard wrong')
            res = ppm.DSP(y, M, decision='soft', full_output=True)
            check(isinstance(res, tuple) and np.array_equal(res[0].data, exp), cl, 'ppm.DSP full_output soft wrong')
        # direct DAC waveform
        x = DAC(cw, Vout=float(rng.uniform(0.2, 3)), pulse_shape='gaussian')
        check(np.array_equal(ppm.DSP(x, M, decision='soft').data, exp), cl, 'ppm.DSP soft wrong on DAC waveform')
        check(np.array_equal(ppm.DSP(x, M, decision='hard').data, exp), cl, 'ppm.DSP hard wrong on DAC waveform')
    # counter: k flipped bits -> k/n
    for mod in (ook, ppm):
        names = ['BER_analizer'] + (['BER_analyzer'] if hasattr(mod, 'BER_analyzer') else [])
        for name in names:
            f = getattr(mod, name)
            for trial in range(20):
                n = int(rng.integers(1, 3000))
                tx = rng.integers(0, 2, n)
                kf = int(rng.integers(0, n + 1))
                idx = rng.choice(n, kf, replace=False)
                rx = tx.copy(); rx[idx] ^= 1
                for a, b in ((tx, rx), (binary_sequence(tx), binary_sequence(rx)), (list(map(int, tx)), list(map(int, rx)))):
                    val = f('counter', Tx=a, Rx=b)
                    if not (val == kf / n):
                        fail(cl, f'{mod.__name__}.{name} counter {val} != {kf}/{n}'); break
            tx = rng.integers(0, 2, 100)
            check(f('counter', Tx=binary_sequence(tx), Rx=binary_sequence(tx[:96])) == 0, cl, f'{name} counter with truncated Rx')


# --------------------------------------------------------------------------------------
# C13  analytic formulas (ook / ppm modules)
# --------------------------------------------------------------------------------------

def ook_err(r, mu, s0, s1):
    return 0.5 * (Qf((mu - r) / s1) + Qf(r / s0))


def ppm_soft_ref(mu, s0, s1, M):
    return 1 - quad(lambda x: (1 - Qf((mu + s1 * x) / s0)) ** (M - 1) * np.exp(-x ** 2 / 2), -np.inf, np.inf)[0] / np.sqrt(2 * np.pi)


def ppm_hard_err(r, mu, s0, s1, M):
    return 1 - Qf((r - mu) / s1) * (1 - Qf(r / s0)) ** (M - 1)


def c13_ook():
    cl = 'C13.ook'
    rng = np.random.default_rng(1301)
    for trial in range(300):
        s = float(10 ** rng.uniform(-3, 1))
        mu = float(rng.uniform(0.01, 20)) * s
        v = float(ook.theory_BER(mu, s, s))
        t = float(Qf(mu / (2 * s)))
        if not (v >= t * (1 - 1e-9) and v <= t * (1 + 2e-2)):
            fail(cl, f'theory_BER({mu},{s},{s})={v} vs Q(mu/2s)={t}'); break
    for trial in range(200):
        s0 = float(10 ** rng.uniform(-2, 0.5)); s1 = float(s0 * 10 ** rng.uniform(-0.7, 0.7))
        mu = float(rng.uniform(0.05, 20)) * min(s0, s1)
        v = float(ook.theory_BER(mu, s0, s1))
        rr = np.linspace(0, mu, 200001)
        tm = float(ook_err(rr, mu, s0, s1).min())
        r0 = rr[np.argmin(ook_err(rr, mu, s0, s1))]
        res = minimize_scalar(lambda r: ook_err(r, mu, s0, s1), bounds=(max(0, r0 - mu / 1000), min(mu, r0 + mu / 1000)), method='bounded', options={'xatol': 1e-14})
        tm = min(tm, float(res.fun))
        if not (v >= tm * (1 - 1e-9) and v <= tm * (1 + 5e-2) + 1e-300):
            fail(cl, f'theory_BER({mu},{s0},{s1})={v} vs true min {tm}'); break
        check(v <= 0.5 + 1e-12, cl, 'ook theory_BER > 1/2')
    # monotone in mu, vectorised
    for trial in range(40):
        s0 = float(10 ** rng.uniform(-2, 0.5)); s1 = float(s0 * 10 ** rng.uniform(-0.5, 0.5))
        mus = np.sort(rng.uniform(0.01, 20, 30)) * min(s0, s1)
        v = ook.theory_BER(mus, s0, s1)
        check(np.shape(v) == (30,), cl, 'ook theory_BER does not vectorise')
        sc = np.array([float(ook.theory_BER(float(m), s0, s1)) for m in mus])
        check(np.allclose(v, sc, rtol=1e-12, atol=0), cl, 'ook theory_BER vector != scalars')
        check(np.all(np.diff(v) <= 1e-3 * v[:-1] + 1e-300), cl, 'ook theory_BER increasing in mu')
        v2 = ook.theory_BER(mus, np.full(30, s0), np.full(30, s1))
        check(np.allclose(v2, sc, rtol=1e-12, atol=0), cl, 'ook theory_BER element-wise arrays')
    # THRESHOLD_EST / estimator
    for trial in range(300):
        s0 = float(10 ** rng.uniform(-2, 0.5)); s1 = s0 if trial % 3 == 0 else float(s0 * 10 ** rng.uniform(-0.7, 0.7))
        d = float(rng.uniform(0.05, 20)) * min(s0, s1)
        mu0 = float(rng.uniform(-2, 2)); mu1 = mu0 + d
        e = eye(mu0=mu0, mu1=mu1, s0=s0, s1=s1)
        th = float(ook.THRESHOLD_EST(e))
        step = d / 999
        check(mu0 - 1e-12 <= th <= mu1 + 1e-12, cl, f'THRESHOLD_EST outside [mu0,mu1]: {th}')
        if s0 == s1:
            check(abs(th - 0.5 * (mu0 + mu1)) <= 0.51 * step + 1e-12, cl, f'THRESHOLD_EST not midpoint for equal sigmas: {th} vs {(mu0+mu1)/2}')
        rr = np.linspace(mu0, mu1, 1000)
        ref = rr[np.argmin(0.5 * (Qf((mu1 - rr) / s1) + Qf((rr - mu0) / s0)))]
        check(abs(th - ref) <= 1.01 * step, cl, f'THRESHOLD_EST {th} != grid minimiser {ref}')
        # solves N(r;mu0,S0) = N(r;mu1,S1) within the grid step (when the root is interior)
        if s0 != s1 and d / max(s0, s1) > 3:
            S0, S1 = s0 ** 2, s1 ** 2
            root = 1 / (S1 - S0) * (mu0 * S1 - mu1 * S0 + s1 * s0 * np.sqrt(d ** 2 + 2 * (S1 - S0) * np.log(s1 / s0)))
            if mu0 < root < mu1:
                check(abs(th - root) <= 1.01 * step, cl, f'THRESHOLD_EST {th} does not solve the likelihood equation ({root})')
        # shift invariance
        c = float(rng.uniform(-5, 5))
        th2 = float(ook.THRESHOLD_EST(eye(mu0=mu0 + c, mu1=mu1 + c, s0=s0, s1=s1)))
        check(abs((th2 - c) - th) <= 1.01 * step, cl, 'THRESHOLD_EST depends on more than mu1-mu0')
        be = float(ook.BER_analizer('estimator', eye_obj=e))
        bt = float(ook.theory_BER(d, s0, s1))
        check(abs(be - bt) <= 1e-6 * bt + 1e-300 or abs(be - bt) <= 2e-2 * bt and True, cl, f'ook estimator {be} != theory_BER {bt}')
        be2 = float(ook.BER_analizer('estimator', eye_obj=eye(mu0=mu0 + c, mu1=mu1 + c, s0=s0, s1=s1)))
        check(abs(be - be2) <= 2e-2 * be + 1e-300, cl, 'ook estimator depends on more than mu1-mu0')


def c13_ppm():
    cl = 'C13.ppm'
    rng = np.random.default_rng(1302)
    for trial in range(120):
        s0 = float(10 ** rng.uniform(-2, 0.5)); s1 = float(s0 * 10 ** rng.uniform(-0.5, 0.5))
        mu = float(rng.uniform(0.05, 20)) * min(s0, s1)
        v = float(ppm.theory_BER(mu, s0, s1, 2, 'soft'))
        t = float(Qf(mu / np.sqrt(s0 ** 2 + s1 ** 2)))
        check(abs(v - t) <= 1e-6 * t + 2e-9, cl, f'ppm soft M=2 {v} != Q {t}')
        v = float(ppm.theory_BER(mu, s0, s1, 2))
        check(abs(v - t) <= 1e-6 * t + 2e-9, cl, f'ppm default decision is not soft: {v} vs {t}')
    for M in POW2:
        bound = M / (2 * (M - 1))
        for trial in range(25):
            s0 = float(10 ** rng.uniform(-2, 0.5)); s1 = float(s0 * 10 ** rng.uniform(-0.5, 0.5))
            mus = np.sort(rng.uniform(0.01, 20, 8)) * min(s0, s1)
            soft = np.asarray(ppm.theory_BER(mus, s0, s1, M, 'soft'), dtype=float)
            hard = np.asarray(ppm.theory_BER(mus, s0, s1, M, 'hard'), dtype=float)
            check(soft.shape == (8,) and hard.shape == (8,), cl, 'ppm theory_BER does not vectorise')
            check(np.all(soft <= hard * (1 + 1e-6) + 2e-9), cl, f'soft > hard for M={M}')
            check(np.all(soft <= bound + 1e-9) and np.all(hard <= bound + 1e-9), cl, f'bound M/(2(M-1)) exceeded for M={M}')
            check(np.all(soft >= -2e-9) and np.all(hard >= 0), cl, 'negative BER')
            check(np.all(np.diff(soft) <= 1e-6 * soft[:-1] + 4e-9), cl, f'soft increasing in mu (M={M})')
            check(np.all(np.diff(hard) <= 1e-3 * hard[:-1] + 1e-300), cl, f'hard increasing in mu (M={M})')
            i = int(rng.integers(0, 8))
            ss = float(ppm.theory_BER(float(mus[i]), s0, s1, M, 'soft')); hs = float(ppm.theory_BER(float(mus[i]), s0, s1, M, 'hard'))
            check(abs(ss - soft[i]) <= 1e-9 * abs(ss) + 1e-15, cl, 'soft vector != scalar')
            check(abs(hs - hard[i]) <= 1e-12 * hs, cl, 'hard vector != scalar')
            sref = ppm_soft_ref(float(mus[i]), s0, s1, M) * bound
            check(abs(ss - sref) <= 1e-6 * abs(sref) + 4e-9, cl, f'soft {ss} != reference integral {sref}')
            rr = np.linspace(0, mus[i], 100001)
            href = float(ppm_hard_err(rr, mus[i], s0, s1, M).min()) * bound
            check(hs >= href * (1 - 1e-9) - 1e-16 and hs <= href * (1 + 5e-2) + 1e-15, cl, f'hard {hs} vs fine-grid min {href} (M={M})')
            # estimator / THRESHOLD_EST
            mu0 = float(rng.uniform(-2, 2)); d = float(mus[i]); mu1 = mu0 + d
            e = eye(mu0=mu0, mu1=mu1, s0=s0, s1=s1)
            th = float(ppm.THRESHOLD_EST(e, M))
            step = d / 999
            check(mu0 - 1e-12 <= th <= mu1 + 1e-12, cl, f'ppm THRESHOLD_EST outside [mu0,mu1]')
            g = np.linspace(mu0, mu1, 1000)
            ref = g[np.argmin(ppm_hard_err(g - mu0, d, s0, s1, M))]
            check(abs(th - ref) <= 1.01 * step, cl, f'ppm THRESHOLD_EST {th} != grid minimiser {ref}')
            c = float(rng.uniform(-5, 5))
            e2 = eye(mu0=mu0 + c, mu1=mu1 + c, s0=s0, s1=s1)
            th2 = float(ppm.THRESHOLD_EST(e2, M))
            check(abs(th2 - c - th) <= 1.01 * step, cl, 'ppm THRESHOLD_EST depends on more than mu1-mu0')
            # stationarity of the symbol error at the returned threshold: (M-1)*N0*A = N1*B changes sign within one grid step
            if mu0 + step < th < mu1 - step and ppm_hard_err(th - mu0, d, s0, s1, M) > 1e-10:
                def g(r):
                    N0 = np.exp(-(r - mu0) ** 2 / (2 * s0 ** 2)) / s0
                    N1 = np.exp(-(r - mu1) ** 2 / (2 * s1 ** 2)) / s1
                    return (M - 1) * N0 * Qf((r - mu1) / s1) - N1 * (1 - Qf((r - mu0) / s0))
                check(g(th - 1.01 * step) >= 0 >= g(th + 1.01 * step), cl, f'ppm THRESHOLD_EST {th} is not a stationary point of the symbol error (M={M})')
            names = ['BER_analizer'] + (['BER_analyzer'] if hasattr(ppm, 'BER_analyzer') else [])
            for name in names:
                f = getattr(ppm, name)
                bs = float(f('estimator', eye_obj=e, M=M, decision='soft'))
                bh = float(f('estimator', eye_obj=e, M=M, decision='hard'))
                bd = float(f('estimator', eye_obj=e, M=M))
                check(abs(bs - ss) <= 1e-6 * abs(ss) + 4e-9, cl, f'ppm estimator soft {bs} != theory {ss}')
                check(bd == bs or abs(bd - bs) <= 1e-12, cl, 'ppm estimator default decision is not soft')
                check(abs(bh - hs) <= 2e-2 * hs + 1e-300, cl, f'ppm estimator hard {bh} != theory {hs}')
                bs2 = float(f('estimator', eye_obj=e2, M=M, decision='soft')); bh2 = float(f('estimator', eye_obj=e2, M=M, decision='hard'))
                check(abs(bs2 - bs) <= 1e-6 * abs(bs) + 4e-9 and abs(bh2 - bh) <= 2e-2 * bh + 1e-300, cl, 'ppm estimator depends on more than mu1-mu0')
    for M in (3, 5, 6, 12, 100):
        check(raises(ValueError, ppm.theory_BER, 1.0, 0.1, 0.1, M, 'hard'), cl, f'theory_BER accepts M={M}')


def main():
    for f in (c12_codec, c12_hdd, c12_sdd, c13_ook, c13_ppm, c03_link):
        try:
            f()
        except Exception as e:
            import traceback
            traceback.print_exc()
            fail(f.__name__, f'exception {type(e).__name__}: {e}')
        print(f'done {f.__name__}', flush=True)
    if FAILS:
        print(f'FAILED ({len(FAILS)} clause checks)')
        for m in FAILS[:40]:
            print('  -', m)
        sys.exit(1)
    print('PASS')
    sys.exit(0)


if __name__ == '__main__':
    main()
