import sys
import os

_here = os.path.dirname(os.path.abspath(__file__))
if sys.path and os.path.abspath(sys.path[0] or os.getcwd()) == _here:
    sys.path.pop(0)

import inspect
import warnings

import numpy as np

import opticomlib
from opticomlib import gv, binary_sequence, electrical_signal, optical_signal
from opticomlib.devices import PRBS, DAC, LASER, PM, MZM, SAMPLER

FAILURES = []
TAPS = {7: 6, 9: 5, 11: 9, 15: 14, 20: 3, 23: 18, 31: 28}


def check(cond, clause):
    if not cond:
        FAILURES.append(clause)
        print("FAIL:", clause)
        return False
    return True


def raises(exc, fn, *a, **k):
    try:
        with warnings.catch_warnings():
            warnings.simplefilter("ignore")
            fn(*a, **k)
    except exc:
        return True
    except Exception:
        return False
    return False


def quiet(fn, *a, **k):
    with warnings.catch_warnings():
        warnings.simplefilter("ignore")
        return fn(*a, **k)


# ---------------------------------------------------------------- C04
def ref_prbs(n, length, seed):
    t = TAPS[n]
    s = seed % (1 << n)
    if s == 0:
        s = 1
    hist = [(s >> j) & 1 for j in range(n - 1, -1, -1)]  # a[-(n-1)] ... a[0]
    out = [hist[-1]]
    while len(out) < length:
        hist.append(hist[-n] ^ hist[-t])
        out.append(hist[-1])
    return np.array(out[:length], dtype=np.uint8), hist


def ref_state(n, hist):
    last = hist[-n:]  # a[m-n+1..m]; next output a[m+1]; state bit j = output j steps before next-first
    # state after producing `length` bits: next first output must be a[m+1]
    nxt = hist[-n] ^ hist[-TAPS[n]]
    bits = [nxt] + last[::-1][: n - 1]
    return sum(b << j for j, b in enumerate(bits))


def check_c04():
    rng = np.random.default_rng(404)
    for n in TAPS:
        P = (1 << n) - 1
        seeds = [1, P, 1 << (n - 1), -1, -12345, (1 << 40) + 77, 3 * (1 << n) + 5]
        seeds += [int(v) for v in rng.integers(1, P, 6)]
        for s in seeds:
            L = int(rng.integers(1, 400))
            out = quiet(PRBS, n, len=L, seed=s)
            ref, _ = ref_prbs(n, L, s)
            check(isinstance(out, binary_sequence), f"C04 PRBS{n} returns binary_sequence")
            check(out.data.shape == (L,) and np.array_equal(out.data, ref),
                  f"C04 PRBS{n} recurrence seed={s} len={L}")
            check(int(out.data[0]) == ((s % (1 << n)) or 1) & 1, f"C04 PRBS{n} first output is seed LSB")
        # default seed / default len
        out = quiet(PRBS, n, len=50)
        check(np.array_equal(out.data, ref_prbs(n, 50, P)[0]), f"C04 PRBS{n} default seed")
        # resume, any split
        for _ in range(12):
            s = int(rng.integers(-(1 << 35), 1 << 35))
            parts = [int(v) for v in rng.integers(1, 120, int(rng.integers(2, 5)))]
            whole, st_whole = quiet(PRBS, n, len=sum(parts), seed=s, return_seed=True)
            pieces, state = [], s
            for p in parts:
                o, state = quiet(PRBS, n, len=p, seed=state, return_seed=True)
                pieces.append(o.data)
            check(np.array_equal(np.concatenate(pieces), whole.data), f"C04 PRBS{n} resume split {parts} seed={s}")
            check(int(state) == int(st_whole), f"C04 PRBS{n} resumed state equals one-call state")
            _, hist = ref_prbs(n, sum(parts), s)
            check(int(st_whole) == ref_state(n, hist), f"C04 PRBS{n} returned state is the generator state")
        # zero seed
        for z in (0, 1 << n, -(1 << n), 5 * (1 << n)):
            with warnings.catch_warnings(record=True) as w:
                warnings.simplefilter("always")
                o = PRBS(n, len=40, seed=z)
            check(any(issubclass(x.category, UserWarning) for x in w), f"C04 PRBS{n} seed {z} warns")
            check(np.array_equal(o.data, ref_prbs(n, 40, 1)[0]), f"C04 PRBS{n} seed {z} replaced by 1")
        with warnings.catch_warnings(record=True) as w:
            warnings.simplefilter("always")
            PRBS(n, len=10, seed=5)
        check(not any(issubclass(x.category, UserWarning) and "seed" in str(x.message) for x in w),
              f"C04 PRBS{n} non-zero seed does not warn")
        check(raises(ValueError, PRBS, n, len=0), f"C04 PRBS{n} len=0 ValueError")
        check(raises(ValueError, PRBS, n, len=-4), f"C04 PRBS{n} len<0 ValueError")
        check(raises((TypeError, ValueError), PRBS, n, len="20"), f"C04 PRBS{n} len str rejected")
        check(raises((TypeError, ValueError), PRBS, n, len=2.5), f"C04 PRBS{n} len float rejected")
    for bad in (0, 1, 8, 10, 16, 32, -7):
        check(raises(ValueError, PRBS, bad, len=10), f"C04 order {bad} ValueError")
        check(raises(ValueError, PRBS, bad), f"C04 order {bad} ValueError (default len)")

    # period and balance
    for n in (7, 9, 11, 15):
        P = (1 << n) - 1
        for s in (None, 1, int(rng.integers(1, P))):
            seq = (quiet(PRBS, n, len=2 * P, seed=s) if s is not None else quiet(PRBS, n, len=2 * P)).data
            check(np.array_equal(seq[:P], seq[P:]), f"C04 PRBS{n} period divides 2^n-1")
            check(int(seq[:P].sum()) == 1 << (n - 1), f"C04 PRBS{n} ones per period")
            minimal = True
            for d in range(1, P):
                if P % d == 0 and np.array_equal(seq[:P], seq[d:d + P]):
                    minimal = False
            check(minimal, f"C04 PRBS{n} period exactly 2^n-1")
        full = quiet(PRBS, n)
        check(full.len() == P and int(full.data.sum()) == 1 << (n - 1), f"C04 PRBS{n} default len is one period")
    n = 20
    P = (1 << n) - 1
    seq = quiet(PRBS, n, len=P + n, seed=0xABCDE).data
    check(np.array_equal(seq[:n], seq[P:]), "C04 PRBS20 period")
    check(int(seq[:P].sum()) == 1 << (n - 1), "C04 PRBS20 ones per period")

    # exhaustive states, small orders: all non-zero states visited in one cycle
    for n in (7, 9, 11):
        P = (1 << n) - 1
        visited = set()
        state = 1
        for _ in range(P):
            visited.add(int(state))
            _, state = quiet(PRBS, n, len=1, seed=state, return_seed=True)
        check(len(visited) == P and 0 not in visited and int(state) == 1, f"C04 PRBS{n} visits all non-zero states")
        for s in range(1, P + 1):
            o = quiet(PRBS, n, len=n + 3, seed=s)
            if not np.array_equal(o.data, ref_prbs(n, n + 3, s)[0]):
                check(False, f"C04 PRBS{n} state {s} recurrence")
                break


# ---------------------------------------------------------------- C05
def check_c05():
    rng = np.random.default_rng(505)
    sps_list = [2, 3, 4, 5, 7, 8, 9, 15, 16, 17, 31, 32, 33, 64, 127, 128]
    for sps in sps_list:
        quiet(gv, sps=sps, R=1e9)
        for trial in range(4):
            nb = int(rng.integers(1, 24))
            bits = rng.integers(0, 2, nb)
            forms = [
                bits.astype(int).tolist(),
                bits.astype(np.uint8),
                bits.astype(bool),
                " ".join(str(int(b)) for b in bits),
                tuple(int(b) for b in bits),
                binary_sequence(bits),
            ]
            Vout = float(rng.uniform(-47.9, 47.9))
            if abs(Vout) < 1e-3:
                Vout = 1.0
            if trial == 0:
                Vout, bias = 1.0, 0.0
            elif trial == 1:
                Vout, bias = int(rng.integers(1, 48)), int(rng.integers(-47, 48))
            else:
                bias = float(rng.uniform(-47.9, 47.9))
            levels = bias + Vout * bits
            thr = bias + Vout / 2
            for form in forms:
                for shape in ("nrz", "rect", "NRZ"):
                    with warnings.catch_warnings():
                        warnings.simplefilter("ignore")
                        x = DAC(form, bias=bias, Vout=Vout, pulse_shape=shape)
                    ok = isinstance(x, electrical_signal) and x.signal.shape == (nb * sps,)
                    check(ok, f"C05 NRZ length sps={sps}")
                    if ok:
                        check(np.array_equal(x.signal.reshape(nb, sps), np.repeat(levels[:, None], sps, 1)),
                              f"C05 NRZ slot values sps={sps} Vout={Vout} bias={bias} shape={shape}")
                for shape in ("rz", "RZ"):
                    x = DAC(form, bias=bias, Vout=Vout, pulse_shape=shape)
                    ok = x.signal.shape == (nb * sps,)
                    check(ok, f"C05 RZ length sps={sps}")
                    if ok:
                        m = x.signal.reshape(nb, sps)
                        check(np.array_equal(m[:, : sps // 2], np.repeat(levels[:, None], sps // 2, 1))
                              and np.all(m[:, sps // 2:] == bias),
                              f"C05 RZ slot values sps={sps}")
            x = DAC(bits, bias=bias, Vout=Vout, pulse_shape="nrz")
            for k in range(sps):
                smp = SAMPLER(x, k)
                check(np.array_equal(smp.signal, x.signal[k::sps]), f"C05 SAMPLER picks k, k+sps.. sps={sps} k={k}")
                rec = (smp.signal > thr) if Vout > 0 else (smp.signal < thr)
                check(np.array_equal(rec.astype(int), bits), f"C05 NRZ roundtrip sps={sps} k={k}")
            x = DAC(bits, bias=bias, Vout=Vout, pulse_shape="rz")
            for k in range(sps // 2):
                smp = SAMPLER(x, k)
                rec = (smp.signal > thr) if Vout > 0 else (smp.signal < thr)
                check(np.array_equal(rec.astype(int), bits), f"C05 RZ roundtrip sps={sps} k={k}")
        # SAMPLER with noise
        n = 6 * sps + 3
        sig = electrical_signal(rng.normal(size=n), rng.normal(size=n))
        for k in range(sps):
            s = SAMPLER(sig, k)
            check(isinstance(s, electrical_signal) and np.array_equal(s.signal, sig.signal[k::sps])
                  and s.noise is not None and np.array_equal(s.noise, sig.noise[k::sps]),
                  f"C05 SAMPLER signal and noise sps={sps} k={k}")
        sig = electrical_signal(rng.normal(size=n))
        s = SAMPLER(sig, sps - 1)
        check(np.array_equal(s.signal, sig.signal[sps - 1::sps]) and s.noise is None, f"C05 SAMPLER no noise sps={sps}")
        for kk in (np.int64(0), np.intp(sps - 1)):
            s = SAMPLER(sig, kk)
            check(np.array_equal(s.signal, sig.signal[int(kk)::sps]), f"C05 SAMPLER numpy int instant sps={sps}")
        try:
            s = SAMPLER(sig.signal, 1)
        except Exception:
            s = None
        if s is not None:
            check(isinstance(s, electrical_signal) and np.array_equal(s.signal, sig.signal[1::sps]),
                  f"C05 SAMPLER ndarray input sps={sps}")

        # gaussian
        if sps >= 8:
            Ts = sorted({(sps + 1) // 2, sps, 2 * sps, int(rng.integers((sps + 1) // 2, 2 * sps + 1))})
            for T in Ts:
                for m in (1, 2, 3, 4):
                    Vout = float(rng.uniform(0.5, 40))
                    x = DAC("0 0 0 0 1 0 0 0 0", Vout=Vout, pulse_shape="gaussian", T=T, m=m)
                    y = x.signal.real
                    check(y.shape == (9 * sps,), f"C05 gaussian length sps={sps}")
                    centre = 4 * sps + sps / 2
                    top = np.flatnonzero(y >= y.max() * (1 - 1e-9))
                    check(np.min(np.abs(top - centre)) <= 1.0 + 1e-9 or np.min(np.abs(top + 0.5 - centre)) <= 1.0,
                          f"C05 gaussian peak position sps={sps} T={T} m={m}")
                    check(abs(y.max() - Vout) <= 0.05 * Vout, f"C05 gaussian peak value sps={sps} T={T} m={m}")
                    above = np.flatnonzero(y >= y.max() / 2)
                    lo, hi = above[0], above[-1]
                    left = lo - (y[lo] - y.max() / 2) / (y[lo] - y[lo - 1])
                    right = hi + (y[hi] - y.max() / 2) / (y[hi] - y[hi + 1])
                    check(abs((right - left) - T) <= 1.0, f"C05 gaussian FWHM sps={sps} T={T} m={m} got {right-left}")
            bits = rng.integers(0, 2, 30)
            for T in ((sps + 1) // 2, sps):
                Vout, bias = float(rng.uniform(0.5, 40)), float(rng.uniform(-40, 40))
                x = DAC(bits, Vout=Vout, bias=bias, pulse_shape="gaussian", T=T)
                rec = SAMPLER(x, sps // 2).signal.real > bias + Vout / 2
                check(np.array_equal(rec.astype(int), bits), f"C05 gaussian roundtrip sps={sps} T={T}")
            check(raises(TypeError, DAC, "010", pulse_shape="gaussian", T=sps + 0.5), "C05 T float TypeError")
            check(raises(TypeError, DAC, "010", pulse_shape="gaussian", T="8"), "C05 T str TypeError")
            check(raises(ValueError, DAC, "010", pulse_shape="gaussian", T=0), "C05 T=0 ValueError")
            check(raises(ValueError, DAC, "010", pulse_shape="gaussian", T=-3), "C05 T<0 ValueError")
            check(raises(ValueError, DAC, "010", pulse_shape="gaussian", T=2 * sps + 1), "C05 T>2sps ValueError")
            check(raises(TypeError, DAC, "010", pulse_shape="gaussian", m=1.5), "C05 m float TypeError")
            check(raises(ValueError, DAC, "010", pulse_shape="gaussian", m=0), "C05 m=0 ValueError")
            check(raises(ValueError, DAC, "010", pulse_shape="gaussian", m=-1), "C05 m<0 ValueError")
            check(raises(TypeError, DAC, "010", pulse_shape="gaussian", c=1 + 1j), "C05 c complex TypeError")
            check(raises(TypeError, DAC, "010", pulse_shape="gaussian", c="0"), "C05 c str TypeError")

        for shape in ("nrz", "rz", "rect", "gaussian"):
            check(raises(TypeError, DAC, "010", Vout="5", pulse_shape=shape), f"C05 Vout str TypeError {shape}")
            check(raises(TypeError, DAC, "010", Vout=1 + 1j, pulse_shape=shape), f"C05 Vout complex TypeError {shape}")
            check(raises(TypeError, DAC, "010", Vout=[1.0], pulse_shape=shape), f"C05 Vout list TypeError {shape}")
            check(raises(ValueError, DAC, "010", Vout=50, pulse_shape=shape), f"C05 Vout 50 ValueError {shape}")
            check(raises(ValueError, DAC, "010", Vout=-48.0, pulse_shape=shape), f"C05 Vout -48 ValueError {shape}")
            check(raises(TypeError, DAC, "010", bias="1", pulse_shape=shape), f"C05 bias str TypeError {shape}")
            check(raises(TypeError, DAC, "010", bias=1 + 1j, pulse_shape=shape), f"C05 bias complex TypeError {shape}")
            check(raises(ValueError, DAC, "010", bias=50, pulse_shape=shape), f"C05 bias 50 ValueError {shape}")
            check(raises(ValueError, DAC, "010", bias=-60.5, pulse_shape=shape), f"C05 bias -60.5 ValueError {shape}")
        for shape in ("triangle", "", "sinc", "nrz ", "gauss"):
            check(raises(ValueError, DAC, "010", pulse_shape=shape), f"C05 unknown pulse_shape {shape!r} ValueError")
    quiet(gv, sps=16, R=1e9)


# ---------------------------------------------------------------- C06
def rand_field(rng, n, npol, noise):
    shape = (n,) if npol == 1 else (2, n)
    sig = rng.normal(size=shape) + 1j * rng.normal(size=shape)
    nse = (0.1 * (rng.normal(size=shape) + 1j * rng.normal(size=shape))) if noise else None
    return optical_signal(sig, nse)


def close(a, b, tol=1e-11):
    a, b = np.asarray(a), np.asarray(b)
    return a.shape == b.shape and np.all(np.abs(a - b) <= tol * (1 + np.abs(b)))


def check_c06():
    rng = np.random.default_rng(606)
    quiet(gv, sps=16, R=1e9)
    for trial in range(60):
        n = int(rng.integers(2, 200))
        npol = 1 + trial % 2
        noise = (trial // 2) % 2 == 1
        x = rand_field(rng, n, npol, noise)
        Vpi = float(rng.uniform(0.5, 10))
        bias = float(rng.uniform(-10, 10))
        loss_dB = float(rng.choice([0.0, rng.uniform(0, 20)]))
        ER = float(rng.choice([0.0, 60.0, rng.uniform(0, 60)]))
        pol = "xy"[int(rng.integers(0, 2))]
        u = rng.uniform(-15, 15, n)
        kw = dict(bias=bias, Vpi=Vpi, loss_dB=loss_dB, ER_dB=ER, pol=pol)
        sig0, noi0 = x.signal.copy(), (None if x.noise is None else x.noise.copy())

        y = MZM(x, u, **kw)
        check(np.array_equal(x.signal, sig0) and (noi0 is None or np.array_equal(x.noise, noi0)),
              "C06 MZM leaves its input untouched")
        theta = np.pi * (u + bias) / (2 * Vpi)
        sl = 10 ** (-loss_dB / 20)
        h = sl * (np.cos(theta) + 1j * 10 ** (-ER / 20) * np.sin(theta))
        sel = 0 if pol == "x" else 1
        if npol == 1:
            exp_s = sig0 * h
            exp_n = None if noi0 is None else noi0 * h
        else:
            exp_s = np.zeros_like(sig0)
            exp_s[sel] = sig0[sel] * h
            exp_n = None
            if noi0 is not None:
                exp_n = np.zeros_like(noi0)
                exp_n[sel] = noi0[sel] * h
        check(isinstance(y, optical_signal) and close(y.signal, exp_s), f"C06 MZM transfer function trial {trial}")
        if noise:
            check(y.noise is not None and close(y.noise, exp_n), f"C06 MZM noise modulated like signal trial {trial}")
        else:
            check(y.noise is None, "C06 MZM no noise stays none")
        check(np.all(np.abs(y.signal) <= sl * np.abs(sig0) * (1 + 1e-12) + 1e-300), "C06 MZM never amplifies")
        if npol == 2:
            check(np.all(y.signal[1 - sel] == 0) and (not noise or np.all(y.noise[1 - sel] == 0)),
                  "C06 MZM unselected polarisation extinguished")
        # periodicity
        kk = int(rng.integers(-3, 4))
        y2 = MZM(x, u + 2 * Vpi * kk, **kw)
        check(close(np.abs(y2.signal) ** 2, np.abs(y.signal) ** 2, 1e-9), "C06 MZM power 2*Vpi periodic")
        # containers
        ya = MZM(x, electrical_signal(u), **kw)
        check(np.array_equal(ya.signal, y.signal) and (not noise or np.array_equal(ya.noise, y.noise)),
              "C06 MZM ndarray vs electrical_signal drive identical")
        c = float(rng.uniform(-10, 10))
        ys = MZM(x, c, **kw)
        yv = MZM(x, np.full(n, c), **kw)
        ye = MZM(x, electrical_signal(np.full(n, c)), **kw)
        check(np.array_equal(ys.signal, yv.signal) and np.array_equal(ys.signal, ye.signal),
              "C06 MZM scalar vs array drive identical")
        yi = MZM(x, 3, **kw)
        check(np.array_equal(yi.signal, MZM(x, 3.0, **kw).signal), "C06 MZM int scalar drive")
        for bad in (n + 1, n - 1, 2 * n):
            if bad > 1:
                check(raises(ValueError, MZM, x, np.zeros(bad), **kw), "C06 MZM mismatched ndarray ValueError")
                check(raises(ValueError, MZM, x, electrical_signal(np.zeros(bad)), **kw),
                      "C06 MZM mismatched electrical_signal ValueError")
        # on/off ratio
        one = optical_signal(np.full(4, 1.3 - 0.2j)) if npol == 1 else optical_signal(np.full((2, 4), 1.3 - 0.2j))
        on = MZM(one, -bias, **kw)
        off = MZM(one, Vpi - bias, **kw)
        p_on = np.abs(on.signal[..., 0] if npol == 1 else on.signal[sel, 0]) ** 2
        p_off = np.abs(off.signal[..., 0] if npol == 1 else off.signal[sel, 0]) ** 2
        check(abs(10 * np.log10(p_on / p_off) - ER) <= 1e-6, f"C06 MZM on/off ratio ER={ER}")

        # PM
        Vp = float(rng.uniform(0.5, 10))
        z = PM(x, u, Vp)
        rot = np.exp(1j * np.pi * u / Vp)
        check(isinstance(z, optical_signal) and close(z.signal, sig0 * rot), "C06 PM phase shift pi*u/Vpi")
        if noise:
            check(z.noise is not None and close(z.noise, noi0 * rot), "C06 PM noise rotated like signal")
            tot_in, tot_out = sig0 + noi0, z.signal + z.noise
        else:
            check(z.noise is None, "C06 PM noise stays none")
            tot_in, tot_out = sig0, z.signal
        check(close(np.abs(tot_out) ** 2, np.abs(tot_in) ** 2, 1e-11), "C06 PM preserves instantaneous power")
        check(np.array_equal(x.signal, sig0), "C06 PM leaves its input untouched")
        ze = PM(x, electrical_signal(u), Vp)
        check(np.array_equal(ze.signal, z.signal) and (not noise or np.array_equal(ze.noise, z.noise)),
              "C06 PM ndarray vs electrical_signal identical")
        zs, zv, zes = PM(x, c, Vp), PM(x, np.full(n, c), Vp), PM(x, electrical_signal(np.full(n, c)), Vp)
        check(np.array_equal(zs.signal, zv.signal) and np.array_equal(zs.signal, zes.signal),
              "C06 PM scalar vs array identical")
        check(np.array_equal(PM(x, 2, Vp).signal, PM(x, 2.0, Vp).signal), "C06 PM int scalar")
        a, b = rng.uniform(-8, 8, n), rng.uniform(-8, 8, n)
        zz = PM(PM(x, a, Vp), b, Vp)
        zab = PM(x, a + b, Vp)
        check(close(zz.signal, zab.signal) and (not noise or close(zz.noise, zab.noise)), "C06 PM composes additively")
        zz = PM(PM(x, 1.5, Vp), electrical_signal(b), Vp)
        check(close(zz.signal, PM(x, 1.5 + b, Vp).signal), "C06 PM composes additively (mixed containers)")
        for bad in (n + 1, n - 1, 2 * n):
            if bad >= 1:
                check(raises(ValueError, PM, x, np.zeros(bad), Vp), "C06 PM mismatched ndarray ValueError")
                check(raises(ValueError, PM, x, electrical_signal(np.zeros(bad)), Vp),
                      "C06 PM mismatched electrical_signal ValueError")

    # LASER
    for trial in range(40):
        sps = int(rng.choice([4, 8, 16, 32]))
        R = float(rng.choice([1e9, 10e9, 2.5e9]))
        quiet(gv, sps=sps, R=R)
        N = int(rng.choice([256, 1000, 4096]))
        t = np.arange(N) * gv.dt
        p = float(rng.uniform(-30, 30))
        lw = [None, 0.0, 1e3, 1e5, 10e6][trial % 5]
        df_bin = int(rng.integers(-N // 2 + 2, N // 2 - 1))
        df = [None, 0.0, df_bin * gv.fs / N][trial % 3]
        np.random.seed(trial)
        E = LASER(t, p, lw=lw, df=df)
        P = 10 ** (p / 10 - 3)
        check(isinstance(E, optical_signal) and E.signal.shape == (N,), "C06 LASER shape")
        tot = E.signal if E.noise is None else E.signal + E.noise
        check(close(np.abs(tot) ** 2, np.full(N, P), 1e-11), f"C06 LASER |E|^2 = P (p={p}, lw={lw}, df={df})")
        if lw in (None, 0.0, 1e3):
            spec = np.abs(np.fft.fft(tot))
            f = np.fft.fftfreq(N, gv.dt)
            target = 0.0 if df is None else df
            check(abs(f[int(np.argmax(spec))] - target) <= 1.01 * gv.fs / N, f"C06 LASER spectral peak at df={df}")
        if "return_phase" in inspect.signature(LASER).parameters:
            np.random.seed(trial)
            E2, ph = LASER(t, p, lw=lw, df=df, return_phase=True)
            check(np.array_equal(E2.signal, E.signal), "C06 LASER return_phase leaves the field unchanged")
            w = 0.0 if df is None else 2 * np.pi * df
            check(np.shape(ph) == (N,) and close(np.sqrt(P) * np.exp(1j * (ph + w * t)), E.signal, 1e-9),
                  "C06 LASER returned phase reproduces the field")
        np.random.seed(trial)
        Er = LASER(t, p, lw=lw, rin=-150, df=df)
        check(Er.signal.shape == (N,) and np.all(np.isfinite(Er.signal)), "C06 LASER with RIN runs")
    quiet(gv, sps=16, R=1e9)


if __name__ == "__main__":
    print("opticomlib from", os.path.dirname(opticomlib.__file__))
    check_c04()
    check_c05()
    check_c06()
    if FAILURES:
        print(f"{len(FAILURES)} clause check(s) failed; first: {FAILURES[0]}")
        sys.exit(1)
    print("PASS")
    sys.exit(0)
