"""Contract check for BPF, EDFA, DM, FIBER, LPF, PD (clauses C07-C11).

Exit status 0 and "PASS" when every sampled clause holds, 1 and the failing clauses otherwise.
"""
import sys
import os

_here = os.path.dirname(os.path.abspath(__file__))
if sys.path and os.path.abspath(sys.path[0] or os.getcwd()) == _here:
    sys.path.pop(0)

import inspect
import io
import signal as _signal
import warnings
import contextlib

import numpy as np
import scipy.signal as sg
from numpy.fft import fft, ifft, fftfreq, fftshift, ifftshift
from scipy.constants import k as kB, e as qe, h as hP

warnings.simplefilter("ignore")

from opticomlib import gv, optical_signal, electrical_signal
from opticomlib.devices import BPF, EDFA, DM, FIBER, LPF, PD

FAILS = []
NCHECK = [0]


def check(cond, clause):
    NCHECK[0] += 1
    if not bool(cond):
        if clause not in FAILS:
            FAILS.append(clause)
            print("FAIL:", clause, flush=True)


def close(a, b, rtol=1e-9, atol=0.0):
    a = np.asarray(a)
    b = np.asarray(b)
    if a.shape != b.shape:
        return False
    scale = max(np.max(np.abs(b)) if b.size else 0.0, 1e-300)
    return bool(np.all(np.isfinite(a)) and np.max(np.abs(a - b)) <= rtol * scale + atol)


class Hang(Exception):
    pass


def _alarm(signum, frame):
    raise Hang()


_signal.signal(_signal.SIGALRM, _alarm)


def fiber(*args, **kw):
    _signal.alarm(60)
    try:
        with contextlib.redirect_stderr(io.StringIO()):
            return FIBER(*args, **kw)
    finally:
        _signal.alarm(0)


def energy(x):
    return np.sum(np.abs(np.atleast_2d(x)) ** 2, axis=-1)


def field(rng, n, npol, scale=1.0, smooth=True):
    shape = (n,) if npol == 1 else (2, n)
    x = rng.normal(size=shape) + 1j * rng.normal(size=shape)
    if smooth:
        k = np.exp(-0.5 * (np.arange(-8, 9) / 3.0) ** 2)
        k /= k.sum()
        x = np.apply_along_axis(lambda v: np.convolve(v, k, mode="same"), -1, x)
    x = x / np.sqrt(np.max(np.abs(x) ** 2)) * np.sqrt(scale)
    return x


def pulses(n, npol, peak, lead_zero=True):
    t = np.arange(n)
    x = np.zeros(n, dtype=complex)
    for c in (n * 0.3, n * 0.55, n * 0.8):
        x += np.exp(-0.5 * ((t - c) / (n / 40.0)) ** 2)
    if lead_zero:
        x[: n // 16] = 0
    x = x / np.max(np.abs(x)) * np.sqrt(peak)
    if npol == 2:
        return np.array([x, 0.6 * x[::-1] * np.exp(0.3j)])
    return x


SAMPLING = [(16, 1e9), (8, 10e9), (7, 1.3e9), (32, 2.5e9)]


# --------------------------------------------------------------------------- C07
def check_C07():
    rng = np.random.default_rng(7)
    for sps, R in SAMPLING:
        gv(sps=sps, R=R)
        fs = gv.fs
        for n in (63, 64, 255, 256, 1001):
            for npol in (1, 2):
                x = field(rng, n, npol)
                inp = optical_signal(x, n_pol=npol)
                w = 2 * np.pi * fftfreq(n) * fs
                # dispersion values scaled so that the phase across the band is a few rad
                Dscale = 8.0 / (np.pi * fs) ** 2 * 1e24
                for D in (Dscale, -0.37 * Dscale, 2.5 * Dscale):
                    out = DM(inp, D)
                    check(isinstance(out, optical_signal), "C07 DM returns optical_signal")
                    check(out.signal.shape == x.shape and out.n_pol == npol, "C07 DM preserves length and polarisation layout")
                    check(close(energy(out.signal), energy(x), 1e-10), "C07 DM conserves energy")
                    ref = ifft(fft(x, axis=-1) * np.exp(-1j * (D * 1e-24) * w ** 2 / 2), axis=-1)
                    check(close(out.signal, ref, 1e-9), "C07 DM is the filter exp(-j D w^2/2)")
                    back = DM(out, -D)
                    check(close(back.signal, x, 1e-9), "C07 DM(-D) undoes DM(D)")
                    D2 = -0.61 * Dscale
                    a = DM(DM(inp, D2), D)
                    b = DM(inp, D + D2)
                    check(close(a.signal, b.signal, 1e-9), "C07 DM(D1) after DM(D2) equals DM(D1+D2)")
                    res = DM(inp, D, retH=True)
                    check(isinstance(res, tuple) and len(res) == 2, "C07 DM retH returns (output, H)")
                    o2, H = res
                    check(close(o2.signal, out.signal, 1e-12), "C07 DM retH output equals plain output")
                    check(np.shape(H) == (n,), "C07 DM retH grid")
                    appl = ifft(fft(x, axis=-1) * ifftshift(np.asarray(H)), axis=-1)
                    check(close(appl, out.signal, 1e-9), "C07 DM retH matches the filter applied")
                    check(close(inp.signal, x, 0, 0), "C07 DM leaves its input untouched")

                # FIBER, gamma = 0
                L = 12.5
                b2s = 8.0 / (np.pi * fs * 1e-12) ** 2 / L
                b3s = 20.0 / (np.pi * fs * 1e-12) ** 3 / L
                wps = w * 1e-12
                for alpha, b2, b3 in ((0.0, b2s, 0.0), (0.2, -0.7 * b2s, 0.0), (0.5, 0.4 * b2s, -b3s), (0.0, 0.0, 0.6 * b3s), (0.3, 0.0, 0.0)):
                    out = fiber(inp, L, alpha=alpha, beta_2=b2, beta_3=b3, gamma=0)
                    check(out.signal.shape == x.shape and out.n_pol == npol, "C07 FIBER preserves length and polarisation layout")
                    a_lin = alpha * np.log(10) / 10
                    Hf = np.exp(-a_lin * L / 2 - 1j * b2 * L * wps ** 2 / 2 - 1j * b3 * L * wps ** 3 / 6)
                    ref = ifft(fft(x, axis=-1) * Hf, axis=-1)
                    check(close(out.signal, ref, 2e-4), "C07 FIBER gamma=0 is the linear filter")
                    check(close(energy(out.signal), energy(x) * 10 ** (-alpha * L / 10), 1e-3), "C07 FIBER output power = input * 10^(-alpha L/10) per polarisation")
                    if alpha == 0 and b3 == 0:
                        d = DM(inp, b2 * L)
                        check(close(out.signal, d.signal, 1e-9), "C07 FIBER(L, beta2) equals DM(beta2*L)")
                    L2 = 7.25
                    two = fiber(out, L2, alpha=alpha, beta_2=b2, beta_3=b3, gamma=0)
                    one = fiber(inp, L + L2, alpha=alpha, beta_2=b2, beta_3=b3, gamma=0)
                    check(close(two.signal, one.signal, 1e-9), "C07 two spans equal one span of the summed length")


# --------------------------------------------------------------------------- C08
def check_C08():
    rng = np.random.default_rng(8)
    for sps, R in ((16, 10e9), (8, 25e9)):
        gv(sps=sps, R=R)
        for n in (255, 512):
            for npol in (1, 2):
                for kind in ("pulses", "random"):
                    peak = 0.2
                    x = pulses(n, npol, peak) if kind == "pulses" else field(rng, n, npol, peak)
                    ppk = np.max(np.sum(np.abs(np.atleast_2d(x)) ** 2, axis=0))
                    inp = optical_signal(x, n_pol=npol)
                    for L, alpha, b2, b3, gamma, phi in (
                        (20.0, 0.2, -21.0, 0.1, 1.5, 0.05),
                        (10.0, 0.0, 15.0, 0.0, 2.0, 0.1),
                        (40.0, 0.5, 5.0, -0.2, 1.0, 0.02),
                    ):
                        gamma = min(gamma, 4.0 / (ppk * L))
                        out = fiber(inp, L, alpha=alpha, beta_2=b2, beta_3=b3, gamma=gamma, phi_max=phi)
                        check(isinstance(out, optical_signal) and out.signal.shape == x.shape, "C08 FIBER returns the input's shape")
                        check(np.all(np.isfinite(out.signal)), "C08 FIBER output is finite")
                        check(close(energy(out.signal), energy(x) * 10 ** (-alpha * L / 10), 1e-3), "C08 energy per polarisation = input * 10^(-alpha L/10)")
                        if phi == 0.05:
                            with_bar = fiber(inp, L, alpha=alpha, beta_2=b2, beta_3=b3, gamma=gamma, phi_max=phi, show_progress=True)
                            check(close(with_bar.signal, out.signal, 1e-12), "C08 progress reporting does not alter the result")

                    # self phase modulation, closed form
                    for L, alpha, gamma, phi in ((10.0, 0.0, 2.0, 0.05), (25.0, 0.3, 1.2, 0.01), (5.0, 0.5, 3.0, 0.005)):
                        gamma = min(gamma, 5.0 / (ppk * L))
                        out = fiber(inp, L, alpha=alpha, gamma=gamma, phi_max=phi)
                        a_lin = alpha / 4.343
                        Leff = L if alpha == 0 else (1 - np.exp(-a_lin * L)) / a_lin
                        ref = x * np.exp(-a_lin * L / 2) * np.exp(1j * gamma * np.abs(x) ** 2 * Leff)
                        tol = 1e-9 if alpha == 0 else 2.0 * phi
                        check(close(out.signal, ref, tol), "C08 SPM closed form without dispersion")

    # one polarisation == x polarisation of a two-polarisation signal with empty y
    gv(sps=16, R=10e9)
    n = 256
    x = pulses(n, 1, 0.3)
    one = fiber(optical_signal(x, n_pol=1), 15.0, alpha=0.2, beta_2=-20.0, beta_3=0.1, gamma=1.5, phi_max=0.05)
    two = fiber(optical_signal(np.array([x, np.zeros_like(x)]), n_pol=2), 15.0, alpha=0.2, beta_2=-20.0, beta_3=0.1, gamma=1.5, phi_max=0.05)
    check(close(one.signal, two.signal[0], 1e-9), "C08 one polarisation equals x of (x, empty y)")
    check(np.max(np.abs(two.signal[1])) == 0, "C08 empty y polarisation stays empty")

    # convergence with phi_max (error bounded by const * phi_max)
    ref = fiber(optical_signal(x, n_pol=1), 15.0, alpha=0.2, beta_2=-20.0, gamma=1.5, phi_max=5e-4)
    errs = []
    for phi in (0.1, 0.05, 0.01):
        o = fiber(optical_signal(x, n_pol=1), 15.0, alpha=0.2, beta_2=-20.0, gamma=1.5, phi_max=phi)
        errs.append(np.linalg.norm(o.signal - ref.signal) / np.linalg.norm(ref.signal))
    check(all(er <= 1.0 * phi for er, phi in zip(errs, (0.1, 0.05, 0.01))), "C08 convergence: relative error <= C*phi_max")
    check(errs[2] <= errs[0], "C08 convergence: error decreases with phi_max")


# --------------------------------------------------------------------------- C11
def bessel_sos(order, wn, fs):
    return sg.bessel(N=order, Wn=wn, btype="low", fs=fs, output="sos", norm="mag")


def check_C11():
    rng = np.random.default_rng(11)
    for sps, R in SAMPLING:
        gv(sps=sps, R=R)
        fs = gv.fs
        n = 4096
        t = np.arange(n) / fs
        mid = slice(n // 4, 3 * n // 4)
        for order in range(1, 9):
            for frac in (0.013, 0.05, 0.2, 0.44):
                BW = frac * fs
                # ---------------- LPF
                x = rng.normal(size=n)
                y = rng.normal(size=n)
                a, b = 1.7, -0.4
                fx = LPF(x, BW, n=order)
                fy = LPF(y, BW, n=order)
                fxy = LPF(a * x + b * y, BW, n=order)
                check(isinstance(fx, electrical_signal), "C11 LPF returns electrical_signal")
                check(fx.signal.shape == (n,), "C11 LPF preserves length")
                check(close(fxy.signal, a * fx.signal + b * fy.signal, 1e-9), "C11 LPF is linear")
                ref = sg.sosfiltfilt(bessel_sos(order, BW, fs), x)
                check(close(fx.signal, ref, 1e-9), "C11 LPF is the zero-phase Bessel filter")
                es = LPF(electrical_signal(x, y), BW, n=order)
                check(close(es.signal, fx.signal, 1e-12) and close(es.noise, fy.signal, 1e-12), "C11 LPF acts identically and independently on signal and noise")
                check(es.signal.shape == (n,) and es.noise.shape == (n,), "C11 LPF preserves length (container)")
                cst = LPF(np.full(n, 0.73), BW, n=order)
                check(close(cst.signal, np.full(n, 0.73), 1e-8), "C11 LPF passes a constant unchanged")
                # explicit fs argument
                fx2 = LPF(x, BW / 2, n=order, fs=fs / 2)
                check(close(fx2.signal, fx.signal, 1e-9), "C11 LPF honours the fs argument")
                # tones: -6 dB at the cutoff, monotone, never amplified
                if frac >= 0.05:
                    att = []
                    for ftone in (0.5 * BW, BW, min(1.4 * BW, 0.49 * fs)):
                        tone = np.cos(2 * np.pi * ftone * t)
                        o = LPF(tone, BW, n=order).signal
                        p_in = np.mean(tone[mid] ** 2)
                        p_out = np.mean(o[mid] ** 2)
                        att.append(10 * np.log10(p_in / p_out))
                        check(np.mean(o ** 2) <= np.mean(tone ** 2) * (1 + 1e-9), "C11 LPF never increases tone power")
                    check(abs(att[1] - 6.0) < 0.1, "C11 LPF tone at BW is attenuated by 6.0 dB")
                    check(att[0] < att[1] < att[2], "C11 LPF attenuation grows with frequency")
                # symmetric pulse -> symmetric response about the same instant
                c = n // 2
                p = np.exp(-0.5 * ((np.arange(n) - c) / 6.0) ** 2)
                o = LPF(p, BW, n=order).signal
                k = 200
                check(close(o[c - k: c + k + 1], o[c - k: c + k + 1][::-1], 1e-9, 1e-12), "C11 LPF introduces no delay")
                # retH: single pass prototype on the same grid
                o, H = LPF(x, BW, n=order, retH=True)
                check(close(o.signal, fx.signal, 1e-12), "C11 LPF retH output equals plain output")
                f = fftshift(fftfreq(n)) * fs
                _, Href = sg.sosfreqz(bessel_sos(order, BW, fs), worN=2 * np.pi * f / fs)
                check(np.shape(H) == (n,) and close(H, Href, 1e-8), "C11 LPF retH is the single-pass prototype on the signal grid")

                # ---------------- BPF
                for npol in (1, 2):
                    shape = (n,) if npol == 1 else (2, n)
                    u = rng.normal(size=shape) + 1j * rng.normal(size=shape)
                    v = rng.normal(size=shape) + 1j * rng.normal(size=shape)
                    ca, cb = 0.8 - 0.3j, 1.1j
                    fu = BPF(optical_signal(u, n_pol=npol), BW, n=order)
                    fv = BPF(optical_signal(v, n_pol=npol), BW, n=order)
                    fuv = BPF(optical_signal(ca * u + cb * v, n_pol=npol), BW, n=order)
                    check(isinstance(fu, optical_signal) and fu.n_pol == npol, "C11 BPF returns optical_signal with the same layout")
                    check(fu.signal.shape == shape, "C11 BPF preserves length")
                    check(close(fuv.signal, ca * fu.signal + cb * fv.signal, 1e-9), "C11 BPF is linear")
                    ref = sg.sosfiltfilt(bessel_sos(order, BW / 2, fs), u, axis=-1)
                    check(close(fu.signal, ref, 1e-9), "C11 BPF is the zero-phase Bessel filter of cutoff BW/2")
                    both = BPF(optical_signal(u, v, n_pol=npol), BW, n=order)
                    check(close(both.signal, fu.signal, 1e-12) and close(both.noise, fv.signal, 1e-12), "C11 BPF acts identically and independently on signal and noise")
                    if npol == 2:
                        sx = BPF(optical_signal(u[0], n_pol=1), BW, n=order)
                        sy = BPF(optical_signal(u[1], n_pol=1), BW, n=order)
                        check(close(fu.signal[0], sx.signal, 1e-12) and close(fu.signal[1], sy.signal, 1e-12), "C11 BPF acts independently on each polarisation")
                    k0 = 0.4 - 0.2j
                    cst = BPF(optical_signal(np.full(shape, k0), n_pol=npol), BW, n=order)
                    check(close(cst.signal, np.full(shape, k0), 1e-8), "C11 BPF passes a constant unchanged")
                    if order == 4:
                        dflt = BPF(optical_signal(u, n_pol=npol), BW)
                        check(close(dflt.signal, fu.signal, 1e-12), "C11 BPF default order is 4")
                        pos = BPF(optical_signal(u, n_pol=npol), BW, order)
                        check(close(pos.signal, fu.signal, 1e-12), "C11 BPF order passed positionally")
                if frac >= 0.05:
                    att = []
                    for ftone in (0.25 * BW, -0.5 * BW, 0.5 * BW, min(0.7 * BW, 0.49 * fs)):
                        tone = np.exp(2j * np.pi * ftone * t)
                        o = BPF(optical_signal(tone, n_pol=1), BW, n=order).signal
                        att.append(10 * np.log10(np.mean(np.abs(tone[mid]) ** 2) / np.mean(np.abs(o[mid]) ** 2)))
                        check(np.mean(np.abs(o) ** 2) <= 1 + 1e-9, "C11 BPF never increases tone power")
                    check(abs(att[1] - 6.0) < 0.1 and abs(att[2] - 6.0) < 0.1, "C11 BPF tone at BW/2 either side is attenuated by 6.0 dB")
                    check(att[0] < att[2] < att[3], "C11 BPF attenuation grows with frequency")
                c = n // 2
                p = np.exp(-0.5 * ((np.arange(n) - c) / 6.0) ** 2) * (1 + 0.5j)
                o = BPF(optical_signal(p, n_pol=1), BW, n=order).signal
                k = 200
                check(close(o[c - k: c + k + 1], o[c - k: c + k + 1][::-1], 1e-9, 1e-12), "C11 BPF introduces no delay")

    # optional spellings, checked only when present
    gv(sps=16, R=1e9)
    u = rng.normal(size=512) + 1j * rng.normal(size=512)
    if "order" in inspect.signature(BPF).parameters:
        with warnings.catch_warnings():
            warnings.simplefilter("ignore")
            a = BPF(optical_signal(u), 3e9, order=3)
            b = BPF(optical_signal(u), 3e9, n=3)
        ref = sg.sosfiltfilt(bessel_sos(3, 1.5e9, gv.fs), u)
        check(close(a.signal, ref, 1e-9) and close(b.signal, ref, 1e-9), "C11 BPF order under either spelling")
    x = rng.normal(size=512)
    try:
        lst = LPF(list(x), 2e9)
    except TypeError:
        lst = None
    if lst is not None:
        check(close(lst.signal, LPF(x, 2e9).signal, 1e-12), "C11 LPF array-like input equals ndarray input")


# --------------------------------------------------------------------------- C09
def neb_stats(sos, n):
    """mean |H|^4 over the whole grid (two-pass filter), and relative sigma of a variance estimate."""
    _, H = sg.sosfreqz(sos, worN=8192, whole=True)
    g = np.abs(H) ** 4
    frac = np.mean(g)
    rel_sigma = np.sqrt(2 * np.mean(g ** 2) / (n * frac ** 2))
    return frac, rel_sigma


def check_C09():
    rng = np.random.default_rng(9)
    sel_all = ["ase-only", "thermal-only", "shot-only", "ase-thermal", "ase-shot", "thermal-shot", "all"]

    # deterministic signal part
    for sps, R in SAMPLING:
        gv(sps=sps, R=R)
        fs = gv.fs
        n = 777
        for npol in (1, 2):
            for with_noise in (False, True):
                x = field(rng, n, npol, 1e-3)
                nz = field(rng, n, npol, 1e-6, smooth=False) if with_noise else None
                inp = optical_signal(x, nz, n_pol=npol)
                BW = 0.23 * fs
                sos = bessel_sos(4, BW, fs)
                for r, Rl in ((1.0, 50.0), (0.6, 75.0), (1, 1000)):
                    for sel in sel_all:
                        out = PD(inp, BW, r=r, R_load=Rl, include_noise=sel)
                        check(isinstance(out, electrical_signal), "C09 PD returns electrical_signal")
                        check(out.signal.shape == (n,) and out.noise.shape == (n,), "C09 PD output length equals input length")
                        ref = sg.sosfiltfilt(sos, Rl * r * np.sum(np.abs(np.atleast_2d(x)) ** 2, axis=0))
                        check(close(out.signal, ref, 1e-9), "C09 PD signal part = LPF(R_load*r*(|Ex|^2+|Ey|^2))")
                        check(np.all(np.isfinite(out.noise)), "C09 PD noise finite")
                    base = PD(inp, BW, r=r, R_load=Rl).signal
                    rot = PD(optical_signal(x * np.exp(1.234j), nz, n_pol=npol), BW, r=r, R_load=Rl).signal
                    check(close(rot, base, 1e-9), "C09 PD unchanged by a phase rotation")
                    if npol == 2:
                        th, ph = 0.7, 0.4
                        U = np.array([[np.cos(th), -np.sin(th) * np.exp(-1j * ph)], [np.sin(th) * np.exp(1j * ph), np.cos(th)]])
                        rotp = PD(optical_signal(U @ x, None if nz is None else U @ nz, n_pol=2), BW, r=r, R_load=Rl).signal
                        check(close(rotp, base, 1e-9), "C09 PD unchanged by a unitary polarisation rotation")
                    amp = PD(optical_signal(3 * x, nz, n_pol=npol), BW, r=r, R_load=Rl).signal
                    check(close(amp, 9 * base, 1e-9), "C09 PD quadratic in field amplitude")
                    check(close(PD(inp, BW, r=r / 2, R_load=Rl).signal, base / 2, 1e-9), "C09 PD linear in r")
                    check(close(PD(inp, BW, r=r, R_load=2 * Rl).signal, 2 * base, 1e-9), "C09 PD linear in R_load")
                # CW
                P = 2.5e-3
                cw = np.full((n,) if npol == 1 else (2, n), np.sqrt(P / npol) * np.exp(0.3j))
                o = PD(optical_signal(cw, n_pol=npol), BW, r=0.8, R_load=50.0)
                check(close(o.signal, np.full(n, 0.8 * P * 50.0), 1e-8), "C09 PD CW field of power P gives r*P*R_load")
                # the ASE beating terms and the dark current are deterministic given the input
                for sel in ("ase-only", "ASE-Only"):
                    r, Rl, idk = 0.9, 50.0, 3e-8
                    o = PD(inp, BW, r=r, R_load=Rl, include_noise=sel, i_dark=idk)
                    if nz is None:
                        beat = np.zeros(n)
                    else:
                        beat = r * np.sum(2 * np.real(np.atleast_2d(x) * np.conj(np.atleast_2d(nz))) + np.abs(np.atleast_2d(nz)) ** 2, axis=0)
                    ref = sg.sosfiltfilt(sos, (beat + idk) * Rl)
                    check(close(o.noise, ref, 1e-9, 1e-18), "C09 PD ase-only noise = filtered beating terms + dark offset")

    # documented errors
    gv(sps=16, R=1e9)
    inp = optical_signal(np.ones(100), n_pol=1)

    def raises(exc, **kw):
        try:
            PD(inp, 5e9, **kw)
        except exc:
            return True
        except Exception:
            return False
        return False

    check(raises(ValueError, r=0), "C09 PD r=0 raises ValueError")
    check(raises(ValueError, r=-0.2), "C09 PD r<0 raises ValueError")
    check(raises(ValueError, r=1.2), "C09 PD r>1 raises ValueError")
    check(raises(TypeError, r="1"), "C09 PD non-scalar r raises TypeError")
    check(raises(TypeError, r=[0.5]), "C09 PD list r raises TypeError")
    check(raises(ValueError, T=-1), "C09 PD T<0 raises ValueError")
    check(raises(TypeError, T="300"), "C09 PD non-scalar T raises TypeError")
    check(raises(TypeError, T=None), "C09 PD T=None raises TypeError")
    check(raises(ValueError, R_load=-50), "C09 PD R_load<0 raises ValueError")
    check(raises(TypeError, R_load=(50,)), "C09 PD non-scalar R_load raises TypeError")
    check(raises(TypeError, include_noise=True), "C09 PD non-string include_noise raises TypeError")
    check(raises(TypeError, include_noise=None), "C09 PD include_noise=None raises TypeError")
    check(raises(ValueError, include_noise="everything"), "C09 PD unknown include_noise raises ValueError")
    check(raises(ValueError, include_noise="thermal"), "C09 PD partial include_noise raises ValueError")
    ok = PD(inp, 5e9, r=1, T=0, R_load=50, include_noise="thermal-only", i_dark=0)
    check(np.max(np.abs(ok.noise)) == 0, "C09 PD T=0 gives no thermal noise")

    # statistical clauses
    n = 2 ** 18
    for (sps, R), npol, with_noise in (((16, 1e9), 1, False), ((8, 10e9), 2, True)):
        gv(sps=sps, R=R)
        fs = gv.fs
        B = fs / 2
        x = field(rng, n, npol, 2e-3)
        nz = field(rng, n, npol, 2e-5, smooth=False) if with_noise else None
        inp = optical_signal(x, nz, n_pol=npol)
        BW = 0.3 * fs
        sos = bessel_sos(4, BW, fs)
        frac, rsig = neb_stats(sos, n)
        r, T, Rl, idk, Fn = 0.85, 290.0, 50.0, 2e-8, 3.0
        Psig = np.sum(np.mean(np.abs(np.atleast_2d(x)) ** 2, axis=-1))
        Pnz = 0.0 if nz is None else np.sum(np.mean(np.abs(np.atleast_2d(nz)) ** 2, axis=-1))
        var_T = 4 * kB * T * 10 ** (Fn / 10) * B / Rl
        var_S = 2 * qe * (r * (Psig + Pnz) + idk) * B
        if nz is None:
            beat = np.zeros(n)
        else:
            beat = r * np.sum(2 * np.real(np.atleast_2d(x) * np.conj(np.atleast_2d(nz))) + np.abs(np.atleast_2d(nz)) ** 2, axis=0)
        det_ase = sg.sosfiltfilt(sos, beat * Rl)
        for sel, case in zip(sel_all, ("ASE-only", "Thermal-Only", "SHOT-ONLY", "ase-thermal", "Ase-Shot", "thermal-SHOT", "ALL")):
            for name in (sel, case):
                o = PD(inp, BW, r=r, T=T, R_load=Rl, include_noise=name, i_dark=idk, Fn=Fn)
                resid = o.noise / Rl - idk
                if "ase" in sel or sel == "all":
                    resid = resid - det_ase / Rl
                expect = 0.0
                if "thermal" in sel or sel == "all":
                    expect += var_T
                if "shot" in sel or sel == "all":
                    expect += var_S
                if expect == 0.0:
                    check(np.max(np.abs(resid)) <= 1e-9 * (np.max(np.abs(o.noise / Rl)) + idk), "C09 PD '%s' holds exactly the selected terms" % sel)
                    continue
                var_f = expect * frac
                check(abs(np.var(resid) - var_f) <= 6 * rsig * var_f, "C09 PD '%s' noise variance = documented variance * NEB" % sel)
                check(abs(np.mean(resid)) <= 6 * np.sqrt(expect / n), "C09 PD '%s' Gaussian terms are zero-mean around the dark offset" % sel)
                z = resid / np.sqrt(var_f)
                kurt = np.mean(z ** 4) / np.mean(z ** 2) ** 2
                check(abs(kurt - 3) < 0.2, "C09 PD '%s' thermal/shot terms are Gaussian" % sel)
        # fresh draws each call
        a = PD(inp, BW, include_noise="thermal-shot").noise
        b = PD(inp, BW, include_noise="thermal-shot").noise
        check(not np.allclose(a, b), "C09 PD noise is freshly drawn")


# --------------------------------------------------------------------------- C10
def check_C10():
    rng = np.random.default_rng(10)
    for (sps, R), wl in zip(SAMPLING, (1550e-9, 1310e-9, 1550e-9, 1600e-9)):
        gv(sps=sps, R=R, wavelength=wl)
        fs, f0 = gv.fs, gv.f0
        n = 2 ** 16
        for npol in (1, 2):
            for with_noise in (False, True):
                x = field(rng, n, npol, 1e-3)
                nz = field(rng, n, npol, 1e-7, smooth=False) if with_noise else None
                inp = optical_signal(x, nz, n_pol=npol)
                x_keep = x.copy()
                for G, NF in ((0.0, 5.0), (12.0, 3.0), (25.0, 6.5), (40.0, 10.0)):
                    g = 10 ** (G / 10)
                    out = EDFA(inp, G, NF)
                    check(isinstance(out, optical_signal) and out.n_pol == 2, "C10 EDFA returns a two-polarisation optical_signal")
                    check(out.signal.shape == (2, n) and out.noise is not None and out.noise.shape == (2, n), "C10 EDFA output shape")
                    sig_ref = np.zeros((2, n), dtype=complex)
                    nz_ref = np.zeros((2, n), dtype=complex)
                    if npol == 1:
                        sig_ref[0] = np.sqrt(g) * x
                        if nz is not None:
                            nz_ref[0] = np.sqrt(g) * nz
                    else:
                        sig_ref[:] = np.sqrt(g) * x
                        if nz is not None:
                            nz_ref[:] = np.sqrt(g) * nz
                    check(close(out.signal, sig_ref, 1e-12), "C10 EDFA signal part = input * sqrt(G) in the polarisations present")
                    if npol == 1:
                        check(np.max(np.abs(out.signal[1])) == 0, "C10 EDFA y of a one-polarisation input carries no signal")
                    ase = out.noise - nz_ref
                    P_ase = 10 ** (NF / 10) * hP * f0 * (g - 1) * fs
                    if G == 0:
                        check(np.max(np.abs(ase)) <= 1e-12 * max(np.max(np.abs(nz_ref)), 1e-30), "C10 EDFA G=0 dB adds no ASE")
                    else:
                        comps = np.array([ase[0].real, ase[0].imag, ase[1].real, ase[1].imag])
                        tot = np.sum(np.mean(np.abs(ase) ** 2, axis=-1))
                        check(abs(tot - P_ase) <= 6 * P_ase / np.sqrt(2 * n), "C10 EDFA ASE total power = NF*h*f0*(G-1)*fs")
                        v = comps.var(axis=-1)
                        check(np.all(np.abs(v - P_ase / 4) <= 6 * (P_ase / 4) * np.sqrt(2 / n)), "C10 EDFA ASE circular, equal power per quadrature and polarisation")
                        check(np.all(np.abs(comps.mean(axis=-1)) <= 6 * np.sqrt(P_ase / 4 / n)), "C10 EDFA ASE zero mean")
                        cc = np.corrcoef(comps)
                        check(np.all(np.abs(cc[np.triu_indices(4, 1)]) <= 6 / np.sqrt(n)), "C10 EDFA ASE components mutually independent")
                        z = comps / np.sqrt(P_ase / 4)
                        check(np.all(np.abs(np.mean(z ** 4, axis=-1) - 3) < 0.3), "C10 EDFA ASE Gaussian")
                        out2 = EDFA(inp, G, NF)
                        ase2 = out2.noise - nz_ref
                        check(abs(np.vdot(ase.ravel(), ase2.ravel())) / (n * P_ase) <= 6 / np.sqrt(n), "C10 EDFA ASE freshly drawn on each call")
                    # OSNR never improves
                    if nz is not None and G > 0:
                        osnr_in = np.sum(np.abs(x) ** 2) / np.sum(np.abs(nz) ** 2)
                        osnr_out = np.sum(np.abs(out.signal) ** 2) / np.sum(np.abs(out.noise) ** 2)
                        check(osnr_out <= osnr_in * (1 + 1e-3), "C10 EDFA output OSNR <= input OSNR")
                    check(np.array_equal(inp.signal, x_keep), "C10 EDFA leaves its input untouched")
                # with a bandwidth the whole output is band limited
                G, NF, BW = 20.0, 5.0, 0.2 * fs
                g = 10 ** (G / 10)
                out = EDFA(inp, G, NF, BW)
                check(out.n_pol == 2 and out.signal.shape == (2, n) and out.noise.shape == (2, n), "C10 EDFA(BW) output shape")
                sos = bessel_sos(4, BW / 2, fs)
                sig_ref = np.zeros((2, n), dtype=complex)
                sig_ref[: (1 if npol == 1 else 2)] = np.sqrt(g) * x
                check(close(out.signal, sg.sosfiltfilt(sos, sig_ref, axis=-1), 1e-9), "C10 EDFA(BW) signal is band-limited by the optical filter")
                f = fftfreq(n) * fs
                S = np.mean(np.abs(fft(out.noise, axis=-1)) ** 2, axis=0)
                inband = np.mean(S[np.abs(f) < 0.1 * BW])
                outband = np.mean(S[np.abs(f) > 2.0 * BW])
                check(outband < 1e-3 * inband, "C10 EDFA(BW) noise is band-limited by the optical filter")
                P_ase = 10 ** (NF / 10) * hP * f0 * (g - 1) * fs
                _, H = sg.sosfreqz(sos, worN=8192, whole=True)
                fracn = np.mean(np.abs(H) ** 4)
                nzp = 0.0 if nz is None else g * np.sum(np.abs(sg.sosfiltfilt(sos, np.atleast_2d(nz), axis=-1)) ** 2) / n
                tot = np.sum(np.mean(np.abs(out.noise) ** 2, axis=-1))
                check(abs(tot - (P_ase * fracn + nzp)) <= 0.05 * (P_ase * fracn + nzp), "C10 EDFA(BW) filtered noise power")

    gv(sps=16, R=1e9)
    for bad in (electrical_signal(np.ones(32)), np.ones(32), [1.0, 2.0], None):
        try:
            EDFA(bad, 10, 5)
            okk = False
        except TypeError:
            okk = True
        except Exception:
            okk = False
        check(okk, "C10 EDFA non-optical input raises TypeError")


def main():
    np.random.seed(12345)
    for fn in (check_C07, check_C11, check_C10, check_C09, check_C08):
        try:
            fn()
        except Hang:
            check(False, fn.__name__ + ": FIBER call did not terminate")
        except Exception as ex:  # a crash inside the contract's domain is a failure too
            import traceback
            traceback.print_exc()
            check(False, fn.__name__ + " crashed: %r" % (ex,))
    if FAILS:
        print("FAILED %d clause(s) out of %d checks:" % (len(FAILS), NCHECK[0]))
        for f in FAILS:
            print("  -", f)
        sys.exit(1)
    print("PASS (%d checks)" % NCHECK[0])
    sys.exit(0)


if __name__ == "__main__":
    main()
