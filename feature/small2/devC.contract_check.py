"""Contract check for FBG (C16), GET_EYE (C17) and ADC / shortest_int (C18).

Prints PASS and exits 0 when every sampled clause holds, otherwise prints the
failing clauses and exits 1.
"""
import sys
import os

_here = os.path.dirname(os.path.abspath(__file__))
if sys.path and os.path.abspath(sys.path[0] or ".") == _here:
    del sys.path[0]

import inspect
import io
import numbers
import warnings
import contextlib

import numpy as np
from scipy.constants import c, pi
from scipy.integrate import quad
from scipy.ndimage import gaussian_filter1d

import opticomlib
from opticomlib import gv, optical_signal, electrical_signal
from opticomlib.devices import FBG, GET_EYE, ADC
from opticomlib.utils import shortest_int, rcos

FAILS = []
VERBOSE = "-v" in sys.argv


def fail(clause, detail):
    FAILS.append((clause, detail))
    print(f"FAIL [{clause}] {detail}")


NCHECKS = [0]


def check(cond, clause, detail):
    NCHECKS[0] += 1
    if not cond:
        fail(clause, detail)
    return bool(cond)


@contextlib.contextmanager
def quiet():
    with warnings.catch_warnings():
        warnings.simplefilter("ignore")
        with contextlib.redirect_stdout(io.StringIO()):
            yield


# --------------------------------------------------------------------------- C16

APOS = {
    "uniform": lambda z: np.ones_like(np.asarray(z, dtype=float)),
    "rcos": lambda z: rcos(z, alpha=1, T=2),
    "gaussian": lambda z: np.exp(-4 * np.log(2) * (3 * z) ** 2),
    "parabolic": lambda z: 1 - (2 * z) ** 2,
}

H_TOL = 5e-3      # accuracy of the RK45 solver (rtol 1e-3) on |H| / reflectivity
ROUTE_TOL = 1e-6  # same grating specified differently


def random_apo(rng):
    a1, a2 = rng.uniform(-0.3, 0.3, 2)
    p1, p2 = rng.uniform(0, 2 * pi, 2)
    a0 = rng.uniform(0.7, 1.2)

    def f(z):
        return a0 + a1 * np.cos(2 * pi * z + p1) + a2 * np.cos(4 * pi * z + p2)

    return f


def fbg_input(rng, n, npol):
    if npol == 1:
        sig = rng.normal(size=n) + 1j * rng.normal(size=n)
    else:
        sig = rng.normal(size=(2, n)) + 1j * rng.normal(size=(2, n))
    return optical_signal(sig)


def fbg_call(x, **kw):
    kw.setdefault("print_params", False)
    with quiet():
        return FBG(x, retH=True, **kw)


def check_c16():
    rng = np.random.default_rng(1616)
    neff = 1.45
    has_lambda_D = "lambda_D" in inspect.signature(FBG).parameters

    for case in range(44):
        fs = float(rng.choice([20e9, 50e9, 100e9, 200e9, 400e9])) if case % 3 else float(rng.uniform(20e9, 400e9))
        n = int(2 ** rng.integers(8, 13))
        npol = 1 + case % 2
        kL = float(np.exp(rng.uniform(np.log(0.1), np.log(8))))
        vdneff = float(np.exp(rng.uniform(np.log(1e-5), np.log(1e-3))))
        F = 0.0 if case % 2 == 0 else float(rng.uniform(-20, 20))
        aponame = ["uniform", "rcos", "gaussian", "parabolic", "callable"][case % 5]
        if case in (0, 1):
            kL = (0.1, 8.0)[case]
        if case in (2, 3):
            vdneff = (1e-5, 1e-3)[case - 2]
        if case in (4, 5):
            F = (-20.0, 20.0)[case - 4]

        gv(sps=16, fs=fs)
        x = fbg_input(rng, n, npol)
        m = int(rng.integers(-3, 4)) if case % 4 == 0 else 0
        fc = gv.f0 + m * fs / n
        landa_D = c / fc
        apo = random_apo(rng) if aponame == "callable" else aponame
        apof = apo if callable(apo) else APOS[aponame]
        tag = f"case {case}: fs={fs:.3g} n={n} npol={npol} kL={kL:.3g} vdneff={vdneff:.3g} F={F:.3g} apo={aponame} m={m}"

        try:
            filtfilt = bool(case % 3)
            out, H = fbg_call(x, fc=fc, vdneff=vdneff, kL=kL, F=F, apodization=apo, filtfilt=filtfilt)
        except Exception as e:  # noqa
            fail("C16 runs", f"{tag}: {type(e).__name__}: {e}")
            continue

        H = np.asarray(H)
        check(H.shape == (n,) and np.all(np.isfinite(H)), "C16 H finite, one value per frequency", tag)
        check(np.abs(H).max() <= 1 + H_TOL, "C16 |H|<=1", f"{tag}: max|H|={np.abs(H).max()}")

        # output is the input filtered by H in every polarisation
        expect = np.fft.ifft(np.fft.fft(x.signal, axis=-1) * np.fft.ifftshift(H), axis=-1)
        osig = np.asarray(out.signal)
        ok = check(isinstance(out, optical_signal) and osig.shape == x.signal.shape, "C16 output shape", f"{tag}: {osig.shape}")
        if ok:
            err = np.abs(osig - expect).max() / np.abs(x.signal).max()
            check(err < 1e-9, "C16 output = input filtered by H", f"{tag}: err={err}")
            ein = (np.abs(x.signal) ** 2).sum(axis=-1)
            eout = (np.abs(osig) ** 2).sum(axis=-1)
            check(np.all(eout <= ein * (1 + 2 * H_TOL)), "C16 output energy <= input energy", f"{tag}: {eout} vs {ein}")

        ic = n // 2 + m
        w = x.w(shift=True)
        lam = 2 * pi * c / (w + 2 * pi * gv.f0)
        if F == 0:
            integ = quad(lambda z: float(apof(z)), -0.5, 0.5)[0]
            r_exp = np.tanh(kL * integ) ** 2
            r_got = np.abs(H[ic]) ** 2
            check(abs(r_got - r_exp) <= H_TOL, "C16 Bragg reflectivity = tanh^2(kL*int apo)", f"{tag}: got {r_got} expected {r_exp}")
            if aponame == "uniform":
                L = kL / (pi * vdneff / landa_D)
                d = 2 * pi * neff * (1 / lam - 1 / landa_D) * L
                k = pi * vdneff / lam * L
                g = np.sqrt((k ** 2 - d ** 2).astype(complex))
                r_cf = (np.sinh(g) ** 2 / (np.cosh(g) ** 2 - d ** 2 / k ** 2)).real
                err = np.abs(np.abs(H) ** 2 - r_cf).max()
                check(err <= H_TOL, "C16 uniform spectrum = closed form", f"{tag}: err={err}")

        # equivalent specification routes (N integer so that the three lengths coincide)
        if case % 2 == 0:
            Lam = landa_D / (2 * neff)
            Nper = max(int(round(kL / (pi * vdneff / landa_D) / Lam)), 1)
            L = Nper * Lam
            kLr = pi * vdneff / landa_D * L
            ref = None
            routes = []
            for centre in ({"fc": fc}, {"landa_D": landa_D}) + (({"lambda_D": landa_D},) if has_lambda_D else ()):
                for length in ({"kL": kLr}, {"L": L}, {"N": Nper}):
                    routes.append({**centre, **length})
            for spec in routes:
                try:
                    o2, H2 = fbg_call(x, vdneff=vdneff, F=F, apodization=apo, filtfilt=filtfilt, **spec)
                except Exception as e:  # noqa
                    fail("C16 routes run", f"{tag} {list(spec)}: {type(e).__name__}: {e}")
                    continue
                if ref is None:
                    ref = (np.asarray(H2), np.asarray(o2.signal))
                    continue
                e1 = np.abs(np.asarray(H2) - ref[0]).max()
                e2 = np.abs(np.asarray(o2.signal) - ref[1]).max() / np.abs(x.signal).max()
                check(e1 <= ROUTE_TOL and e2 <= ROUTE_TOL, "C16 equivalent specifications agree", f"{tag} {list(spec)}: dH={e1} dout={e2}")

    # incomplete specifications
    gv(sps=16, fs=100e9)
    x = optical_signal(np.ones(256))
    lD = c / gv.f0
    bad = [
        {},
        {"vdneff": 1e-4, "kL": 2},
        {"fc": gv.f0},
        {"fc": gv.f0, "kL": 2},
        {"fc": gv.f0, "L": 1e-2},
        {"fc": gv.f0, "vdneff": 1e-4},
        {"fc": gv.f0, "dneff": 1e-4},
        {"landa_D": lD},
        {"landa_D": lD, "vdneff": 1e-4},
        {"landa_D": lD, "dneff": 1e-4},
        {"landa_D": lD, "kL": 2},
        {"landa_D": lD, "L": 1e-2},
        {"landa_D": lD, "N": 1000},
    ]
    if has_lambda_D:
        bad += [{"lambda_D": lD}, {"lambda_D": lD, "vdneff": 1e-4}, {"lambda_D": lD, "kL": 2}, {"lambda_D": lD, "N": 10}]
    for spec in bad:
        for extra in ({}, {"print_params": False}, {"apodization": "rcos", "F": 3.0}):
            try:
                with quiet():
                    FBG(x, **spec, **extra)
            except ValueError:
                continue
            except Exception as e:  # noqa
                fail("C16 incomplete specification raises ValueError", f"{spec}: raised {type(e).__name__}: {e}")
            else:
                fail("C16 incomplete specification raises ValueError", f"{spec}: no exception")


# --------------------------------------------------------------------------- C17

EYE_KEYS_T = ("t_left", "t_right", "t_opt", "i")


def prbs(order, nbits, seed):
    taps = {7: (7, 6), 9: (9, 5), 11: (11, 9)}[order]
    state = [(seed >> k) & 1 for k in range(order)]
    if not any(state):
        state[0] = 1
    out = []
    for _ in range(nbits):
        new = state[taps[0] - 1] ^ state[taps[1] - 1]
        out.append(state[-1])
        state = [new] + state[:-1]
    return np.array(out)


def nrz(bits, sps, a, b, sigma, blur, rng):
    y = np.repeat(bits.astype(float), sps)
    y = gaussian_filter1d(y, blur * sps, mode="wrap")
    y = a + (b - a) * y
    return y + rng.normal(0, sigma, y.size)


def eye_of(wave, seed, as_signal):
    np.random.seed(seed)
    with quiet():
        return GET_EYE(electrical_signal(wave) if as_signal else wave, sps_resamp=128)


def check_c17():
    rng = np.random.default_rng(1717)
    for case in range(30):
        sps = int((8, 16, 32)[case % 3])
        gv(sps=sps, R=float(rng.choice([1e9, 2.5e9, 10e9])))
        if case % 2:
            order = (7, 9)[case % 4 // 2]
            nb = 2 ** order - 1 if case % 3 else int(rng.integers(64, 2 ** order))
            bits = prbs(order, nb, int(rng.integers(1, 100)))
        else:
            bits = rng.integers(0, 2, int(rng.integers(64, 400)))
            bits[:2] = (0, 1)
        d = float(10 ** rng.uniform(-3, 2))
        if case == 0:
            d = 1e-3
        if case == 1:
            d = 100.0
        a = float(rng.uniform(-2, 2)) * d if case % 4 else 0.0
        b = a + d
        rel = float(rng.uniform(0.005, 0.05))
        if case == 2:
            rel = 0.005
        if case == 3:
            rel = 0.05
        sigma = rel * d
        blur = float(rng.uniform(0.05, 0.12))
        wave = nrz(bits, sps, a, b, sigma, blur, rng)
        seed = 100 + case
        tag = f"case {case}: sps={sps} nbits={bits.size} a={a:.4g} b={b:.4g} sigma={rel:.3g}(b-a) blur={blur:.2f}"
        try:
            ey = eye_of(wave, seed, case % 2 == 0)
        except Exception as e:  # noqa
            fail("C17 runs", f"{tag}: {type(e).__name__}: {e}")
            continue

        vals = {}
        try:
            for key in ("mu0", "mu1", "s0", "s1", "threshold", "t_left", "t_right", "t_opt"):
                vals[key] = float(getattr(ey, key))
        except Exception as e:  # noqa
            fail("C17 finite estimates", f"{tag}: {type(e).__name__}: {e}")
            continue
        if not check(all(np.isfinite(v) for v in vals.values()), "C17 finite estimates", f"{tag}: {vals}"):
            continue
        check(abs(vals["mu0"] - a) <= 0.08 * d, "C17 mu0 within 8% of a", f"{tag}: mu0={vals['mu0']}")
        check(abs(vals["mu1"] - b) <= 0.08 * d, "C17 mu1 within 8% of b", f"{tag}: mu1={vals['mu1']}")
        for key in ("s0", "s1"):
            check(sigma / 2 <= vals[key] <= 2 * sigma + 0.03 * d, f"C17 {key} in [sigma/2, 2 sigma + 3%]", f"{tag}: {key}={vals[key]} sigma={sigma}")
        check(vals["mu0"] < vals["threshold"] < vals["mu1"], "C17 mu0 < threshold < mu1", f"{tag}: {vals}")
        check(abs(vals["t_right"] - vals["t_left"] - 1) <= 0.1, "C17 crossings one slot apart", f"{tag}: {vals}")
        check(abs(vals["t_opt"] - (vals["t_left"] + vals["t_right"]) / 2) <= 1 / 128 + 1e-12, "C17 t_opt midway", f"{tag}: {vals}")
        idx = ey.i
        check(isinstance(idx, numbers.Integral) and not isinstance(idx, bool) and 0 <= idx < sps, "C17 integer sampling index in [0, sps)", f"{tag}: i={idx!r}")

        # change of units
        alpha = float(10 ** rng.uniform(-3, 3))
        if case == 4:
            alpha = 1e-3
        if case == 5:
            alpha = 1e3
        beta = float(rng.uniform(-3, 3)) * alpha * d if case % 3 else 0.0
        try:
            ey2 = eye_of(alpha * wave + beta, seed, case % 2 == 0)
        except Exception as e:  # noqa
            fail("C17 runs (scaled)", f"{tag} alpha={alpha}: {type(e).__name__}: {e}")
            continue
        tol = 1e-6 * alpha * d
        for key in ("mu0", "mu1"):
            got = float(getattr(ey2, key))
            check(abs(got - (alpha * vals[key] + beta)) <= tol, f"C17 {key} equivariant", f"{tag} alpha={alpha:.3g} beta={beta:.3g}: {got} vs {alpha * vals[key] + beta}")
        for key in ("s0", "s1"):
            got = float(getattr(ey2, key))
            check(abs(got - alpha * vals[key]) <= tol, f"C17 {key} equivariant", f"{tag} alpha={alpha:.3g}: {got} vs {alpha * vals[key]}")
        for key in EYE_KEYS_T:
            check(getattr(ey2, key) == getattr(ey, key), f"C17 {key} unchanged by units", f"{tag} alpha={alpha:.3g} beta={beta:.3g}: {getattr(ey2, key)} vs {getattr(ey, key)}")


# --------------------------------------------------------------------------- C18

def adc_signals(rng):
    lengths = [2, 3, 5, 17, 100, 1000, 9999, 10000, 10001, 20000, 50000, 2 ** 16, 2 ** 17]
    kinds = ["gauss", "uniform", "sine", "quant"]
    for j, n in enumerate(lengths):
        for kind in kinds:
            scale = float(10 ** rng.uniform(-3, 2))
            off = float(rng.uniform(-2, 2)) * scale
            if kind == "gauss":
                x = rng.normal(size=n)
            elif kind == "uniform":
                x = rng.uniform(-1, 1, n)
            elif kind == "sine":
                x = np.sin(2 * pi * rng.uniform(0.001, 0.2) * np.arange(n) + rng.uniform(0, 6))
            else:
                x = np.round(rng.normal(size=n) * 3) / 3
            x = off + scale * x
            if kind == "gauss" and n >= 10 ** 4:  # outliers that the 99.99 % range excludes
                x[0] = x.max() + 50 * scale
            if np.ptp(x) == 0:
                continue
            yield kind, x


def check_adc_one(x, n, wrap, tag):
    V_min, V_max = (float(v) for v in shortest_int(x, 99.99))
    step = (V_max - V_min) / (2 ** n - 1)
    arg = electrical_signal(x) if wrap else x
    try:
        with quiet():
            yv = ADC(arg, n=n)
            yn = ADC(arg, n=n, otype="n")
            yd = ADC(arg, None, n) if n % 2 else yv
    except Exception as e:  # noqa
        fail("C18 ADC runs", f"{tag}: {type(e).__name__}: {e}")
        return
    for y in (yv, yn, yd):
        if not check(hasattr(y, "signal") and len(np.asarray(y.signal)) == len(x) and y.len() == len(x), "C18 ADC output length", tag):
            return
    v = np.asarray(yv.signal)
    k = np.asarray(yn.signal)
    check(np.all(np.isreal(v)) and np.all(np.isreal(k)), "C18 ADC real output", tag)
    v = v.real.astype(float)
    kr = k.real
    eps = 1e-9 * max(abs(V_min), abs(V_max), V_max - V_min)
    check(np.unique(v).size <= 2 ** n, "C18 at most 2^n distinct values", f"{tag}: {np.unique(v).size}")
    check(np.unique(kr).size <= 2 ** n, "C18 at most 2^n distinct codes", f"{tag}: {np.unique(kr).size}")
    check(v.min() >= V_min - eps and v.max() <= V_max + eps, "C18 values within [V_min, V_max]", f"{tag}: [{v.min()}, {v.max()}] vs [{V_min}, {V_max}]")
    check(np.all(kr == np.round(kr)) and kr.min() >= 0 and kr.max() <= 2 ** n - 1, "C18 codes are integers in [0, 2^n-1]", f"{tag}: [{kr.min()}, {kr.max()}] dtype={k.dtype}")
    kf = kr.astype(float)
    inside = (x >= V_min) & (x <= V_max)
    check(np.all(np.abs(v[inside] - x[inside]) <= step / 2 + eps), "C18 inside samples move <= half a step", f"{tag}: {np.abs(v[inside] - x[inside]).max()} step={step}")
    check(np.all(np.abs(kf[inside] * step + V_min - x[inside]) <= step / 2 + eps), "C18 inside codes within half a step", tag)
    check(np.all(kf[x > V_max] == 2 ** n - 1) and np.all(kf[x < V_min] == 0), "C18 outside samples saturate (codes)", tag)
    check(np.all(np.abs(v[x > V_max] - V_max) <= eps) and np.all(np.abs(v[x < V_min] - V_min) <= eps), "C18 outside samples saturate (values)", tag)
    check(np.all(np.abs(kf * step + V_min - v) <= eps), "C18 'v' and 'n' outputs consistent", tag)
    check(np.array_equal(np.asarray(yd.signal), np.asarray(yv.signal)), "C18 default otype is 'v'", tag)


def check_shortest_int(rng):
    for case in range(60):
        n = int(rng.integers(2, 3000))
        if case % 2:
            data = np.round(rng.normal(size=n) * rng.uniform(1, 6))
        else:
            data = rng.normal(size=n) if case % 4 else rng.uniform(-1, 1, n)
        p = float(rng.uniform(0, 100))
        lag = int(np.floor(p * n / 100))
        if lag < 1 or lag >= n:
            continue
        srt = np.sort(data)
        lo, hi = shortest_int(data, p)
        tag = f"shortest_int case {case}: n={n} p={p:.3f} lag={lag}"
        widths = srt[lag:] - srt[:-lag]
        ok = lo <= hi and np.any((srt[:-lag] == lo) & (srt[lag:] == hi))
        check(ok, "C18 shortest_int returns order statistics lag apart", tag)
        check(hi - lo == widths.min(), "C18 shortest_int is a shortest interval", f"{tag}: {hi - lo} vs {widths.min()}")
        check(np.count_nonzero((data >= lo) & (data <= hi)) >= lag + 1, "C18 shortest_int covers lag+1 samples", tag)


def check_c18():
    rng = np.random.default_rng(1818)
    ns = list(range(1, 13))
    j = 0
    for kind, x in adc_signals(rng):
        for n in (ns[j % 12], ns[(j + 5) % 12]):
            check_adc_one(x, n, wrap=bool(j % 2), tag=f"ADC {kind} len={x.size} n={n} wrap={bool(j % 2)}")
        j += 1
    x = rng.normal(size=4096)
    check_adc_one(x, np.int64(6), False, "ADC numpy integer n")
    check_shortest_int(rng)


def main():
    gv_state = (gv.sps, gv.R, gv.fs)
    for fn in (check_c18, check_c17, check_c16):
        try:
            fn()
        except Exception as e:  # noqa
            import traceback
            traceback.print_exc()
            fail(fn.__name__, f"checker crashed: {type(e).__name__}: {e}")
    gv(sps=gv_state[0], R=gv_state[1])
    if FAILS:
        print(f"{len(FAILS)} clause check(s) failed")
        for clause in sorted({cl for cl, _ in FAILS}):
            print(" -", clause)
        sys.exit(1)
    print(f"PASS ({NCHECKS[0]} clause checks)")
    sys.exit(0)


if __name__ == "__main__":
    main()
