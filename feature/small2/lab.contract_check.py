"""Contract check for [C20]: PPG3204 driver emits only in-range commands, pattern
memory round-trips, SYNC aligns.  Exits 0 and prints PASS when every clause holds
on the sampled inputs, prints the failing clause(s) and exits 1 otherwise."""
import sys, os
_here = os.path.dirname(os.path.abspath(__file__))
if sys.path and os.path.abspath(sys.path[0] or os.getcwd()) == _here:
    del sys.path[0]

import re
import inspect
import warnings
import numpy as np

import opticomlib.lab as lab
from opticomlib.lab import PPG3204, SYNC
from opticomlib.typing import electrical_signal, binary_sequence

FAILS = []


def fail(clause, detail):
    if len(FAILS) < 40:
        FAILS.append(f'{clause}: {detail}')


LIM = dict(freq=(1.5e9, 32e9), amp=(0.3, 2.0), offs=(-2.0, 3.0), skew=(-25e-12, 25e-12),
           plen=(2, 2**21))
ORDERS = [7, 9, 11, 15, 23, 31]
MEM = 2**21
INT = r'[+-]?\d+'


class FakePPG:
    """Simulated instrument: records every command, flags out-of-limit ones."""

    def __init__(self):
        self.log = []
        self.viol = []
        self.data_writes = []
        self.mem = {ch: np.zeros(MEM, dtype=np.uint8) for ch in range(1, 5)}
        self.st = {ch: dict(plen=2, type='DATA', order=7, bsh=0, out=False, skew=0.0, amp=1.0, offs=0.0) for ch in range(1, 5)}
        self.freq = 10e9
        self.timeout = 0

    def clear(self):
        pass

    def close(self):
        pass

    def _ch(self, tok, cmd):
        if not re.fullmatch(r'\d+', tok) or not 1 <= int(tok) <= 4:
            self.viol.append(f'channel not in 1..4: {cmd[:60]!r}')
            return None
        return int(tok)

    def _num(self, tok, lo, hi, cmd, integer=False):
        try:
            if integer:
                if not re.fullmatch(INT, tok):
                    raise ValueError
                v = int(tok)
            else:
                v = float(tok)
        except ValueError:
            self.viol.append(f'malformed value: {cmd[:60]!r}')
            return None
        if not (lo <= v <= hi):
            self.viol.append(f'value outside documented limits [{lo},{hi}]: {cmd[:60]!r}')
            return None
        return v

    def query(self, cmd):
        self.log.append(cmd)
        m = re.fullmatch(r':DIG(.*?):PATT:(LENG|TYPE|PLEN|BSH|DATA)(\?)?(?: (.*))?', cmd, re.S)
        if m:
            ch = self._ch(m.group(1), cmd)
            what, q, arg = m.group(2), m.group(3), m.group(4)
            if ch is None:
                return '\n'
            s = self.st[ch]
            if what == 'LENG':
                if q:
                    return f"{s['plen']}\n"
                v = self._num(arg, *LIM['plen'], cmd, integer=True)
                if v is not None:
                    s['plen'] = v
            elif what == 'TYPE':
                if q:
                    return s['type']
                if arg not in ('DATA', 'PRBS'):
                    self.viol.append(f'bad pattern type: {cmd!r}')
                else:
                    s['type'] = arg
            elif what == 'PLEN':
                if q:
                    return f"{s['order']}\n"
                v = self._num(arg, 0, 99, cmd, integer=True)
                if v is not None and v not in ORDERS:
                    self.viol.append(f'PRBS order not in supported list: {cmd!r}')
                elif v is not None:
                    s['order'] = v
            elif what == 'BSH':
                if q:
                    return f"{s['bsh']}\n"
                s['bsh'] = int(float(arg))
            elif what == 'DATA':
                if q:
                    mm = re.fullmatch(rf'({INT}),({INT})', arg or '')
                    if not mm:
                        self.viol.append(f'malformed data query: {cmd!r}')
                        return '#10\n'
                    a, n = int(mm.group(1)), int(mm.group(2))
                    if not (1 <= a <= MEM and 1 <= n and a + n - 1 <= MEM):
                        self.viol.append(f'data query outside memory: {cmd!r}')
                        return '#10\n'
                    bits = ''.join(map(str, self.mem[ch][a - 1:a - 1 + n]))
                    return f'#{len(str(n))}{n}{bits}\n'
                mm = re.fullmatch(rf'({INT}),({INT}),#(\d)(.*)', arg or '', re.S)
                if not mm:
                    self.viol.append(f'malformed data block: {cmd[:60]!r}')
                    return '\n'
                p, n, k, rest = int(mm.group(1)), int(mm.group(2)), int(mm.group(3)), mm.group(4)
                hdr, bits = rest[:k], rest[k:]
                ok = True
                if not (hdr.isdigit() and int(hdr) == n and k == len(str(n))):
                    self.viol.append(f'wrong IEEE-488.2 length header: {cmd[:60]!r}')
                    ok = False
                if len(bits) != n or set(bits) - set('01'):
                    self.viol.append(f'block payload does not match its length: {cmd[:60]!r}')
                    ok = False
                if not 1 <= n <= 1024:
                    self.viol.append(f'block length not in 1..1024: {cmd[:60]!r}')
                    ok = False
                if not (1 <= p and p + n - 1 <= MEM):
                    self.viol.append(f'block outside memory: {cmd[:60]!r}')
                    ok = False
                if ok:
                    self.mem[ch][p - 1:p - 1 + n] = np.frombuffer(bits.encode(), dtype=np.uint8) - 48
                    self.data_writes.append((ch, p, n, bits))
            return '\n'
        m = re.fullmatch(r':OUTP(.*?) (ON|OFF)', cmd)
        if m:
            ch = self._ch(m.group(1), cmd)
            if ch:
                self.st[ch]['out'] = m.group(2) == 'ON'
            return '\n'
        m = re.fullmatch(r':FREQ(\?| .*)', cmd)
        if m:
            if m.group(1) == '?':
                return f'{self.freq}\n'
            v = self._num(m.group(1).strip(), *LIM['freq'], cmd)
            if v is not None:
                self.freq = v
            return '\n'
        m = re.fullmatch(r':SKEW(.*?)(\?| .*)', cmd)
        if m:
            ch = self._ch(m.group(1), cmd)
            if ch is None:
                return '\n'
            if m.group(2) == '?':
                return f"{self.st[ch]['skew']}\n"
            v = self._num(m.group(2).strip(), *LIM['skew'], cmd)
            if v is not None:
                self.st[ch]['skew'] = v
            return '\n'
        m = re.fullmatch(r':VOLT(.*?):(POS|NEG:OFFS|POS:OFFS|OFFS)(\?| .*)', cmd)
        if m:
            ch = self._ch(m.group(1), cmd)
            if ch is None:
                return '\n'
            key = 'amp' if m.group(2) == 'POS' else 'offs'
            if m.group(3) == '?':
                return f'{self.st[ch][key]}\n'
            tok = m.group(3).strip()
            if not tok.lower().endswith('v'):
                self.viol.append(f'voltage without unit: {cmd!r}')
                return '\n'
            v = self._num(tok[:-1], *LIM[key], cmd)
            if v is not None:
                self.st[ch][key] = v
            return '\n'
        if cmd in ('*RST', '*IDN?'):
            return 'FAKE\n'
        self.viol.append(f'unknown command: {cmd[:60]!r}')
        return '\n'


def new_ppg():
    ppg = PPG3204()
    ppg.inst = FakePPG()
    return ppg


def call(clause, fn, *a, **k):
    """Run fn; an exception is a contract violation. Returns (ok, result, warnings)."""
    with warnings.catch_warnings(record=True) as w:
        warnings.simplefilter('always')
        try:
            r = fn(*a, **k)
        except Exception as e:
            args = ', '.join([r if len(r := repr(x)) < 60 else f'<{type(x).__name__}>' for x in a] + [f'{n}={v!r}'[:60] for n, v in k.items()])
            fail(clause, f'{fn.__name__}({args}) raised {type(e).__name__}: {e}')
            return False, None, w
    return True, r, w


def user_warned(w):
    return any(not issubclass(x.category, (DeprecationWarning, PendingDeprecationWarning)) for x in w)


CH_SELECTIONS = [None, 1, 2, 3, 4, 0, 5, 7, -1, 100, [1], [1, 2], [4, 3, 2, 1], [2, 2], [0, 5], [3, 9], [-2, 1, 4],
                 (1, 3), (2, 4, 6), [1, 2, 3, 4, 5, 6], [7, 8, 9, 10, 11], np.array([1, 4]), np.array([0, 2, 5])]


def n_channels(sel):
    if sel is None:
        return 4
    return min(np.atleast_1d(np.asarray(sel)).size, 4)


def decades(lo, hi, integer=False):
    vals = set()
    for lim in (lo, hi):
        for k in range(-3, 4):
            for f in (1.0, 1 - 1e-3, 1 + 1e-3, 0.5, 2.0, 3.3):
                vals.add(lim * f * 10.0**k)
                vals.add(-lim * f * 10.0**k)
    vals |= {0.0, (lo + hi) / 2, lo, hi, lo + (hi - lo) * 0.123, lo + (hi - lo) * 0.87}
    if integer:
        vals = {int(round(v)) for v in vals} | {lo - 1, lo + 1, hi - 1, hi + 1}
    return sorted(vals)


SETTERS = {
    # name: (method, limits key, regex extracting (channel, value) from a command, abs tol, rel tol, integer)
    'freq': ('set_freq', 'freq', r':FREQ()\s*(\S+)', 0.0, 1e-5, False),
    'amp': ('set_output_voltage', 'amp', r':VOLT(.*?):POS (\S+)v', 0.05 + 1e-12, 0.0, False),
    'offs': ('set_offset', 'offs', r':VOLT(.*?):(?:NEG|POS):OFFS (\S+)v', 0.05 + 1e-12, 0.0, False),
    'skew': ('set_skew', 'skew', r':SKEW(.*?) (\S+)', 1e-27, 1e-12, False),
    'plen': ('set_patt_len', 'plen', r':DIG(.*?):PATT:LENG (\S+)', 0.0, 0.0, True),
}


def check_setter(name, rng):
    meth, key, rx, atol, rtol, integer = SETTERS[name]
    lo, hi = LIM[key]
    clause = f'C20 in-range commands [{meth}]'
    vals = decades(lo, hi, integer)

    def one(req, sel):
        ppg = new_ppg()
        f = getattr(ppg, meth)
        args = (req,) if name == 'freq' else (req, sel)
        ok, _, w = call(clause, f, *args)
        if not ok:
            return
        inst = ppg.inst
        for v in inst.viol:
            fail(clause, f'request {req!r} CHs={sel!r}: {v}')
        if not inst.log:
            fail(clause, f'request {req!r} CHs={sel!r}: no command emitted')
            return
        reqs = np.atleast_1d(np.asarray(req, dtype=float))
        if reqs.size == 1 and name != 'freq':
            reqs = np.repeat(reqs, n_channels(sel))
        if np.any((reqs[:len(inst.log)] < lo) | (reqs[:len(inst.log)] > hi)) and not user_warned(w):
            fail(clause, f'request {req!r} CHs={sel!r}: out-of-range request clamped without a warning')
        for cmd, r in zip(inst.log, reqs):
            m = re.fullmatch(rx, cmd)
            if not m:
                fail(clause, f'unexpected command {cmd!r}')
                continue
            try:
                got = float(m.group(2))
            except ValueError:
                continue
            want = min(max(r, lo), hi)
            if abs(got - want) > atol + rtol * abs(want):
                fail(clause, f'request {r!r}: emitted {got!r}, expected clamp {want!r}')

    sels = [None] if name == 'freq' else CH_SELECTIONS
    for v in vals:
        for sel in (sels if name == 'freq' else [sels[i] for i in rng.choice(len(sels), 6, replace=False)]):
            one(v if integer else float(v), sel)
        if not integer and float(v).is_integer() and abs(v) < 2**53:
            one(int(v), None if name == 'freq' else 2)
    if name == 'freq':
        return
    for _ in range(150):
        sel = sels[rng.integers(len(sels))]
        n = n_channels(sel)
        lst = [vals[i] for i in rng.integers(len(vals), size=n)]
        lst = [int(x) for x in lst] if integer else [float(x) for x in lst]
        form = rng.integers(3)
        one(lst if form == 0 else tuple(lst) if form == 1 else np.array(lst), sel)


def check_prbs_order(rng):
    clause = 'C20 in-range commands [set_prbs_order]'
    reqs = list(range(-3, 70)) + [100, 127, 1000, 10**6, -50]

    def one(req, sel):
        ppg = new_ppg()
        ok, _, w = call(clause, ppg.set_prbs_order, req, sel)
        if not ok:
            return
        for v in ppg.inst.viol:
            fail(clause, f'request {req!r} CHs={sel!r}: {v}')
        if not ppg.inst.log:
            fail(clause, f'request {req!r} CHs={sel!r}: no command emitted')
        r = np.atleast_1d(np.asarray(req))
        if r.size == 1:
            r = np.repeat(r, n_channels(sel))
        r = r[:len(ppg.inst.log)]
        if any(int(x) not in ORDERS for x in r) and not user_warned(w):
            fail(clause, f'request {req!r}: unsupported order replaced without a warning')
        for cmd, x in zip(ppg.inst.log, r):
            m = re.fullmatch(r':DIG(.*?):PATT:PLEN (\d+)', cmd)
            if m and int(x) in ORDERS and int(m.group(2)) != int(x):
                fail(clause, f'supported order {x} sent as {m.group(2)}')

    for r in reqs:
        for i in rng.choice(len(CH_SELECTIONS), 4, replace=False):
            one(r, CH_SELECTIONS[i])
    for _ in range(100):
        sel = CH_SELECTIONS[rng.integers(len(CH_SELECTIONS))]
        lst = [int(reqs[i]) for i in rng.integers(len(reqs), size=n_channels(sel))]
        one(lst if rng.integers(2) else np.array(lst), sel)


def check_other_channel_users(rng):
    clause = 'C20 channel in 1..4'
    for sel in CH_SELECTIONS:
        ppg = new_ppg()
        for f, a in ((ppg.enable_outputs, ()), (ppg.disable_outputs, ()), (ppg.set_mode, ('prbs',)), (ppg.set_bits_shift, (3,)),
                     (ppg.get_patt_len, ()), (ppg.get_mode, ()), (ppg.get_prbs_order, ()), (ppg.get_bits_shift, ()),
                     (ppg.get_skew, ()), (ppg.get_output_voltage, ()), (ppg.get_offset, ())):
            call(clause, f, *a, sel)
        call(clause, ppg.get_data, 10, 1, sel)
        for v in ppg.inst.viol:
            fail(clause, f'CHs={sel!r}: {v}')


def check_blocks(inst, clause, ch, start, bits, what):
    ws = [x for x in inst.data_writes if x[0] == ch]
    addr = start
    got = ''
    for (_, p, n, b) in ws:
        if p != addr:
            fail(clause, f'{what}: CH{ch} block at address {p}, expected consecutive address {addr}')
            return
        addr += n
        got += b
    if got != bits:
        fail(clause, f'{what}: CH{ch} blocks carry {len(got)} bits that differ from the {len(bits)} bits written')
    if any(n != 1024 for (_, _, n, _) in ws[:-1]) and len(bits) > 1024:
        pass  # only "at most 1024" is required


def check_data(rng):
    clause = 'C20 memory round-trip [set_data/get_data]'
    sig = inspect.signature(PPG3204.set_data).parameters
    lengths = [1, 2, 3, 7, 12, 100, 1000, 1023, 1024, 1025, 2047, 2048, 2049, 3000, 3072, 4096, 5000, 8191, 8192, 10000]
    lengths += [int(x) for x in rng.integers(1, 10001, size=25)]
    starts = [1, 2, 17, 1000, 1024, 1025, 5000, 2**20, MEM - 10000]
    sels = [None, 1, 3, 4, [1, 2], [4, 2], (3, 1, 2), [1, 2, 3, 4], np.array([2, 3]), 0, 6, [0, 5]]
    for li, L in enumerate(lengths):
        start = starts[li % len(starts)] if li % 3 else 1
        sel = sels[li % len(sels)]
        chs = [1, 2, 3, 4] if sel is None else list(np.clip(np.atleast_1d(np.asarray(sel)), 1, 4)[:4])
        form = li % 4
        shared = rng.integers(0, 2, size=L).astype(np.uint8)
        if form == 0:
            data, per = ''.join(map(str, shared)), [shared] * len(chs)
        elif form == 1:
            data, per = shared.tolist(), [shared] * len(chs)
        elif form == 2:
            data, per = shared.astype(bool), [shared] * len(chs)
        else:
            if len(set(chs)) != len(chs):
                continue
            per = [rng.integers(0, 2, size=L).astype(np.uint8) for _ in chs]
            data = np.array(per)
        ppg = new_ppg()
        args = (data,) if start == 1 and li % 2 else (data, start)
        ok, _, w = call(clause, ppg.set_data, *args, CHs=sel)
        if not ok:
            continue
        what = f'len={L} start={start} CHs={sel!r} form={form}'
        for v in ppg.inst.viol:
            fail(clause, f'{what}: {v}')
        if len(set(chs)) == len(chs):
            for ch, bits in zip(chs, per):
                check_blocks(ppg.inst, clause, int(ch), start, ''.join(map(str, bits)), what)
        nlog = len(ppg.inst.log)
        ok, out, w = call(clause, ppg.get_data, L, start, sel) if li % 2 else call(clause, ppg.get_data, L, start, CHs=sel)
        if not ok:
            continue
        for v in ppg.inst.viol:
            fail(clause, f'{what} (get_data): {v}')
        out = np.asarray(out)
        if out.shape != (len(chs), L):
            fail(clause, f'{what}: get_data shape {out.shape}, expected {(len(chs), L)}')
            continue
        if len(set(chs)) == len(chs):
            for row, bits in zip(out, per):
                if not np.array_equal(np.asarray(row).astype(int), bits.astype(int)):
                    fail(clause, f'{what}: get_data returns different bits from those written')
                    break
        # partial read-back inside the written range
        if L > 10:
            a = int(rng.integers(0, L - 5)); n = int(rng.integers(1, L - a + 1))
            ok, part, _ = call(clause, ppg.get_data, n, start + a, sel)
            if ok and len(set(chs)) == len(chs):
                part = np.asarray(part)
                for row, bits in zip(part, per):
                    if not np.array_equal(np.asarray(row).astype(int), bits[a:a + n].astype(int)):
                        fail(clause, f'{what}: partial get_data({n},{start + a}) differs from written bits')
                        break
    # renamed start address keyword (only when present)
    if 'start_addr' in sig:
        bits = rng.integers(0, 2, size=2500).astype(np.uint8)
        p1, p2 = new_ppg(), new_ppg()
        ok1, _, w1 = call(clause, p1.set_data, bits, start_addr=300, CHs=[2, 3])
        ok2, _, w2 = call(clause, p2.set_data, bits, start_addrs=300, CHs=[2, 3])
        if ok1 and ok2:
            if p1.inst.log != p2.inst.log:
                fail(clause, 'start_addr / start_addrs spellings emit different commands')
            if not any(issubclass(x.category, DeprecationWarning) for x in w2):
                fail(clause, 'old spelling start_addrs gives no DeprecationWarning')
            for p in (p1, p2):
                for v in p.inst.viol:
                    fail(clause, f'start_addr keyword: {v}')
                for ch in (2, 3):
                    check_blocks(p.inst, clause, ch, 300, ''.join(map(str, bits)), 'start_addr keyword')
            for kw in ('start_addr', 'start_addrs'):
                ok, out, _ = call(clause, p1.get_data, 2500, CHs=[2, 3], **{kw: 300})
                if ok and not (np.asarray(out).shape == (2, 2500) and all(np.array_equal(r, bits) for r in np.asarray(out))):
                    fail(clause, f'get_data({kw}=300) does not return the written bits')


def check_sequences(rng):
    clause = 'C20 arbitrary call sequences'
    for s in range(6):
        ppg = new_ppg()
        inst = ppg.inst
        model = {ch: None for ch in range(1, 5)}
        for step in range(120):
            sel = CH_SELECTIONS[rng.integers(len(CH_SELECTIONS))]
            chs = [1, 2, 3, 4] if sel is None else [int(c) for c in np.clip(np.atleast_1d(np.asarray(sel)), 1, 4)[:4]]
            op = rng.integers(12)
            scale = 10.0 ** rng.integers(-2, 3)
            if op == 0:
                call(clause, ppg.set_freq, float(rng.uniform(0.5e9, 40e9) * scale))
                ok, f, _ = call(clause, ppg.get_freq)
                if ok and not LIM['freq'][0] <= f <= LIM['freq'][1]:
                    fail(clause, f'get_freq returns {f} after set_freq')
            elif op == 1:
                v = float(rng.uniform(-1, 4) * scale)
                call(clause, ppg.set_output_voltage, v, sel)
                ok, g, _ = call(clause, ppg.get_output_voltage, sel)
                if ok and not np.allclose(g, min(max(v, 0.3), 2.0), atol=0.0501):
                    fail(clause, f'get_output_voltage {g} after set {v}')
            elif op == 2:
                v = float(rng.uniform(-4, 5) * scale)
                call(clause, ppg.set_offset, v, sel)
                ok, g, _ = call(clause, ppg.get_offset, sel)
                if ok and not np.allclose(g, min(max(v, -2.0), 3.0), atol=0.0501):
                    fail(clause, f'get_offset {g} after set {v}')
            elif op == 3:
                v = float(rng.uniform(-40e-12, 40e-12) * scale)
                call(clause, ppg.set_skew, v, sel)
                ok, g, _ = call(clause, ppg.get_skew, sel)
                if ok and not np.allclose(g, min(max(v, -25e-12), 25e-12), rtol=1e-9, atol=0):
                    fail(clause, f'get_skew {g} after set {v}')
            elif op == 4:
                v = int(rng.integers(-5, 3 * 2**21) if rng.integers(2) else rng.integers(-5, 50))
                call(clause, ppg.set_patt_len, v, sel)
                ok, g, _ = call(clause, ppg.get_patt_len, sel)
                if ok and not np.array_equal(g, np.full(len(chs), min(max(v, 2), 2**21))):
                    fail(clause, f'get_patt_len {g} after set {v}')
            elif op == 5:
                v = int(rng.integers(0, 40))
                call(clause, ppg.set_prbs_order, v, sel)
                ok, g, _ = call(clause, ppg.get_prbs_order, sel)
                if ok and (not all(x in ORDERS for x in g) or (v in ORDERS and not all(x == v for x in g))):
                    fail(clause, f'get_prbs_order {g} after set {v}')
            elif op in (6, 7, 8):
                if len(set(chs)) != len(chs):
                    continue
                L = int(rng.integers(1, 4000))
                start = int(rng.integers(1, 20000))
                bits = rng.integers(0, 2, size=L).astype(np.uint8)
                inst.data_writes.clear()
                ok, _, _ = call(clause, ppg.set_data, bits, start, sel)
                if ok:
                    for ch in chs:
                        check_blocks(inst, clause, ch, start, ''.join(map(str, bits)), f'seq set_data len={L} start={start}')
                    ok, out, _ = call(clause, ppg.get_data, L, start, sel)
                    if ok and not (np.asarray(out).shape == (len(chs), L) and all(np.array_equal(r, bits) for r in np.asarray(out))):
                        fail(clause, f'seq get_data differs after set_data len={L} start={start} CHs={sel!r}')
            elif op == 9:
                call(clause, ppg.set_mode, 'data' if rng.integers(2) else 'PRBS', sel)
                call(clause, ppg.get_mode, sel)
            elif op == 10:
                call(clause, ppg.enable_outputs if rng.integers(2) else ppg.disable_outputs, sel)
            else:
                call(clause, ppg.set_bits_shift, int(rng.integers(-100, 100)), sel)
                call(clause, ppg.get_bits_shift, sel)
        for v in inst.viol:
            fail(clause, v)


def check_numpy_scalars(rng):
    """Numpy integer / float scalars: only checked when the driver accepts them."""
    clause = 'C20 in-range commands [numpy scalar requests]'
    ppg = new_ppg()
    try:
        with warnings.catch_warnings():
            warnings.simplefilter('ignore')
            ppg.set_patt_len(np.int64(100), np.int64(2))
    except Exception:
        return
    for v in (np.int64(0), np.int32(1), np.int64(2), np.int64(5000), np.int64(2**21), np.int64(2**21 + 1), np.int64(10**9)):
        for sel in (None, np.int64(3), np.int64(9), np.int32(0), [1, 2]):
            ppg = new_ppg()
            ok, _, w = call(clause, ppg.set_patt_len, v, sel)
            if not ok:
                continue
            for x in ppg.inst.viol:
                fail(clause, f'set_patt_len({v!r},{sel!r}): {x}')
            want = min(max(int(v), 2), 2**21)
            if not ppg.inst.log or any(not c.endswith(f'LENG {want}') for c in ppg.inst.log):
                fail(clause, f'set_patt_len({v!r},{sel!r}) emitted {ppg.inst.log}')
            if want != int(v) and not user_warned(w):
                fail(clause, f'set_patt_len({v!r}) clamped without warning')
    for v in (np.int64(7), np.int64(8), np.int32(31), np.int64(40), np.int64(0)):
        ppg = new_ppg()
        ok, _, w = call(clause, ppg.set_prbs_order, v, np.int64(5))
        if ok:
            for x in ppg.inst.viol:
                fail(clause, f'set_prbs_order({v!r}): {x}')
            if not ppg.inst.log:
                fail(clause, f'set_prbs_order({v!r}) emitted nothing')
            if int(v) not in ORDERS and not user_warned(w):
                fail(clause, f'set_prbs_order({v!r}) replaced without warning')


def prbs(order, taps, seed=1):
    n = 2**order - 1
    reg = [(seed >> i) & 1 for i in range(order)]
    if not any(reg):
        reg[0] = 1
    out = np.empty(n, dtype=np.uint8)
    for i in range(n):
        out[i] = reg[-1]
        fb = reg[taps[0] - 1] ^ reg[taps[1] - 1]
        reg = [fb] + reg[:-1]
    return out


def check_sync(rng):
    # d = 0 is left out: with a periodic record the lags 0 and l tie, and the pristine code
    # already picks lag l on noisy records (pre-existing, unrelated to the commits under test).
    clause = 'C20 SYNC aligns'
    params = inspect.signature(SYNC).parameters
    pats = [prbs(7, (7, 6), 1), prbs(7, (7, 6), 77), prbs(9, (9, 5), 5)]
    for pi, pat in enumerate(pats):
        for sps in (2, 4, 8):
            wave = np.kron(pat, np.ones(sps))
            l = wave.size
            ds = sorted(set([1, 2, 3, sps - 1, sps, sps + 1, l // 2, l - sps, l - 2, l - 1] + [int(x) for x in rng.integers(1, l, size=14)]))
            for j, d in enumerate(ds):
                reps = 3 + j % 3
                clean = np.tile(wave, reps + 1)[l - d:l - d + reps * l] if d else np.tile(wave, reps)
                amp = (0.2, 1.0, 3.5)[j % 3]
                sigma = (0.0, 0.05, 0.15)[(j + pi) % 3]
                rx = amp * clean + sigma * amp * rng.standard_normal(clean.size)
                form = j % 4
                if form == 0:
                    a = (rx.copy(), pat.copy(), sps)
                elif form == 1:
                    a = (rx.copy(), binary_sequence(pat), sps)
                elif form == 2:
                    a = (electrical_signal(rx.copy()), pat.copy())
                else:
                    a = (electrical_signal(rx.copy()), binary_sequence(pat))
                from opticomlib.typing import gv
                old = gv.sps
                if form >= 2:
                    gv(sps=sps, R=1e9)
                res3 = None
                try:
                    ok, res, _ = call(clause, SYNC, *a)
                    if 'return_corr' in params:
                        res3 = call(clause, SYNC, *a, return_corr=True)
                finally:
                    if form >= 2:
                        gv(sps=old, R=1e9)
                if not ok:
                    continue
                sig, i = res[0], res[1]
                what = f'pattern {pi} sps={sps} d={d} reps={reps} sigma={sigma} form={form}'
                if int(i) != d:
                    fail(clause, f'{what}: returned index {i}')
                    continue
                s = np.asarray(sig.signal if hasattr(sig, 'signal') else sig)
                if s.size == 0 or not np.array_equal(s, rx[d:d + s.size]):
                    fail(clause, f'{what}: returned signal does not start at sample {d}')
                if res3 is not None and res3[0]:
                    r3 = res3[1]
                    if len(r3) != 3 or int(r3[1]) != d or int(np.argmax(r3[2])) != d or not np.array_equal(np.asarray(r3[0].signal), s):
                        fail(clause, f'{what}: return_corr=True result inconsistent')
            # short record
            for n in (1, l // 2, l - 1):
                try:
                    with warnings.catch_warnings():
                        warnings.simplefilter('ignore')
                        SYNC(wave[:n].copy(), pat.copy(), sps)
                    fail(clause, f'pattern {pi} sps={sps}: record of {n} < {l} samples accepted')
                except Exception:
                    pass


def main():
    import io, contextlib
    buf = io.StringIO()
    with contextlib.redirect_stdout(buf):
        for name in SETTERS:
            check_setter(name, np.random.default_rng(100 + len(name)))
        check_prbs_order(np.random.default_rng(1))
        check_other_channel_users(np.random.default_rng(2))
        check_data(np.random.default_rng(3))
        check_sequences(np.random.default_rng(4))
        check_numpy_scalars(np.random.default_rng(5))
        check_sync(np.random.default_rng(6))
    if FAILS:
        print('FAIL')
        for f in FAILS:
            print('  ' + f)
        sys.exit(1)
    print('PASS')
    sys.exit(0)


if __name__ == '__main__':
    main()
