"""Contract check for opticomlib.typing (clauses C01, C02, C14, C15).

Prints PASS and exits 0 when every sampled clause holds, otherwise prints the
failing clauses and exits 1.  `opticomlib` is imported from PYTHONPATH.
"""
import sys, os

_here = os.path.dirname(os.path.abspath(__file__))
if sys.path and os.path.abspath(sys.path[0] or os.getcwd()) == _here:
    sys.path.pop(0)

import copy as _copy
import inspect
import itertools
import warnings

import numpy as np
from numpy.fft import fft, ifft, fftfreq, fftshift, ifftshift
from scipy.constants import c, pi

warnings.simplefilter('ignore')

from opticomlib.typing import (  # noqa: E402
    gv, global_variables, binary_sequence, electrical_signal, optical_signal,
)

FAILS = []


def fail(clause, msg):
    FAILS.append(f'{clause}: {msg}')
    if len(FAILS) > 40:
        finish()


def finish():
    if FAILS:
        for f in FAILS[:40]:
            print('FAIL', f)
        sys.exit(1)
    print('PASS')
    sys.exit(0)


def check(cond, clause, msg):
    if not cond:
        fail(clause, msg)
    return cond


def guarded(clause, msg, fn, *a, **k):
    try:
        return fn(*a, **k)
    except SystemExit:
        raise
    except Exception as e:  # noqa: BLE001
        fail(clause, f'{msg}: unexpected {type(e).__name__}: {e}')
        return None


def same_bits(a, b):
    a = np.asarray(a); b = np.asarray(b)
    return a.shape == b.shape and a.dtype == b.dtype and a.tobytes() == b.tobytes()


# --------------------------------------------------------------------------
# C01 pair model
# --------------------------------------------------------------------------
LENGTHS = [1, 2, 3, 5, 7, 8, 13, 16, 31, 64, 257, 1024]
DTYPES = ['int', 'float', 'complex']


def rand_vec(rng, shape, kind):
    if kind == 'int':
        return rng.integers(-9, 10, size=shape)
    if kind == 'float':
        return rng.normal(size=shape)
    return rng.normal(size=shape) + 1j*rng.normal(size=shape)


class Model:
    def __init__(self, cls, sig, noi):
        self.cls, self.sig, self.noi = cls, np.array(sig), None if noi is None else np.array(noi)

    @property
    def npol(self):
        return 2 if self.sig.ndim == 2 else 1

    @property
    def n(self):
        return self.sig.shape[-1]

    def total(self):
        return self.sig if self.noi is None else self.sig + self.noi


def build(cls, sig, noi):
    if cls is optical_signal:
        return cls(sig, noi)
    return cls(sig, noi)


def snapshot(obj):
    return (obj.signal.copy(), None if obj.noise is None else obj.noise.copy(),
            obj.signal.dtype, None if obj.noise is None else obj.noise.dtype)


def unchanged(obj, snap):
    s, n, sd, nd = snap
    ok = same_bits(obj.signal, s) and obj.signal.dtype == sd
    if n is None:
        return ok and obj.noise is None
    return ok and obj.noise is not None and same_bits(obj.noise, n) and obj.noise.dtype == nd


def valid(obj, cls, npol, n, has_noise, where):
    ok = True
    ok &= check(type(obj) is cls, 'C01', f'{where}: class {type(obj).__name__} != {cls.__name__}')
    s = obj.signal
    ok &= check(isinstance(s, np.ndarray), 'C01', f'{where}: signal not ndarray')
    if not ok:
        return False
    if npol == 1:
        ok &= check(s.ndim == 1 and s.size == n and n >= 1, 'C01', f'{where}: shape {s.shape}, expected ({n},)')
    else:
        ok &= check(s.shape == (2, n), 'C01', f'{where}: shape {s.shape}, expected (2,{n})')
    if cls is optical_signal:
        ok &= check(obj.n_pol == npol, 'C01', f'{where}: n_pol {obj.n_pol} != {npol}')
    ok &= check(obj.len() == n and len(obj) == n, 'C01', f'{where}: len {obj.len()} != {n}')
    if has_noise:
        ok &= check(obj.noise is not None and isinstance(obj.noise, np.ndarray) and obj.noise.shape == s.shape,
                    'C01', f'{where}: noise missing or wrong shape')
    else:
        ok &= check(obj.noise is None, 'C01', f'{where}: unexpected noise')
    return bool(ok)


def no_share(res, operands, where):
    arrs = [res.signal] + ([res.noise] if res.noise is not None else [])
    for op in operands:
        oa = []
        if isinstance(op, electrical_signal):
            oa = [op.signal] + ([op.noise] if op.noise is not None else [])
        elif isinstance(op, np.ndarray):
            oa = [op]
        for r in arrs:
            for o in oa:
                check(not np.shares_memory(r, o), 'C01', f'{where}: result shares memory with operand')
    if res.noise is not None:
        check(not np.shares_memory(res.signal, res.noise), 'C01', f'{where}: signal and noise alias')


def match(obj, m, where, exact=True):
    if not valid(obj, m.cls, m.npol, m.n, m.noi is not None, where):
        return False
    if exact:
        ok = check(np.array_equal(obj.signal, m.sig), 'C01', f'{where}: signal differs from model')
        if m.noi is not None:
            ok &= check(np.array_equal(obj.noise, m.noi), 'C01', f'{where}: noise differs from model')
    else:
        ok = check(np.allclose(obj.signal, m.sig, rtol=1e-12, atol=1e-12), 'C01', f'{where}: signal differs from model')
        if m.noi is not None:
            ok &= check(np.allclose(obj.noise, m.noi, rtol=1e-12, atol=1e-12), 'C01', f'{where}: noise differs')
    return bool(ok)


def m_add(a, b, sign=1):
    sig = a.sig + sign*b.sig
    if a.noi is None and b.noi is None:
        noi = None
    elif a.noi is None:
        noi = sign*b.noi + np.zeros_like(sig)
    elif b.noi is None:
        noi = a.noi + np.zeros_like(sig)
    else:
        noi = a.noi + sign*b.noi
    return Model(a.cls, sig, noi)


def m_rsub(a, b):  # b - a
    sig = -a.sig + b.sig
    if a.noi is None and b.noi is None:
        noi = None
    elif a.noi is None:
        noi = b.noi + np.zeros_like(sig)
    elif b.noi is None:
        noi = -a.noi + np.zeros_like(sig)
    else:
        noi = -a.noi + b.noi
    return Model(a.cls, sig, noi)


def m_mul(a, b):
    sig = a.sig*b.sig
    if a.noi is None and b.noi is None:
        noi = None
    elif a.noi is None:
        noi = b.noi + np.zeros_like(sig)
    elif b.noi is None:
        noi = a.noi + np.zeros_like(sig)
    else:
        noi = a.noi*b.noi
    return Model(a.cls, sig, noi)


def m_slice(a, sl):
    if isinstance(sl, int):
        sl = slice(sl, sl + 1 if sl != -1 else None)
    return Model(a.cls, a.sig[..., sl], None if a.noi is None else a.noi[..., sl])


def to_str(v):
    if np.iscomplexobj(v):
        return ','.join(f'{x.real:.4f}{x.imag:+.4f}j' for x in v)
    if v.dtype.kind == 'i':
        return ','.join(str(int(x)) for x in v)
    return ','.join(f'{x:.4f}' for x in v)


def from_str(s):
    items = s.split(',')
    if 'j' in s:
        return np.array([complex(x) for x in items])
    if '.' in s:
        return np.array([float(x) for x in items])
    return np.array([int(x) for x in items])


def make_obj(rng, cls, npol, n, kind, noise):
    shape = (n,) if npol == 1 else (2, n)
    sig = rand_vec(rng, shape, kind)
    noi = rand_vec(rng, shape, rng.choice(DTYPES)) if noise else None
    obj = cls(sig, noi)
    if noi is not None:
        rt = np.result_type(sig, noi)
        m = Model(cls, sig.astype(rt), noi.astype(rt))
    else:
        m = Model(cls, sig, None)
    return obj, m


def slices_for(rng, n):
    out = [0, -1, n - 1, -n, slice(None), slice(None, None, 2), slice(None, None, -1), slice(0, n), slice(None, n + 5)]
    if n > 1:
        out += [1, slice(1, None), slice(None, -1), slice(-2, None), slice(None, None, 3), slice(n - 1, None, -2)]
    if n > 4:
        i = int(rng.integers(1, n - 2))
        out += [i, -i, slice(i, None), slice(1, -1), slice(i, i + 2), slice(None, i, 2)]
    return out


def c01_constructors(rng):
    E, O = electrical_signal, optical_signal
    # scalar, list, tuple, string, ndarray forms
    for kind in DTYPES:
        for n in (1, 2, 5, 13):
            v = rand_vec(rng, (n,), kind)
            w = rand_vec(rng, (n,), kind)
            forms = [v, v.tolist(), tuple(v.tolist()), to_str(v)]
            nforms = [w, w.tolist(), tuple(w.tolist()), to_str(w)]
            for cls in (E, O):
                for f in forms:
                    o = guarded('C01', f'{cls.__name__}({type(f).__name__})', cls, f)
                    if o is not None:
                        fv = from_str(f) if isinstance(f, str) else v
                        match(o, Model(cls, fv, None), f'ctor {cls.__name__}({type(f).__name__}) {kind} n={n}')
                        if isinstance(f, np.ndarray):
                            no_share(o, [f], 'ctor')
                    for g in nforms:
                        o = guarded('C01', 'ctor with noise', cls, f, g)
                        if o is not None:
                            fv = from_str(f) if isinstance(f, str) else v
                            gw = from_str(g) if isinstance(g, str) else w
                            match(o, Model(cls, fv, gw), f'ctor {cls.__name__}(sig,noise) {kind} n={n}')
                            if isinstance(f, np.ndarray) and isinstance(g, np.ndarray):
                                no_share(o, [f, g], 'ctor')
                                check(same_bits(f, v) and same_bits(g, w), 'C01', 'ctor modified its inputs')
    for s in (3, 2.5, 1+2j, np.float64(4.0), np.int64(3)):
        for cls in (E, O):
            o = guarded('C01', 'scalar ctor', cls, s)
            if o is not None:
                match(o, Model(cls, np.array([s]), None), f'scalar ctor {cls.__name__}({s!r})')
            o = guarded('C01', 'scalar ctor noise', cls, s, 1)
            if o is not None:
                match(o, Model(cls, np.array([s]), np.array([1])), f'scalar ctor {cls.__name__}({s!r},1)')
    # optical two-polarisation forms
    v = rand_vec(rng, (2, 6), 'complex'); w = rand_vec(rng, (2, 6), 'float')
    for a, b, npol, es, en in [
        (v, None, None, v, None), (v, w, None, v, w), (v, w, 1, v[0], w[0]), (v[0], w[0], 2, np.array([v[0], v[0]]), np.array([w[0], w[0]])),
        (v[:1], None, None, np.array([v[0], v[0]]), None), (v[:1], w[:1], 1, v[0], w[0]), (v.tolist(), w.tolist(), None, v, w),
        (3.0, None, 2, np.array([[3.0], [3.0]]), None), (3.0, 1.0, 2, np.array([[3.0], [3.0]]), np.array([[1.0], [1.0]])),
        (v[0], None, 1, v[0], None), (v[0], None, None, v[0], None),
    ]:
        o = guarded('C01', 'optical ctor', O, a, b, npol)
        if o is not None:
            match(o, Model(O, es, en), f'optical ctor n_pol={npol}', exact=True)
            no_share(o, [x for x in (a, b) if isinstance(x, np.ndarray)], 'optical ctor')
    # rejected shapes
    for bad in (lambda: E([[1, 2, 3]]), lambda: E([1, 2, 3], [1, 2]), lambda: E([]), lambda: O(np.zeros((3, 4))),
                lambda: O(np.zeros((2, 2, 2))), lambda: O([1, 2], [1, 2, 3]), lambda: O([])):
        try:
            bad()
            fail('C01', 'invalid constructor shape accepted')
        except ValueError:
            pass
        except Exception as e:  # noqa: BLE001
            fail('C01', f'invalid constructor shape raised {type(e).__name__}')


def c01_binary_ops(rng):
    E, O = electrical_signal, optical_signal
    configs = [(E, 1), (O, 1), (O, 2)]
    for cls, npol in configs:
        for n in LENGTHS:
            for kind in DTYPES:
                for an, bn in itertools.product((False, True), repeat=2):
                    a, ma = make_obj(rng, cls, npol, n, kind, an)
                    b, mb = make_obj(rng, cls, npol, n, rng.choice(DTYPES), bn)
                    sa, sb = snapshot(a), snapshot(b)
                    where = f'{cls.__name__} npol={npol} n={n} {kind} noise=({an},{bn})'
                    for name, fn, mf in (('+', lambda: a + b, lambda: m_add(ma, mb)),
                                         ('-', lambda: a - b, lambda: m_add(ma, mb, -1)),
                                         ('*', lambda: a * b, lambda: m_mul(ma, mb))):
                        r = guarded('C01', f'{where} op {name}', fn)
                        if r is None:
                            continue
                        m = mf()
                        match(r, m, f'{where} op {name}')
                        no_share(r, [a, b], f'{where} op {name}')
                        if name in '+-':
                            tot = ma.total() + (1 if name == '+' else -1)*mb.total()
                            rt = r.signal if r.noise is None else r.signal + r.noise
                            check(np.allclose(rt, tot, rtol=1e-12, atol=1e-12), 'C01', f'{where} op {name}: total field')
                    check(unchanged(a, sa) and unchanged(b, sb), 'C01', f'{where}: operands modified')
                    check(type(a) is cls and type(b) is cls, 'C01', f'{where}: operand class changed')

                # other operand kinds
                a, ma = make_obj(rng, cls, npol, n, kind, bool(rng.integers(2)))
                sa = snapshot(a)
                v = rand_vec(rng, (n,), rng.choice(DTYPES))
                sc = [3, -2.5, 1.5-2j, True]
                rhs_only = [v, np.float64(1.25), np.int64(-3), np.complex128(1+1j), np.array(2.0)]
                both = sc + [v.tolist(), tuple(v.tolist()), to_str(v)]
                if npol == 2:
                    v2 = rand_vec(rng, (2, n), 'float')
                    rhs_only.append(v2)
                    both.append(v2.tolist())
                for o in both + rhs_only:
                    ov = from_str(o) if isinstance(o, str) else np.array(o)
                    mo = Model(cls, ov if ov.ndim else ov[None], None)
                    ocopy = _copy.deepcopy(o)
                    where = f'{cls.__name__} npol={npol} n={n} {kind} with {type(o).__name__}'
                    cases = [('+', lambda: a + o, m_add(ma, mo)), ('-', lambda: a - o, m_add(ma, mo, -1)), ('*', lambda: a * o, m_mul(ma, mo))]
                    if not any(o is x for x in rhs_only):
                        cases += [('r+', lambda: o + a, m_add(ma, mo)), ('r-', lambda: o - a, m_rsub(ma, mo)), ('r*', lambda: o * a, m_mul(ma, mo))]
                    for name, fn, m in cases:
                        r = guarded('C01', f'{where} {name}', fn)
                        if r is None:
                            continue
                        match(r, m, f'{where} {name}')
                        no_share(r, [a, o], f'{where} {name}')
                    if isinstance(o, np.ndarray):
                        check(same_bits(o, ocopy), 'C01', f'{where}: ndarray operand modified')
                    else:
                        check(type(o) is type(ocopy) and o == ocopy, 'C01', f'{where}: operand modified')
                check(unchanged(a, sa), 'C01', f'{cls.__name__}: operand modified by mixed-kind op')

                # length-1 same-class operand broadcasts
                one, mone = make_obj(rng, cls, 1, 1, 'float', a.noise is not None and bool(rng.integers(2)))
                for name, fn, m in (('+', lambda: a + one, m_add(ma, mone)), ('-', lambda: a - one, m_add(ma, mone, -1)), ('*', lambda: a * one, m_mul(ma, mone))):
                    r = guarded('C01', f'len-1 {name}', fn)
                    if r is not None:
                        match(r, m, f'{cls.__name__} npol={npol} n={n} len-1 operand {name}')
                        no_share(r, [a, one], 'len-1 operand')

                # different lengths rejected
                if n > 1:
                    for m2 in {n + 1, max(2, n - 1), 2*n} - {n}:
                        bad, _ = make_obj(rng, cls, npol, m2, 'float', False)
                        badv = rand_vec(rng, (m2,), 'float')
                        for fn in (lambda: a + bad, lambda: a - bad, lambda: a + badv, lambda: a - badv.tolist(),
                                   lambda: badv.tolist() + a, lambda: tuple(badv.tolist()) - a, lambda: a + to_str(badv)):
                            try:
                                fn()
                                fail('C01', f'{cls.__name__} n={n} vs {m2}: different lengths accepted')
                            except ValueError:
                                pass
                            except Exception as e:  # noqa: BLE001
                                fail('C01', f'different lengths raised {type(e).__name__}, not ValueError')


def c01_slicing(rng):
    E, O = electrical_signal, optical_signal
    for cls, npol in [(E, 1), (O, 1), (O, 2)]:
        for n in LENGTHS:
            for kind in DTYPES:
                for noise in (False, True):
                    a, ma = make_obj(rng, cls, npol, n, kind, noise)
                    sa = snapshot(a)
                    for sl in slices_for(rng, n):
                        where = f'{cls.__name__} npol={npol} n={n} slice {sl}'
                        r = guarded('C01', where, lambda: a[sl])
                        if r is None:
                            continue
                        match(r, m_slice(ma, sl), where)
                        no_share(r, [a], where)
                    r = guarded('C01', 'copy()', a.copy)
                    if r is not None:
                        match(r, ma, f'{cls.__name__} npol={npol} n={n} copy()')
                        no_share(r, [a], 'copy()')
                        r.signal[..., 0] = 99
                        if r.noise is not None:
                            r.noise[..., 0] = 77
                    if n > 2:
                        k = int(rng.integers(1, n))
                        r = guarded('C01', 'copy(k)', a.copy, k)
                        if r is not None:
                            match(r, m_slice(ma, slice(None, k)), f'{cls.__name__} copy({k})')
                    check(unchanged(a, sa), 'C01', f'{cls.__name__} npol={npol} n={n}: slicing/copy modified operand')
                    for bad in (n, -n - 1):
                        try:
                            a[bad]
                            fail('C01', f'index {bad} out of range accepted (n={n})')
                        except IndexError:
                            pass
                        except Exception as e:  # noqa: BLE001
                            fail('C01', f'index out of range raised {type(e).__name__}')


def c01_trees(rng, count=400):
    E, O = electrical_signal, optical_signal

    def gen(depth, cls, npol, n):
        """returns (thunk producing object, model)"""
        if depth == 0 or rng.random() < 0.15:
            o, m = make_obj(rng, cls, npol, n, rng.choice(DTYPES), bool(rng.integers(2)))
            return o, m
        op = rng.choice(['+', '-', '*', 'slice', 'copy', 'scalar', 'radd', 'rsub'])
        a, ma = gen(depth - 1, cls, npol, n)
        if op in '+-*':
            b, mb = gen(depth - 1, cls, npol, n)
            if ma.n != mb.n:
                k = min(ma.n, mb.n)
                a, ma = a[:k], m_slice(ma, slice(None, k))
                b, mb = b[:k], m_slice(mb, slice(None, k))
            if op == '+':
                return a + b, m_add(ma, mb)
            if op == '-':
                return a - b, m_add(ma, mb, -1)
            return a * b, m_mul(ma, mb)
        if op == 'slice':
            sls = [s for s in slices_for(rng, ma.n)]
            sl = sls[int(rng.integers(len(sls)))]
            return a[sl], m_slice(ma, sl)
        if op == 'copy':
            return a.copy(), Model(ma.cls, ma.sig, ma.noi)
        s = [2, -1.5, 0.5+1j][int(rng.integers(3))]
        ms = Model(cls, np.array([s]), None)
        if op == 'scalar':
            return a * s, m_mul(ma, ms)
        if op == 'radd':
            return s + a, m_add(ma, ms)
        return s - a, m_rsub(ma, ms)

    for i in range(count):
        cls, npol = [(E, 1), (O, 1), (O, 2)][i % 3]
        n = int(rng.choice([1, 2, 3, 7, 16, 33]))
        depth = int(rng.integers(1, 7))
        try:
            o, m = gen(depth, cls, npol, n)
        except SystemExit:
            raise
        except Exception as e:  # noqa: BLE001
            fail('C01', f'expression tree depth {depth} raised {type(e).__name__}: {e}')
            continue
        match(o, m, f'expression tree {cls.__name__} npol={npol} depth={depth}', exact=False)


# --------------------------------------------------------------------------
# C02
# --------------------------------------------------------------------------
GV_CONFIGS = [dict(), dict(sps=8, R=10e9), dict(sps=4, fs=40e9), dict(R=2.5e9, fs=80e9), dict(sps=32, R=1e9, N=4), dict(sps=1, R=1e9), dict(fs=32e9)]


def c02(rng):
    E, O = electrical_signal, optical_signal
    for cfg in GV_CONFIGS:
        gv.clean()
        gv(**cfg)
        fs = gv.fs
        for cls, npol in [(E, 1), (O, 1), (O, 2)]:
            for n in [1, 2, 3, 4, 5, 7, 8, 9, 16, 31, 64, 127, 128, 1000]:
                for kind in ('float', 'complex'):
                    for noise in (False, True):
                        x, mx = make_obj(rng, cls, npol, n, kind, noise)
                        sx = snapshot(x)
                        where = f'{cls.__name__} npol={npol} n={n} {kind} noise={noise} cfg={cfg}'
                        for dom in ('w', 'f'):
                            X = guarded('C02', where, x, dom)
                            if X is None:
                                continue
                            valid(X, cls, npol, n, noise, where + ' fwd')
                            check(np.allclose(X.signal, fft(mx.sig, axis=-1), rtol=1e-10, atol=1e-9), 'C02', f'{where}: forward transform of signal')
                            if noise:
                                check(np.allclose(X.noise, fft(mx.noi, axis=-1), rtol=1e-10, atol=1e-9), 'C02', f'{where}: forward transform of noise')
                            no_share(X, [x], where)
                            # Parseval per polarisation
                            lhs = np.sum(np.abs(X.signal)**2, axis=-1)
                            rhs = n*np.sum(np.abs(mx.sig)**2, axis=-1)
                            check(np.allclose(lhs, rhs, rtol=1e-9, atol=1e-9), 'C02', f'{where}: Parseval')
                            back = X('t')
                            valid(back, cls, npol, n, noise, where + ' inv')
                            check(np.allclose(back.signal, mx.sig, rtol=1e-9, atol=1e-9), 'C02', f'{where}: roundtrip signal')
                            if noise:
                                check(np.allclose(back.noise, mx.noi, rtol=1e-9, atol=1e-9), 'C02', f'{where}: roundtrip noise')
                            Xs = x(dom, shift=True)
                            check(np.array_equal(ifftshift(Xs.signal, axes=-1), X.signal), 'C02', f'{where}: shift=True is not fftshift of the transform')
                            check(np.array_equal(Xs.signal, fftshift(X.signal, axes=-1)), 'C02', f'{where}: shift=True forward')
                            if noise:
                                check(np.array_equal(Xs.noise, fftshift(X.noise, axes=-1)), 'C02', f'{where}: shift=True forward noise')
                        xt = x('t')
                        check(np.allclose(xt.signal, ifft(mx.sig, axis=-1), rtol=1e-10, atol=1e-12), 'C02', f'{where}: inverse transform')
                        xts = x('t', shift=True)
                        check(np.array_equal(xts.signal, ifftshift(xt.signal, axes=-1)), 'C02', f'{where}: shift=True inverse')
                        check(np.array_equal(fftshift(xts.signal, axes=-1), xt.signal), 'C02', f'{where}: opposite shift recovers inverse')
                        if noise:
                            check(np.array_equal(xts.noise, ifftshift(xt.noise, axes=-1)), 'C02', f'{where}: shift=True inverse noise')
                        check(np.allclose(xt('w').signal, mx.sig, rtol=1e-9, atol=1e-9), 'C02', f'{where}: t->w roundtrip')
                        # axis
                        w = x.w()
                        check(isinstance(w, np.ndarray) and w.shape == (n,), 'C02', f'{where}: w() shape')
                        check(np.array_equal(w, 2*pi*fftfreq(n)*fs), 'C02', f'{where}: w() values')
                        ws = x.w(shift=True)
                        check(np.array_equal(ws, fftshift(2*pi*fftfreq(n)*fs)), 'C02', f'{where}: w(shift=True) values')
                        check(np.array_equal(x.w(True), ws), 'C02', f'{where}: w(True) positional')
                        w[...] = -1.0
                        ws[...] = -2.0
                        check(np.array_equal(x.w(), 2*pi*fftfreq(n)*fs) and np.array_equal(x.w(shift=True), fftshift(2*pi*fftfreq(n)*fs)),
                              'C02', f'{where}: w() result aliases internal state')
                        # power
                        p = x.power()
                        exp = np.mean(np.abs(mx.total())**2, axis=-1)
                        check(np.shape(p) == np.shape(exp) and np.allclose(p, exp, rtol=1e-12, atol=0), 'C02', f'{where}: power()')
                        check(np.allclose(x.power('signal'), np.mean(np.abs(mx.sig)**2, axis=-1), rtol=1e-12), 'C02', f'{where}: power(signal)')
                        check(np.allclose(x.abs(), np.abs(mx.total()), rtol=1e-14), 'C02', f'{where}: abs()')
                        check(unchanged(x, sx), 'C02/C14', f'{where}: transform/w/power modified the object')
        # axis follows the sampling rate currently configured
        x = E(np.arange(10.0))
        gv(sps=2, R=3e9)
        check(np.array_equal(x.w(), 2*pi*fftfreq(10)*6e9), 'C02', 'w() does not follow gv.fs after reconfiguration')
        gv(sps=4, R=3e9)
        check(np.array_equal(x.w(), 2*pi*fftfreq(10)*12e9), 'C02', 'w() does not follow gv.fs after second reconfiguration')
        gv.fs = 5e9
        check(np.array_equal(x.w(shift=True), fftshift(2*pi*fftfreq(10)*5e9)), 'C02', 'w() does not follow gv.fs set directly')
    try:
        electrical_signal([1, 2, 3])('x')
        fail('C02', 'invalid domain accepted')
    except (ValueError, TypeError):
        pass
    gv.clean()


# --------------------------------------------------------------------------
# C14
# --------------------------------------------------------------------------
BUILTIN = ['sps', 'R', 'fs', 'dt', 'wavelength', 'f0', 'N', 't', 'dw', 'w']


def gv_consistent(where, custom):
    ok = True
    ok &= check(isinstance(gv.sps, (int, np.integer)) and not isinstance(gv.sps, bool) and gv.sps >= 1, 'C14', f'{where}: sps {gv.sps!r} not a positive integer')
    ok &= check(np.isclose(gv.fs, gv.R*gv.sps, rtol=1e-12, atol=0), 'C14', f'{where}: fs != R*sps')
    ok &= check(gv.dt == 1/gv.fs, 'C14', f'{where}: dt != 1/fs')
    ok &= check(gv.f0 == c/gv.wavelength, 'C14', f'{where}: f0 != c/wavelength')
    if gv.N is not None:
        n = gv.N*gv.sps
        ok &= check(gv.t is not None and gv.w is not None and gv.dw is not None, 'C14', f'{where}: N set without grid')
        if gv.t is not None and gv.w is not None:
            ok &= check(len(gv.t) == n and len(gv.w) == n, 'C14', f'{where}: t/w have {len(gv.t)}/{len(gv.w)} points, expected {n}')
            if len(gv.t) == n and len(gv.w) == n:
                ok &= check(np.allclose(gv.t, np.linspace(0, n*gv.dt, n, endpoint=True), rtol=1e-12, atol=0), 'C14', f'{where}: t not on the current fs')
                ok &= check(np.allclose(gv.w, 2*pi*fftshift(fftfreq(n))*gv.fs, rtol=1e-12, atol=0), 'C14', f'{where}: w not on the current fs')
            ok &= check(np.isclose(gv.dw, 2*pi*gv.fs/n, rtol=1e-12, atol=0), 'C14', f'{where}: dw')
    else:
        ok &= check(gv.t is None and gv.w is None and gv.dw is None, 'C14', f'{where}: grid present without N')
    for k, v in custom.items():
        ok &= check(hasattr(gv, k) and getattr(gv, k) is v, 'C14', f'{where}: custom attribute {k} lost')
    return ok


def gv_defaults(where):
    ok = check(gv.sps == 16 and gv.R == 1e9 and gv.fs == 16e9 and gv.dt == 1/16e9 and gv.wavelength == 1550e-9
               and gv.f0 == c/1550e-9 and gv.N is None and gv.t is None and gv.w is None and gv.dw is None,
               'C14', f'{where}: clean() did not restore the defaults')
    extra = [k for k in vars(gv) if k not in BUILTIN]
    ok &= check(not extra, 'C14', f'{where}: clean() left custom attributes {extra}')
    return ok


def c14_gv(rng, nseq=300):
    SPS = [1, 2, 4, 8, 16, 32, 64, 3, 5]
    RS = [1e9, 2.5e9, 10e9, 40e9, 1.25e9, 100e6]
    WL = [1550e-9, 1310e-9, 1549.5e-9, 850e-9]
    NS = [1, 2, 3, 8, 10, 128]
    CUSTOM = ['alpha', 'beta', 'my_grid', 'note']
    for s in range(nseq):
        gv.clean()
        gv_defaults(f'seq {s} start')
        custom = {}
        hist = []
        for step in range(int(rng.integers(1, 9))):
            if rng.random() < 0.15:
                gv.clean()
                custom = {}
                hist.append('clean')
                gv_defaults(f'seq {s} {hist}')
                continue
            sps = int(rng.choice(SPS)); R = float(rng.choice(RS))
            kw = {}
            which = rng.choice(['sps+R', 'sps+fs', 'R+fs', 'sps', 'R', 'fs', 'none', 'all'])
            if which == 'sps+R':
                kw.update(sps=sps, R=R)
            elif which == 'sps+fs':
                kw.update(sps=sps, fs=R*sps)
            elif which == 'R+fs':
                kw.update(R=R, fs=R*sps)
            elif which == 'sps':
                kw.update(sps=sps)
            elif which == 'R':
                kw.update(R=R)
            elif which == 'fs':
                kw.update(fs=gv.R*sps)
            elif which == 'all':
                kw.update(sps=sps, R=R, fs=R*sps)
            if rng.random() < 0.4:
                kw['wavelength'] = float(rng.choice(WL))
            if rng.random() < 0.4:
                kw['N'] = int(rng.choice(NS))
            if rng.random() < 0.35:
                k = str(rng.choice(CUSTOM))
                v = [rng.random(), 'text', np.arange(3), None, (1, 2)][int(rng.integers(5))]
                kw[k] = v
                custom[k] = v
            hist.append(dict(kw))
            prevN = gv.N
            r = guarded('C14', f'gv({kw})', gv, **kw)
            check(r is gv, 'C14', 'gv(...) does not return the instance')
            where = f'seq {s} {hist}'
            if not gv_consistent(where, custom):
                break
            # values now in force
            if 'sps' in kw:
                check(gv.sps == kw['sps'], 'C14', f'{where}: sps not applied')
            if 'R' in kw:
                check(gv.R == kw['R'], 'C14', f'{where}: R not applied')
            if 'fs' in kw:
                check(gv.fs == kw['fs'], 'C14', f'{where}: fs not applied')
            check(gv.wavelength == kw.get('wavelength', 1550e-9), 'C14', f'{where}: wavelength')
            check(gv.N == kw.get('N', prevN), 'C14', f'{where}: N not kept/applied')
        gv.clean()
        gv_defaults(f'seq {s} end')
    # documented test vector
    gv(sps=8, R=10e9, wavelength=1549e-9, N=10, alpha=0.2)
    check(gv.sps == 8 and gv.R == 10e9 and gv.fs == 80e9 and gv.dt == 1/80e9 and gv.N == 10 and gv.alpha == 0.2, 'C14', 'documented example')
    check(np.array_equal(gv.t, np.linspace(0, 80*gv.dt, 80, endpoint=True)), 'C14', 'documented example t')
    gv(sps=4, R=10e9)
    gv_consistent('N kept after later call', {})
    check(gv.N == 10 and len(gv.t) == 40 and gv.alpha == 0.2, 'C14', 'later call omitting N')
    gv.clean()
    gv_defaults('final')


def gv_state():
    out = {}
    for k, v in vars(gv).items():
        out[k] = v.copy() if isinstance(v, np.ndarray) else v
    return out


def gv_same(a, b):
    if a.keys() != b.keys():
        return False
    for k in a:
        x, y = a[k], b[k]
        if isinstance(x, np.ndarray) or isinstance(y, np.ndarray):
            if not (isinstance(x, np.ndarray) and isinstance(y, np.ndarray) and same_bits(x, y)):
                return False
        elif not (type(x) is type(y) and (x == y or x is y)):
            return False
    return True


def result_bytes(r):
    if isinstance(r, electrical_signal):
        return (type(r).__name__, r.signal.dtype.str, r.signal.shape, r.signal.tobytes(),
                None if r.noise is None else (r.noise.dtype.str, r.noise.tobytes()))
    if isinstance(r, binary_sequence):
        return ('bits', r.data.dtype.str, r.data.tobytes())
    if isinstance(r, np.ndarray):
        return ('arr', r.dtype.str, r.shape, r.tobytes())
    return ('val', repr(r))


def c14_purity(rng):
    E, O, B = electrical_signal, optical_signal, binary_sequence
    gv.clean()
    gv(sps=8, R=5e9, N=6, alpha=1.5)
    e = E(rng.normal(size=48), rng.normal(size=48))
    e2 = E(np.abs(rng.normal(size=48)))
    o = O(rng.normal(size=(2, 48)) + 1j*rng.normal(size=(2, 48)), rng.normal(size=(2, 48)))
    o1 = O(rng.normal(size=48))
    b = B(rng.integers(0, 2, 24)); b2 = B('1101')
    thr = np.abs(rng.normal(size=48))
    calls = {
        'e+e2': lambda: e + e2, 'e-3': lambda: e - 3, '2*e': lambda: 2*e, 'e*e2': lambda: e*e2, 'list-e': lambda: list(thr) - e,
        'e[3:20:2]': lambda: e[3:20:2], 'e[5]': lambda: e[5], 'e.copy': lambda: e.copy(), 'e(w)': lambda: e('w'), 'e(t,shift)': lambda: e('t', shift=True),
        'e.w': lambda: e.w(), 'e.w(shift)': lambda: e.w(shift=True), 'e.power': lambda: e.power(), 'e.abs': lambda: e.abs(), 'e.abs(noise)': lambda: e2.abs('noise'),
        'e>thr': lambda: e > thr, 'e<0.5': lambda: e < 0.5, 'len': lambda: e.len(),
        'o+o': lambda: o + o, 'o*2': lambda: o*2, 'o[1:9]': lambda: o[1:9], 'o[4]': lambda: o[4], 'o(w)': lambda: o('w', shift=True), 'o.copy': lambda: o.copy(),
        'o.power': lambda: o.power(), 'o1-o': lambda: o1 - o, 'o1[2:]': lambda: o1[2:], 'o.w': lambda: o.w(),
        'b+b2': lambda: b + b2, 'str+b': lambda: '0101' + b, '~b': lambda: ~b, 'b[2:9]': lambda: b[2:9], 'b.ones': lambda: b.ones(), 'b.zeros': lambda: b.zeros(),
        'B(list)': lambda: B([1, 0, 1]), 'E(list)': lambda: E([1, 2, 3], [0, 0, 1]), 'O(arr,2)': lambda: O(thr, n_pol=2),
    }
    names = list(calls)
    objs = [e, e2, o, o1]
    snaps = [snapshot(x) for x in objs]
    bsn = (b.data.copy(), b2.data.copy()); thr0 = thr.copy()
    state = gv_state()
    ref = {}
    for seed in (0, 1, 12345):
        for rep in range(3):
            order = list(names)
            if rep:
                rng.shuffle(order)
            for nm in order:
                np.random.seed(seed)
                r = guarded('C14', f'call {nm}', calls[nm])
                rb = result_bytes(r)
                if nm in ref:
                    check(ref[nm] == rb, 'C14', f'{nm}: result depends on call history / not reproducible')
                else:
                    ref[nm] = rb
                check(gv_same(state, gv_state()), 'C14', f'{nm}: modified gv')
                for x, sn in zip(objs, snaps):
                    check(unchanged(x, sn), 'C14', f'{nm}: modified an argument')
                check(same_bits(b.data, bsn[0]) and same_bits(b2.data, bsn[1]) and same_bits(thr, thr0), 'C14', f'{nm}: modified an argument')
                res_arrs = []
                if isinstance(r, electrical_signal):
                    res_arrs = [r.signal] + ([r.noise] if r.noise is not None else [])
                elif isinstance(r, binary_sequence):
                    res_arrs = [r.data]
                elif isinstance(r, np.ndarray):
                    res_arrs = [r]
                ins = [thr, b.data, b2.data] + [a for x in objs for a in ([x.signal] + ([x.noise] if x.noise is not None else []))]
                ins += [a for a in (gv.t, gv.w) if a is not None]
                for ra in res_arrs:
                    for ia in ins:
                        check(not np.shares_memory(ra, ia), 'C14', f'{nm}: output aliases an input buffer')
                    if ra.flags.writeable:
                        ra[...] = 0
    gv.clean()


# --------------------------------------------------------------------------
# C15
# --------------------------------------------------------------------------
def valid_bits(x, where, n=None):
    ok = check(type(x) is binary_sequence, 'C15', f'{where}: not a binary_sequence')
    if not ok:
        return False
    d = x.data
    ok &= check(isinstance(d, np.ndarray) and d.ndim == 1 and d.dtype == np.uint8, 'C15', f'{where}: data is {type(d).__name__} {getattr(d, "dtype", None)} ndim={getattr(d, "ndim", None)}')
    if ok:
        ok &= check(bool(np.all((d == 0) | (d == 1))), 'C15', f'{where}: data outside {{0,1}}')
        if n is not None:
            ok &= check(d.size == n and len(x) == n and x.len() == n, 'C15', f'{where}: length {d.size} != {n}')
    return bool(ok)


def c15_algebra(rng):
    B = binary_sequence
    strings = [''.join(p) for L in range(1, 13) for p in itertools.product('01', repeat=L)]
    longs = [''.join(rng.choice(['0', '1'], size=int(n))) for n in (100, 1000, 4097, 50000)]
    partner_pool = ['0', '1', '10', '0110', '111000', longs[0]]
    for idx, s in enumerate(strings + longs):
        ref = np.array([int(ch) for ch in s], dtype=np.uint8)
        a = guarded('C15', f'B({s[:20]!r})', B, s)
        if a is None or not valid_bits(a, f'B(str) {s[:20]}', len(s)):
            continue
        check(np.array_equal(a.data, ref), 'C15', f'B({s[:20]!r}) data')
        full = len(s) <= 8 or idx % 37 == 0 or len(s) > 12
        if full:
            for form in (list(ref), tuple(int(v) for v in ref), ref, ref.astype(bool), ref.astype(np.int64), ref.astype(float), [bool(v) for v in ref]):
                f = guarded('C15', 'container form', B, form)
                if f is not None and valid_bits(f, f'B({type(form).__name__})', len(s)):
                    check(np.array_equal(f.data, ref), 'C15', f'B({type(form).__name__}) data')
                    if isinstance(form, np.ndarray):
                        check(not np.shares_memory(f.data, form), 'C15', 'B(ndarray) aliases its input')
        a0 = a.data.copy()
        # inversion
        na = ~a
        if valid_bits(na, '~a', len(s)):
            check(np.array_equal(na.data, 1 - ref), 'C15', f'~a wrong for {s[:20]}')
            nna = ~na
            check(valid_bits(nna, '~~a', len(s)) and np.array_equal(nna.data, ref) and bool(nna == a), 'C15', '~~a != a')
            check(int(na.ones()) == int(a.zeros()), 'C15', 'ones(~a) != zeros(a)')
            check(not np.shares_memory(na.data, a.data), 'C15', '~a aliases a')
        check(int(a.ones()) == int(ref.sum()) and int(a.zeros()) == len(s) - int(ref.sum()), 'C15', f'ones/zeros wrong for {s[:20]}')
        check(a.ones() + a.zeros() == a.len() == len(a) == len(s), 'C15', 'ones()+zeros() != len()')
        # concatenation
        partners = partner_pool if full else [partner_pool[idx % len(partner_pool)]]
        for p in partners:
            pref = np.array([int(ch) for ch in p], dtype=np.uint8)
            pb = B(p)
            forms = [pb, p, list(pref), tuple(pref.tolist()), pref] if full else [pb, p, pref.tolist()]
            for f in forms:
                r = guarded('C15', 'a+f', lambda: a + f)
                if r is not None and valid_bits(r, f'a+{type(f).__name__}', len(s) + len(p)):
                    check(np.array_equal(r.data, np.concatenate((ref, pref))), 'C15', f'a+{type(f).__name__} data')
                    check(bool(r[:len(a)] == a), 'C15', '(a+b)[:len(a)] != a')
                    check(not np.shares_memory(r.data, a.data) and not np.shares_memory(r.data, pb.data), 'C15', 'a+b aliases operand')
                if not isinstance(f, np.ndarray):
                    r = guarded('C15', 'f+a', lambda: f + a)
                    if r is not None and valid_bits(r, f'{type(f).__name__}+a', len(s) + len(p)):
                        check(np.array_equal(r.data, np.concatenate((pref, ref))), 'C15', f'{type(f).__name__}+a data')
                        check(bool(r[:len(p)] == pb), 'C15', '(b+a)[:len(b)] != b')
            check(np.array_equal(pb.data, pref), 'C15', 'concatenation modified operand')
        # slicing
        n = len(s)
        sls = slices_for(rng, n) if full else [0, -1, slice(None), slice(None, None, 2), slice(None, None, -1)]
        for sl in sls:
            r = guarded('C15', f'a[{sl}]', lambda: a[sl])
            exp = np.atleast_1d(ref[sl])
            if r is not None and valid_bits(r, f'a[{sl}]', exp.size):
                check(np.array_equal(r.data, exp), 'C15', f'a[{sl}] data')
                check(not np.shares_memory(r.data, a.data), 'C15', 'slice aliases operand')
        for bad in (n, -n - 1):
            try:
                a[bad]
                fail('C15', 'index out of range accepted')
            except IndexError:
                pass
        check(same_bits(a.data, a0), 'C15', f'operations modified operand {s[:20]}')
    # scalars / bools
    for v, e in ((0, 0), (1, 1), (True, 1), (False, 0), (np.uint8(1), 1), (np.bool_(False), 0), (1.0, 1), (np.int64(0), 0), ('1', 1), ('0', 0)):
        r = guarded('C15', f'B({v!r})', B, v)
        if r is not None and valid_bits(r, f'B({v!r})', 1):
            check(int(r.data[0]) == e, 'C15', f'B({v!r}) value')
    # rejections
    bads = [2, -1, 0.5, [0, 1, 2], '012', '1;0', '10;01', [[0, 1], [1, 0]], np.zeros((2, 2)), [0.5, 1], 'abc', None, [0, None], np.array([[1]]), (0, 3), 1.5+0j, [-1, 0]]
    for v in bads:
        try:
            r = B(v)
            fail('C15', f'B({v!r}) accepted -> {r.data}')
        except (ValueError, TypeError):
            pass
        except Exception as e:  # noqa: BLE001
            fail('C15', f'B({v!r}) raised {type(e).__name__}')
    a = B('1011')
    for v in [2, 1, None, 1.0, [0, 2], '012', (3,), [[0, 1]], np.array([[1, 0]]), [0.5], 'a', {0, 1}, {'a': 1}]:
        for fn, nm in ((lambda: a + v, 'a+'), (lambda: v + a, '+a')):
            try:
                r = fn()
                fail('C15', f'{nm}{v!r} accepted -> {getattr(r, "data", r)}')
            except (ValueError, TypeError):
                pass
            except Exception as e:  # noqa: BLE001
                fail('C15', f'{nm}{v!r} raised {type(e).__name__}')
    check(np.array_equal(a.data, [1, 0, 1, 1]), 'C15', 'rejected operations modified operand')
    # random expressions built from +, ~ and slicing
    for i in range(300):
        def gen(d):
            if d == 0 or rng.random() < 0.2:
                bits = rng.integers(0, 2, int(rng.integers(1, 20))).astype(np.uint8)
                return B(bits), bits
            op = rng.choice(['+', '~', 's', 'r'])
            x, mx = gen(d - 1)
            if op == '~':
                return ~x, (1 - mx).astype(np.uint8)
            if op == '+':
                y, my = gen(d - 1)
                return x + y, np.concatenate((mx, my))
            if op == 'r':
                y, my = gen(d - 1)
                return my.tolist() + x, np.concatenate((my, mx))
            sls = slices_for(rng, mx.size)
            sl = sls[int(rng.integers(len(sls)))]
            return x[sl], np.atleast_1d(mx[sl])
        x, mx = gen(int(rng.integers(1, 6)))
        if valid_bits(x, 'expression', mx.size):
            check(np.array_equal(x.data, mx), 'C15', 'expression value')


def c15_compare(rng):
    E = electrical_signal
    for n in (1, 2, 5, 16, 257):
        for kind in ('nonneg', 'real', 'complex'):
            for noise in (False, True):
                if kind == 'nonneg':
                    s = np.abs(rng.normal(size=n)); nz = np.abs(rng.normal(size=n)) if noise else None
                    if n > 2:
                        s[1] = 0.5; s[2] = 0.0
                        if noise:
                            nz[1] = 0.0
                elif kind == 'real':
                    s = rng.normal(size=n); nz = rng.normal(size=n) if noise else None
                else:
                    s = rng.normal(size=n) + 1j*rng.normal(size=n); nz = rng.normal(size=n) + 0j if noise else None
                x = E(s, nz)
                sx = snapshot(x)
                tot = s if nz is None else s + nz
                tv = np.abs(rng.normal(size=n))
                thrs = [0.5, 0, 1, np.float64(0.7), np.int64(1), tv, tv.tolist(), tuple(tv.tolist()), np.array(0.3), E(tv), E([0.4])]
                if kind != 'nonneg':
                    thrs += [-0.5, 0.3+0.4j, -tv]
                for t in thrs:
                    tval = t.signal if isinstance(t, E) else np.asarray(t)
                    for opn, fn, ref in (('>', lambda: x > t, np.greater), ('<', lambda: x < t, np.less)):
                        r = guarded('C15', f'x {opn} {type(t).__name__}', fn)
                        if r is None or not valid_bits(r, f'signal {opn} threshold ({kind}, n={n})', n):
                            continue
                        nonneg_thr = np.isrealobj(tval) and bool(np.all(tval >= 0))
                        if kind == 'nonneg' and nonneg_thr:
                            exp = ref(tot, tval).astype(np.uint8) * np.ones(n, dtype=np.uint8)
                            check(np.array_equal(r.data, exp), 'C15', f'signal {opn} {type(t).__name__} differs from element-wise comparison (n={n}, noise={noise})')
                        check(not np.shares_memory(r.data, x.signal), 'C15', 'comparison result aliases signal')
                check(unchanged(x, sx), 'C15', 'comparison modified the signal')
                if n > 1:
                    for fn in (lambda: x > np.ones(n + 1), lambda: x < [0.1]*(n + 2)):
                        try:
                            fn()
                            fail('C15', 'threshold of different length accepted')
                        except ValueError:
                            pass


# --------------------------------------------------------------------------
# optional features (skipped when absent)
# --------------------------------------------------------------------------
def features(rng):
    E, O, B = electrical_signal, optical_signal, binary_sequence
    # numpy scalars / 0-d arrays in gv
    gv.clean()
    try:
        gv(sps=np.int64(8), R=np.float64(10e9), N=np.int64(5), wavelength=np.float64(1549e-9))
        supported = True
    except Exception:  # noqa: BLE001
        supported = False
    if supported:
        gv_consistent('gv with numpy scalars', {})
        check(gv.sps == 8 and gv.R == 10e9 and gv.fs == 80e9 and gv.N == 5 and len(gv.t) == 40, 'C14', 'gv with numpy scalars: values')
    gv.clean()
    try:
        gv(sps=np.array(4), fs=np.array(40e9), N=np.array(3))
        supported = True
    except Exception:  # noqa: BLE001
        supported = False
    if supported:
        gv_consistent('gv with 0-d arrays', {})
        check(gv.sps == 4 and gv.fs == 40e9 and gv.R == 10e9 and gv.N == 3, 'C14', 'gv with 0-d arrays: values')
    gv.clean()
    gv(sps=4, R=10**9, N=3)
    gv_consistent('gv with integer R', {})
    check(gv.R == 1e9 and gv.fs == 4e9, 'C14', 'gv with integer R: values')
    gv.clean()
    # degenerate slot count (outside the domain): whatever happens must leave a consistent grid if it returns
    gv(sps=4, R=1e9, N=5)
    try:
        gv(sps=8, R=1e9, N=0)
        returned = True
    except Exception:  # noqa: BLE001
        returned = False
    if returned:
        if gv.N:
            gv_consistent('after gv(N=0)', {})
        else:
            check(gv.sps == 8 and gv.fs == 8e9 and gv.dt == 1/8e9, 'C14', 'after gv(N=0): rates')
        gv(sps=2, R=1e9, N=4)
        gv_consistent('gv(N=4) after gv(N=0)', {})
        check(gv.N == 4 and len(gv.t) == 8, 'C14', 'N after degenerate N')
    gv.clean()
    gv_defaults('after degenerate N')
    # copy keywords
    x = E(np.arange(6.0), np.ones(6))
    params = inspect.signature(E.copy).parameters
    for name in params:
        if name == 'self':
            continue
        with warnings.catch_warnings():
            warnings.simplefilter('ignore')
            try:
                r = x.copy(**{name: 4})
            except TypeError:
                continue
        match(r, Model(E, np.arange(4.0), np.ones(4)), f'copy({name}=4)')
        no_share(r, [x], f'copy({name}=4)')
    o = O(np.arange(12.0).reshape(2, 6))
    match(o.copy(3), Model(O, o.signal[:, :3], None), 'optical copy(3)')
    with warnings.catch_warnings():
        warnings.simplefilter('error', DeprecationWarning)
        guarded('C01', 'copy() / copy(3) must not warn about deprecation', lambda: (x.copy(), x.copy(3)))


def main():
    rng = np.random.default_rng(20240927)
    np.random.seed(7)
    steps = [c01_constructors, c01_binary_ops, c01_slicing, c01_trees, c02, c14_gv, c14_purity, c15_algebra, c15_compare, features]
    for st in steps:
        try:
            st(rng)
        except SystemExit:
            raise
        except Exception as e:  # noqa: BLE001
            import traceback
            traceback.print_exc()
            fail(st.__name__, f'checker step crashed: {type(e).__name__}: {e}')
        finally:
            try:
                gv.clean()
            except Exception as e:  # noqa: BLE001
                fail('C14', f'clean() raised {type(e).__name__}: {e}')
    finish()


if __name__ == '__main__':
    main()
